#!/usr/bin/env python3
"""Regenerates, from /repo's *current* sources, the glue code the harness needs:

  src/gen/enums.rs      generic access to every spirv enum / bit-mask type by name
  src/gen/operands.rs   dr::Operand <-> JSON  ([variant, value])
  src/gen/builder.rs    one call per public Builder method (see gen_builder.py)
  ../build/gen/live_decl.json   the textual declarations (values, aliases, FromStr names,
                                from_u32 ranges) for the three-way comparison of C08

Only declaration *shapes* are read from the source text (type names, variant names,
method signatures); values and behaviour are always observed through the public API.
A shape the generator cannot handle is a tool error (exit 2), never a silent skip.
"""
import json, os, re, sys

REPO = os.environ.get("VERIF_REPO", "/repo")
HERE = os.path.dirname(os.path.abspath(__file__))
GEN = os.path.join(HERE, "src", "gen")
OUT = os.path.join(HERE, "..", "build", "gen")


def die(msg):
    sys.stderr.write("gen.py: TOOL ERROR: %s\n" % msg)
    sys.exit(2)


def const_value(expr, earlier, where):
    """value of the constant expression of a bitflags constant (integer literals in any base with or without a type
    suffix, << | & + - ( ), references to earlier constants of the same type)"""
    e = re.sub(r"(?:Self|%s)\s*::\s*(\w+)\s*\.\s*bits\s*(?:\(\s*\))?" % re.escape(where), lambda m: str(earlier.get(m.group(1), "?")), expr)
    e = re.sub(r"\b(0x[0-9a-fA-F_]+|0b[01_]+|0o[0-7_]+|\d[\d_]*)\s*(?:u32|u64|usize|i32)?\b", lambda m: str(int(m.group(1).replace("_", ""), 0)), e)
    e = e.replace("!", "~")
    if not re.fullmatch(r"[\d\s<>|&+\-()~]+", e):
        die("cannot evaluate the bitflags constant expression %r in %s" % (expr, where))
    try:
        return int(eval(e, {"__builtins__": {}}, {})) & 0xffffffff
    except Exception:
        die("cannot evaluate the bitflags constant expression %r in %s" % (expr, where))


def parse_spirv():
    src = open(os.path.join(REPO, "spirv", "autogen_spirv.rs")).read()
    masks = {}
    order = []
    for m in re.finditer(r"bitflags!\s*\{(.*?)pub struct (\w+)\s*:\s*u32\s*\{(.*?)\}\s*\}", src, re.S):
        name = m.group(2)
        # a constant's value may be spelled 4u32, 0x4, 1 << 2, Self::A.bits() | Self::B.bits(), ...: evaluated, not matched
        consts = []
        for c in re.finditer(r"const (\w+)\s*=\s*([^;]+);", m.group(3)):
            consts.append((c.group(1), const_value(c.group(2), dict(consts), name)))
        masks[name] = consts
        order.append(("mask", name))
    enums = {}
    for m in re.finditer(r"pub enum (\w+) \{\n(.*?)\n\}", src, re.S):
        name = m.group(1)
        vals = []
        for line in m.group(2).split("\n"):
            line = line.strip()
            if not line or line.startswith("#") or line.startswith("//"):
                continue
            mm = re.match(r"(\w+) = (0x[0-9a-fA-F]+|\d+)(?:u32)?,", line)
            if not mm:
                die("cannot parse enum line %r in %s" % (line, name))
            vals.append((mm.group(1), int(mm.group(2), 0)))
        enums[name] = {"values": vals, "aliases": [], "fromstr": [], "ranges": [], "has_fromstr": False}
        order.append(("enum", name))
    # aliases
    for m in re.finditer(r"impl (\w+) \{\n((?:\s*pub const \w+: \w+ =\s+\w+::\w+;\n)+)\}", src):   # rustfmt wraps long ones
        name = m.group(1)
        for a in re.finditer(r"pub const (\w+): \w+ =\s+\w+::(\w+);", m.group(2)):
            enums[name]["aliases"].append((a.group(1), a.group(2)))
    # from_u32 ranges
    for m in re.finditer(r"impl (\w+) \{\n\s*pub fn from_u32\(n: u32\) -> Option<Self> \{\n\s*Some\(match n \{\n(.*?)_ => return None", src, re.S):
        name = m.group(1)
        for r in re.finditer(r"(0x[0-9a-fA-F]+|\d+)(?:u32)?(?:\s*\.\.=\s*(0x[0-9a-fA-F]+|\d+)(?:u32)?)?\s*=>", m.group(2)):
            lo = int(r.group(1), 0); hi = int(r.group(2), 0) if r.group(2) else lo
            enums[name]["ranges"].append((lo, hi))
    # FromStr
    for m in re.finditer(r"impl core::str::FromStr for (\w+) \{(.*?)\n\}\n", src, re.S):
        name = m.group(1)
        enums[name]["has_fromstr"] = True
        for s in re.finditer(r"\"([^\"]+)\"\s*=>\s*Self::(\w+)", m.group(2)):
            enums[name]["fromstr"].append((s.group(1), s.group(2)))
    consts = {}
    for m in re.finditer(r"pub const (\w+): (\w+) = (\w+);", src):
        consts[m.group(1)] = m.group(3)
    return masks, enums, order, consts


def parse_operand_enum():
    src = open(os.path.join(REPO, "rspirv", "dr", "autogen_operand.rs")).read()
    m = re.search(r"pub enum Operand \{\n(.*?)\n\}", src, re.S)
    if not m:
        die("Operand enum not found")
    out = []
    for line in m.group(1).split("\n"):
        line = line.strip()
        if not line or line.startswith("#"):
            continue
        mm = re.match(r"(\w+)\(([\w:]+)\),", line)
        if not mm:
            die("cannot parse Operand variant %r" % line)
        out.append((mm.group(1), mm.group(2)))
    return out


def parse_operand_kind():
    src = open(os.path.join(REPO, "rspirv", "grammar", "autogen_table.rs")).read()
    m = re.search(r"pub enum OperandKind \{\n(.*?)\n\}", src, re.S)
    return [l.strip().rstrip(",") for l in m.group(1).split("\n") if l.strip() and not l.strip().startswith("#")]


def snake(name):
    return name


def main():
    os.makedirs(GEN, exist_ok=True)
    os.makedirs(OUT, exist_ok=True)
    masks, enums, order, consts = parse_spirv()
    variants = parse_operand_enum()
    kinds = parse_operand_kind()
    json.dump({"masks": masks, "enums": enums, "order": order, "consts": consts,
               "operand_variants": variants, "operand_kinds": kinds},
              open(os.path.join(OUT, "live_decl.json"), "w"), indent=0)

    # ---------------- enums.rs
    e = []
    e.append("// GENERATED by gen.py from /repo's current sources. Do not edit.\n")
    e.append("pub const ENUM_NAMES: &[&str] = &[%s];\n" % ", ".join('"%s"' % n for n in enums))
    e.append("pub const MASK_NAMES: &[&str] = &[%s];\n" % ", ".join('"%s"' % n for n in masks))
    e.append("/// from_u32 of the named enumeration: Some(value as u32) if accepted.\n")
    e.append("#[inline(never)] pub fn enum_from_u32(kind: &str, n: u32) -> Option<u32> { match kind {\n")
    for n in enums:
        e.append('  "%s" => spirv::%s::from_u32(n).map(|v| v as u32),\n' % (n, n))
    e.append('  _ => panic!("vh: unknown enum kind {}", kind) } }\n')
    e.append("/// index-based variant for the 2^32 sweep (no string compare in the hot loop)\n")
    e.append("pub fn enum_from_u32_fn(kind: &str) -> fn(u32) -> Option<u32> { match kind {\n")
    for n in enums:
        e.append('  "%s" => |n| spirv::%s::from_u32(n).map(|v| v as u32),\n' % (n, n))
    e.append('  _ => panic!("vh: unknown enum kind {}", kind) } }\n')
    e.append("/// Debug name of a value that from_u32 accepted.\n")
    e.append("pub fn enum_debug(kind: &str, n: u32) -> Option<String> { match kind {\n")
    for n in enums:
        e.append('  "%s" => spirv::%s::from_u32(n).map(|v| format!("{:?}", v)),\n' % (n, n))
    e.append('  _ => panic!("vh: unknown enum kind {}", kind) } }\n')
    e.append("pub fn enum_has_fromstr(kind: &str) -> bool { match kind {\n")
    for n, d in enums.items():
        e.append('  "%s" => %s,\n' % (n, "true" if d["has_fromstr"] else "false"))
    e.append('  _ => false } }\n')
    e.append("pub fn enum_from_str(kind: &str, s: &str) -> Option<u32> { match kind {\n")
    for n, d in enums.items():
        if d["has_fromstr"]:
            e.append('  "%s" => s.parse::<spirv::%s>().ok().map(|v| v as u32),\n' % (n, n))
    e.append('  _ => None } }\n')
    e.append("/// value of an associated alias constant, by (kind, alias name)\n")
    e.append("pub fn enum_alias_value(kind: &str, alias: &str) -> Option<u32> { match (kind, alias) {\n")
    for n, d in enums.items():
        for a, t in d["aliases"]:
            e.append('  ("%s", "%s") => Some(spirv::%s::%s as u32),\n' % (n, a, n, a))
    e.append('  _ => None } }\n')
    e.append("/// value of a declared variant, by (kind, variant name): observed through `as u32`\n")
    e.append("pub fn enum_variant_value(kind: &str, name: &str) -> Option<u32> { match (kind, name) {\n")
    for n, d in enums.items():
        for a, _ in d["values"]:
            e.append('  ("%s", "%s") => Some(spirv::%s::%s as u32),\n' % (n, a, n, a))
    e.append('  _ => None } }\n')
    e.append("pub fn mask_from_bits(kind: &str, n: u32) -> Option<u32> { match kind {\n")
    for n in masks:
        e.append('  "%s" => spirv::%s::from_bits(n).map(|v| v.bits()),\n' % (n, n))
    e.append('  _ => panic!("vh: unknown mask kind {}", kind) } }\n')
    e.append("pub fn mask_from_bits_fn(kind: &str) -> fn(u32) -> Option<u32> { match kind {\n")
    for n in masks:
        e.append('  "%s" => |n| spirv::%s::from_bits(n).map(|v| v.bits()),\n' % (n, n))
    e.append('  _ => panic!("vh: unknown mask kind {}", kind) } }\n')
    e.append("pub fn mask_all(kind: &str) -> u32 { match kind {\n")
    for n in masks:
        e.append('  "%s" => spirv::%s::all().bits(),\n' % (n, n))
    e.append('  _ => panic!("vh: unknown mask kind {}", kind) } }\n')
    e.append("pub fn mask_const_value(kind: &str, name: &str) -> Option<u32> { match (kind, name) {\n")
    for n, cs in masks.items():
        for c, val in cs:
            if c == "_":
                # an unnamed flag (bitflags `const _ = ...`): cannot be referenced; its declared value is what counts
                e.append('  ("%s", "_") => Some(%du32),\n' % (n, val))
            else:
                e.append('  ("%s", "%s") => Some(spirv::%s::%s.bits()),\n' % (n, c, n, c))
    e.append('  _ => None } }\n')
    e.append("pub fn mask_debug(kind: &str, n: u32) -> Option<String> { match kind {\n")
    for n in masks:
        e.append('  "%s" => spirv::%s::from_bits(n).map(|v| format!("{:?}", v)),\n' % (n, n))
    e.append('  _ => panic!("vh: unknown mask kind {}", kind) } }\n')
    e.append("/// the Disassemble impl of the mask TYPE itself (pub trait rspirv::binary::Disassemble)\n")
    e.append("pub fn mask_disas(kind: &str, n: u32) -> Option<String> { use rspirv::binary::Disassemble; match kind {\n")
    for n in masks:
        e.append('  "%s" => spirv::%s::from_bits(n).map(|v| v.disassemble()),\n' % (n, n))
    e.append('  _ => None } }\n')
    open(os.path.join(GEN, "enums.rs"), "w").write("".join(e))

    # ---------------- operands.rs
    o = []
    o.append("// GENERATED by gen.py from /repo's current sources. Do not edit.\n")
    o.append("use rspirv::dr::Operand;\n")
    o.append("pub const OPERAND_VARIANTS: &[&str] = &[%s];\n" % ", ".join('"%s"' % v for v, _ in variants))
    o.append("/// (variant name, payload words, string payload)\n")
    o.append("pub fn operand_parts(op: &Operand) -> (&'static str, Vec<u32>, Option<String>) { match op {\n")
    for v, t in variants:
        if t.startswith("spirv::") and t[7:] in masks:
            o.append('  Operand::%s(v) => ("%s", vec![v.bits()], None),\n' % (v, v))
        elif t.startswith("spirv::") and t[7:] in enums:
            o.append('  Operand::%s(v) => ("%s", vec![*v as u32], None),\n' % (v, v))
        elif t in ("spirv::Word", "u32"):
            o.append('  Operand::%s(v) => ("%s", vec![*v], None),\n' % (v, v))
        elif t == "u64":
            o.append('  Operand::%s(v) => ("%s", vec![*v as u32, (*v >> 32) as u32], None),\n' % (v, v))
        elif t == "String":
            o.append('  Operand::%s(v) => ("%s", vec![], Some(v.clone())),\n' % (v, v))
        else:
            die("unhandled Operand payload type %s" % t)
    o.append("} }\n")
    o.append("/// Build an operand from (variant, words / string). None if the numeric value is not accepted.\n")
    o.append("pub fn operand_make(variant: &str, w: &[u32], s: Option<&str>) -> Option<Operand> { Some(match variant {\n")
    for v, t in variants:
        if t.startswith("spirv::") and t[7:] in masks:
            o.append('  "%s" => Operand::%s(spirv::%s::from_bits(w[0])?),\n' % (v, v, t[7:]))
        elif t.startswith("spirv::") and t[7:] in enums:
            o.append('  "%s" => Operand::%s(spirv::%s::from_u32(w[0])?),\n' % (v, v, t[7:]))
        elif t in ("spirv::Word", "u32"):
            o.append('  "%s" => Operand::%s(w[0]),\n' % (v, v))
        elif t == "u64":
            o.append('  "%s" => Operand::%s((w[0] as u64) | ((w[1] as u64) << 32)),\n' % (v, v))
        elif t == "String":
            o.append('  "%s" => Operand::%s(s?.to_string()),\n' % (v, v))
    o.append('  _ => return None }) }\n')
    open(os.path.join(GEN, "operands.rs"), "w").write("".join(o))

    # ---------------- decode.rs: typed decoder requests by kind name
    dsrc = open(os.path.join(REPO, "rspirv", "binary", "autogen_decode_operand.rs")).read()
    d = ["// GENERATED by gen.py from /repo's current sources. Do not edit.\n",
         "use rspirv::binary::{Decoder, DecodeError};\n",
         "pub fn decode_typed(d: &mut Decoder, kind: &str) -> Result<u32, DecodeError> { match kind {\n"]
    typed = []
    for m in re.finditer(r"pub fn (\w+)\(&mut self\) -> Result<spirv::(\w+)>", dsrc):
        fn, ty = m.group(1), m.group(2)
        typed.append(ty)
        if ty in masks:
            d.append('  "%s" => d.%s().map(|v| v.bits()),\n' % (ty, fn))
        elif ty in enums:
            d.append('  "%s" => d.%s().map(|v| v as u32),\n' % (ty, fn))
        else:
            die("typed decoder method %s returns unknown type %s" % (fn, ty))
    d.append('  _ => panic!("vh: no typed decoder request for {}", kind) } }\n')
    d.append("pub const TYPED_KINDS: &[&str] = &[%s];\n" % ", ".join('"%s"' % t for t in typed))
    open(os.path.join(GEN, "decode.rs"), "w").write("".join(d))

    # ---------------- reflect.rs: From<payload> / unwrap_* per Operand variant
    osrc = open(os.path.join(REPO, "rspirv", "dr", "autogen_operand.rs")).read()
    # unwrap_<snake case of the variant>: matched by NAME (not by the body, which a change under test may have altered)
    by_norm = {}
    for m in re.finditer(r"pub fn (unwrap_\w+)\(\s*&self,?\s*\) -> ([&\w:]+)", osrc):
        by_norm[m.group(1)[len("unwrap_"):].replace("_", "").lower()] = (m.group(1), m.group(2))
    unwrap = {v: by_norm[v.lower()] for v, _ in variants if v.lower() in by_norm}
    r = ["// GENERATED by gen.py from /repo's current sources. Do not edit.\n", "use rspirv::dr::Operand;\n",
         "/// (From<payload> gives the expected variant with the payload, unwrap_* of it returns the payload)\n",
         "pub fn from_unwrap(variant: &str, w: &[u32], s: &str) -> Option<(bool, bool)> { Some(match variant {\n"]
    for v, t in variants:
        if v not in unwrap:
            die("no unwrap_* method found for Operand::%s" % v)
        fn = unwrap[v][0]
        if t.startswith("spirv::") and t[7:] in masks:
            r.append('  "%s" => { let p = spirv::%s::from_bits(w[0])?; let o = Operand::from(p); (o == Operand::%s(p), o.%s() == p) }\n' % (v, t[7:], v, fn))
        elif t.startswith("spirv::") and t[7:] in enums:
            r.append('  "%s" => { let p = spirv::%s::from_u32(w[0])?; let o = Operand::from(p); (o == Operand::%s(p), o.%s() == p) }\n' % (v, t[7:], v, fn))
        elif v == "LiteralBit32":
            r.append('  "%s" => { let p: u32 = w[0]; let o = Operand::from(p); (o == Operand::%s(p), o.%s() == p) }\n' % (v, v, fn))
        elif v == "LiteralBit64":
            r.append('  "%s" => { let p: u64 = (w[0] as u64) | ((w[1] as u64) << 32); let o = Operand::from(p); (o == Operand::%s(p), o.%s() == p) }\n' % (v, v, fn))
        elif v == "LiteralString":
            r.append('  "%s" => { let p = s.to_string(); let o = Operand::from(p.clone()); let o2 = Operand::from(s); (o == Operand::%s(p.clone()) && o2 == o, o.%s() == p) }\n' % (v, v, fn))
        else:
            # no From impl for this payload (ids are plain words): only unwrap of the variant itself
            r.append('  "%s" => { let o = Operand::%s(w[0]); (true, o.%s() == w[0]) }\n' % (v, v, fn))
    r.append('  _ => return None }) }\n')
    open(os.path.join(GEN, "reflect.rs"), "w").write("".join(r))

    # ---------------- errors.rs: error enums by VARIANT (never through their Debug / Display text, which a tree may change)
    def variants_of(path, enum_name):
        src = open(os.path.join(REPO, path)).read()
        m = re.search(r"pub enum %s\s*\{(.*?)\n\}" % enum_name, src, re.S)
        if not m:
            die("enum %s not found in %s" % (enum_name, path))
        out = []
        depth = 0
        for line in m.group(1).split("\n"):
            t = line.strip()
            if depth == 0:
                vm = re.match(r"(\w+)\s*(\(|\{|,|$)", t)
                if vm and not t.startswith("#") and not t.startswith("//"):
                    kindch = vm.group(2)
                    fields = []
                    if kindch == "(":
                        inner = t[t.index("(") + 1: t.rindex(")")] if ")" in t else ""
                        fields = [x.strip() for x in inner.split(",") if x.strip()]
                    out.append((vm.group(1), kindch, fields))
            depth += t.count("{") - t.count("}")
            if depth < 0: depth = 0
        return out
    e = ["// GENERATED by gen.py from /repo's current sources. Do not edit.\n",
         "use rspirv::binary::DecodeError;\nuse rspirv::dr;\n",
         "/// (variant name, first usize payload, second payload if it is a word)\n",
         "#[allow(unreachable_patterns, unused_variables)]\npub fn decode_err_parts(e: &DecodeError) -> (&'static str, usize, Option<u32>) { match e {\n"]
    for name, kindch, fields in variants_of("rspirv/binary/autogen_error.rs", "Error"):
        if kindch == "(" and len(fields) >= 2 and fields[0] == "usize" and fields[1] in ("spirv::Word", "u32", "Word"):
            e.append('  DecodeError::%s(o, w, ..) => ("%s", *o, Some(*w)),\n' % (name, name))
        elif kindch == "(" and len(fields) >= 1 and fields[0] == "usize":
            e.append('  DecodeError::%s(o, ..) => ("%s", *o, None),\n' % (name, name))
        elif kindch == "(":
            e.append('  DecodeError::%s(..) => ("%s", 0, None),\n' % (name, name))
        elif kindch == "{":
            e.append('  DecodeError::%s { .. } => ("%s", 0, None),\n' % (name, name))
        else:
            e.append('  DecodeError::%s => ("%s", 0, None),\n' % (name, name))
    e.append('  _ => ("Other", 0, None) } }\n')
    e.append("#[allow(unreachable_patterns)]\npub fn loader_err_name(e: &dr::Error) -> &'static str { match e {\n")
    for name, kindch, fields in variants_of("rspirv/dr/loader.rs", "Error"):
        pat = "(..)" if kindch == "(" else (" { .. }" if kindch == "{" else "")
        e.append('  dr::Error::%s%s => "%s",\n' % (name, pat, name))
    e.append('  _ => "Other" } }\n')
    open(os.path.join(GEN, "errors.rs"), "w").write("".join(e))

    import gen_builder
    gen_builder.generate(REPO, GEN, OUT, masks, enums, die)


if __name__ == "__main__":
    sys.path.insert(0, HERE)
    main()
