def generate(REPO, GEN, OUT, masks, enums, die):
    import os
    open(os.path.join(GEN, "builder.rs"), "w").write("// placeholder\n")
