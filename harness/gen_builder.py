"""Generates harness/src/gen/builder.rs: one call per public Builder method of /repo's CURRENT
sources (C06, C12, C13, C16).  Only the signatures are read from the source text; what a method
does is observed at run time.  A signature shape the generator cannot handle is a tool error
naming the method -- never a silent skip.

Also (with --pin) writes spec/BuilderMethods.json, the pinned table method -> opcode name / kind
taken from the pinned tree's doc comments ("Appends an OpX instruction ...") and, for the
hand-written methods, from the list below; at run time the table is an oracle: a method body
that emits another opcode or files it elsewhere disagrees with it."""
import json, os, re, sys

FILES = ["mod.rs", "autogen_type.rs", "autogen_constant.rs", "autogen_annotation.rs", "autogen_terminator.rs",
         "autogen_debug.rs", "autogen_norm_insts.rs"]

# hand-written methods of mod.rs: name -> (opcode name or None, kind)
HAND = {
    "capability": ("Capability", "global"), "extension": ("Extension", "global"), "ext_inst_import": ("ExtInstImport", "global"),
    "memory_model": ("MemoryModel", "global"), "entry_point": ("EntryPoint", "global"), "execution_mode": ("ExecutionMode", "global"),
    "execution_mode_id": ("ExecutionModeId", "global"), "ext_inst": ("ExtInst", "block"), "line": ("Line", "line"), "no_line": ("NoLine", "line"),
    "decoration_group": ("DecorationGroup", "global"), "string": ("String", "global"),
    "type_forward_pointer": ("TypeForwardPointer", "global"), "type_pointer": ("TypePointer", "type_id"), "type_opaque": ("TypeOpaque", "global"),
    "constant_bit32": ("Constant", "const"), "constant_bit64": ("Constant", "const"),
    "spec_constant_bit32": ("SpecConstant", "const"), "spec_constant_bit64": ("SpecConstant", "const"),
    "variable": ("Variable", "var_undef"), "undef": ("Undef", "var_undef"),
    "begin_function": ("Function", "begin_function"), "end_function": ("FunctionEnd", "end_function"),
    "function_parameter": ("FunctionParameter", "param"), "begin_block": ("Label", "begin_block"),
    "begin_block_no_label": (None, "begin_block_no_label"),
    # non-emitting
    "new": (None, "meta"), "new_from_module": (None, "meta"), "insert_into_block": (None, "meta"), "insert_types_global_values": (None, "meta"),
    "pop_instruction": (None, "pop"), "set_version": (None, "meta"), "version": (None, "meta"), "module": (None, "meta"), "module_ref": (None, "meta"),
    "module_mut": (None, "meta"), "selected_function": (None, "meta"), "selected_block": (None, "meta"), "id": (None, "id"),
    "dedup_insert_type": (None, "meta"), "find_return_block_indices": (None, "meta"), "select_function_by_name": (None, "meta"),
    "select_function": (None, "select_function"), "select_block": (None, "select_block"),
}
KIND_BY_FILE = {"autogen_type.rs": "type", "autogen_constant.rs": "const", "autogen_annotation.rs": "global",
                "autogen_debug.rs": "global", "autogen_terminator.rs": "term", "autogen_norm_insts.rs": "block"}


def split_params(params):
    out, depth, cur = [], 0, ""
    for ch in params:
        if ch in "<([":
            depth += 1
        elif ch in ">)]":
            depth -= 1
        if ch == "," and depth == 0:
            out.append(cur)
            cur = ""
        else:
            cur += ch
    if cur.strip():
        out.append(cur)
    return [" ".join(p.split()) for p in out if p.strip()]


def parse_methods(REPO):
    methods = []
    for f in FILES:
        src = open(os.path.join(REPO, "rspirv", "dr", "build", f)).read()
        src_nt = src.split("#[cfg(test)]")[0]
        for m in re.finditer(r'((?:\s*#\[doc = "[^"]*"\]\s*)*)\s*pub fn (\w+)\s*(?:<[^>]*>)?\(\s*(.*?)\)\s*(->\s*[^{]+)?\{', src_nt, re.S):
            doc, name, params, ret = m.group(1), m.group(2), m.group(3), (m.group(4) or "")
            ps = []
            for p in split_params(params):
                if p in ("&mut self", "&self", "self", "mut self"):
                    continue
                n, t = p.split(":", 1)
                ps.append((n.strip(), " ".join(t.split())))
            ret = " ".join(ret.replace("->", "").split())
            dm = re.search(r"(?:Appends|Insert)s? an? Op(\w+) instruction", doc or "")
            doc_op = dm.group(1) if dm else None
            if doc_op is None and f != "mod.rs":
                # the doc comment may have been reworded: the opcode the body passes to Instruction::new
                nxt = src_nt.find("pub fn ", m.end())
                bm = re.search(r"spirv::Op::(\w+)", src_nt[m.end(): nxt if nxt > 0 else len(src_nt)])
                doc_op = bm.group(1) if bm else None
            methods.append({"name": name, "params": ps, "ret": ret, "file": f, "doc_op": doc_op})
    return methods


def method_table(methods):
    tab = {}
    for m in methods:
        n = m["name"]
        if m["file"] == "mod.rs":
            if n not in HAND:
                # a public method the pinned tree did not have: no listed property speaks about it; it is not driven
                tab[n] = {"op": "", "kind": "meta", "unpinned": True}
                continue
            tab[n] = {"op": HAND[n][0] or "", "kind": HAND[n][1]}
        else:
            kind = KIND_BY_FILE[m["file"]]
            if n.startswith("insert_") and kind in ("term", "block"):
                kind = "insert_" + kind
            if kind == "type" and n.endswith("_id"):
                kind = "type_id"
            if m["doc_op"] is None:
                tab[n] = {"op": "", "kind": "meta", "unpinned": True}   # a helper next to the generated methods: not driven
                continue
            tab[n] = {"op": m["doc_op"], "kind": kind}
    return tab


def generate(REPO, GEN, OUT, masks, enums, die, pin=False):
    methods = parse_methods(REPO)
    live_tab = method_table(methods)
    json.dump({"methods": live_tab, "count": len(methods)}, open(os.path.join(OUT, "live_builder_methods.json"), "w"), indent=0, sort_keys=True)
    if pin:
        here = os.path.dirname(os.path.abspath(__file__))
        json.dump(live_tab, open(os.path.join(here, "..", "spec", "BuilderMethods.json"), "w"), indent=0, sort_keys=True)

    def conv(kind, expr):
        if kind in masks:
            return "(match spirv::%s::from_bits(%s) { Some(v) => v, None => return CallOut::Unmakeable })" % (kind, expr)
        if kind in enums:
            return "(match spirv::%s::from_u32(%s) { Some(v) => v, None => return CallOut::Unmakeable })" % (kind, expr)
        die("builder parameter of unknown spirv type %s" % kind)

    lines = ["// GENERATED by gen_builder.py from /repo's current Builder sources. Do not edit.\n",
             "use rspirv::dr::{self, Builder, InsertPoint};\n", "use crate::bdrive::*;\n",
             "pub const N_PUB_FN: usize = %d;\n" % len(methods)]
    callable_names = []
    arms = []
    for m in methods:
        n, ps, ret = m["name"], m["params"], m["ret"]
        kind = live_tab[n]["kind"]
        if kind == "meta":
            continue
        callable_names.append(n)
        binds, args = [], []
        special = None
        # hand-written one-offs with argument constraints the types do not express
        if n in ("execution_mode", "execution_mode_id"):
            special = ('let p0 = a.word(); let (mode, lits) = a.exec_mode(%s); a.flat_words(&lits);\n        out_unit({ b.%s(p0, %s, lits); })'
                       % ("true" if n == "execution_mode_id" else "false", n, conv("ExecutionMode", "mode")))
        elif n in ("spec_constant_op",):
            special = 'let p0 = a.rt(); a.flat_w(1); out_id(b.spec_constant_op(p0, spirv::Op::Undef))'
        elif n == "select_function":
            special = 'let i = a.index(); out_res_unit(b.select_function(i))'
        elif n == "select_block":
            special = 'let i = a.index(); out_res_unit(b.select_block(i))'
        elif n == "pop_instruction":
            special = 'out_res_inst(b.pop_instruction())'
        elif n == "id":
            special = 'out_id(b.id())'
        elif n == "begin_function":
            special = ('let p0 = a.rt(); let p1 = a.result_id(); let c = a.enum_plain("FunctionControl"); let p3 = a.word();\n'
                       '        out_res_id(b.begin_function(p0, p1, %s, p3))' % conv("FunctionControl", "c"))
        if special:
            arms.append('    "%s" => { %s }\n' % (n, special))
            continue
        for i, (pn, pt) in enumerate(ps):
            v = "p%d" % i
            nxt = ps[i + 1] if i + 1 < len(ps) else None
            followed = nxt is not None and nxt[1] == "impl IntoIterator<Item = dr::Operand>" and nxt[0] == "additional_params"
            if pn == "result_type" and pt == "spirv::Word":
                binds.append("let %s = a.rt();" % v)
            elif pn in ("result_id", "function_id", "label_id") and pt == "Option<spirv::Word>":
                binds.append("let %s = a.result_id();" % v)
            elif pt == "InsertPoint":
                binds.append("let %s = a.insert_point();" % v)
            elif pt == "spirv::Word":
                binds.append("let %s = a.word();" % v)
            elif pt == "Option<spirv::Word>":
                binds.append("let %s = a.opt_word();" % v)
            elif pt == "u32":
                binds.append("let %s = a.lit32();" % v)
            elif pt == "u64":
                binds.append("let %s = a.lit64();" % v)
            elif pt == "u8":
                binds.append("let %s = a.lit8();" % v)
            elif pt == "impl Into<String>":
                binds.append("let %s = a.string();" % v)
            elif pt == "Option<impl Into<String>>":
                binds.append("let %s = a.opt_string();" % v)
            elif pt == "impl IntoIterator<Item = spirv::Word>" or pt == "impl AsRef<[spirv::Word]>":
                binds.append("let %s = a.words();" % v)
            elif pt == "impl IntoIterator<Item = u32>" or pt == "impl AsRef<[u32]>":
                binds.append("let %s = a.lits();" % v)
            elif pt == "impl IntoIterator<Item = (spirv::Word, spirv::Word)>":
                binds.append("let %s = a.pairs_ww();" % v)
            elif pt == "impl IntoIterator<Item = (spirv::Word, u32)>":
                binds.append("let %s = a.pairs_wl();" % v)
            elif pt == "impl IntoIterator<Item = (dr::Operand, spirv::Word)>":
                binds.append("let %s = a.pairs_ow();" % v)
            elif pt == "impl IntoIterator<Item = dr::Operand>":
                if pn == "additional_params":
                    binds.append("let %s = a.extra_params();" % v)
                else:
                    binds.append("let %s = a.id_operands();" % v)
            elif pt.startswith("Option<spirv::"):
                k = pt[len("Option<spirv::"):-1]
                binds.append('let %s = match a.opt_enum("%s", %s) { Some(x) => Some(%s), None => None };' % (v, k, "true" if followed else "false", conv(k, "x")))
            elif pt.startswith("spirv::"):
                k = pt[len("spirv::"):]
                binds.append('let %s = { let x = a.%s("%s"); %s };' % (v, "enum_any" if followed else "enum_plain", k, conv(k, "x")))
            else:
                die("Builder method %s: unhandled parameter type `%s` (parameter %s)" % (n, pt, pn))
            args.append(v)
        call = "b.%s(%s)" % (n, ", ".join(args))
        if ret == "BuildResult<spirv::Word>":
            wrap = "out_res_id(%s)" % call
        elif ret == "BuildResult<()>":
            wrap = "out_res_unit(%s)" % call
        elif ret == "spirv::Word":
            wrap = "out_id(%s)" % call
        elif ret == "":
            wrap = "out_unit({ %s; })" % call
        else:
            die("Builder method %s: unhandled return type `%s`" % (n, ret))
        arms.append('    "%s" => { %s\n        %s }\n' % (n, " ".join(binds), wrap))
    lines.append("pub const METHODS: &[&str] = &[%s];\n" % ", ".join('"%s"' % n for n in callable_names))
    lines.append("#[allow(unused_variables, unused_mut, clippy::all)]\n")
    lines.append("pub fn call_method(b: &mut Builder, name: &str, a: &mut Args) -> CallOut { match name {\n")
    lines.extend(arms)
    lines.append('    other => panic!("vh: no generated call for Builder method {}", other),\n} }\n')
    open(os.path.join(GEN, "builder.rs"), "w").write("".join(lines))


if __name__ == "__main__":
    # stand-alone use: python3 gen_builder.py --pin   (needs gen.py's parse of the spirv crate)
    sys.path.insert(0, os.path.dirname(os.path.abspath(__file__)))
    import gen
    masks, enums, order, consts = gen.parse_spirv()
    os.makedirs(gen.GEN, exist_ok=True); os.makedirs(gen.OUT, exist_ok=True)
    generate(gen.REPO, gen.GEN, gen.OUT, masks, enums, gen.die, pin="--pin" in sys.argv)
    print("ok")
