//! Builder driver (C06, C12, C13, C16): argument supply for the generated calls, event logging,
//! the "every method once" sweep, model-generated and random call histories.
use crate::gen::builder::{call_method, METHODS, N_PUB_FN};
use crate::ggen::*;
use crate::loader::load_err_name;
use crate::proj::*;
use crate::util::*;
use rspirv::binary::Assemble;
use rspirv::dr::{self, Builder, InsertPoint};
use serde_json::{json, Value};
use std::io::BufRead;

pub enum CallOut {
    Unit,
    Id(u32),
    ResUnit(Result<(), dr::Error>),
    ResId(Result<u32, dr::Error>),
    ResInst(Result<dr::Instruction, dr::Error>),
    /// an argument value of the pinned grammar that this tree's enum / mask type cannot represent: the call was not made
    Unmakeable,
}
pub fn out_unit(_: ()) -> CallOut { CallOut::Unit }
pub fn out_id(i: u32) -> CallOut { CallOut::Id(i) }
pub fn out_res_unit(r: Result<(), dr::Error>) -> CallOut { CallOut::ResUnit(r) }
pub fn out_res_id(r: Result<u32, dr::Error>) -> CallOut { CallOut::ResId(r) }
pub fn out_res_inst(r: Result<dr::Instruction, dr::Error>) -> CallOut { CallOut::ResInst(r) }

fn err_variant(e: &dr::Error) -> String { crate::gen::errors::loader_err_name(e).to_string() }
impl CallOut {
    pub fn to_json(&self) -> Value {
        match self {
            CallOut::Unmakeable => json!(["Unmakeable"]),
            CallOut::Unit => json!(["Ok"]),
            CallOut::Id(i) => json!(["Ok", jw(*i)]),
            CallOut::ResUnit(Ok(())) => json!(["Ok"]),
            CallOut::ResId(Ok(i)) => json!(["Ok", jw(*i)]),
            CallOut::ResInst(Ok(i)) => json!(["Ok", j_inst(i)]),
            CallOut::ResUnit(Err(e)) | CallOut::ResId(Err(e)) | CallOut::ResInst(Err(e)) => json!(["Err", err_variant(e)]),
        }
    }
}

/// Supplies pairwise distinct, grammar-conforming argument values and records them in call order.
pub struct Args<'g> {
    pub g: &'g Gram,
    pub rng: Rng,
    pub counter: u32,
    pub flat: Vec<Value>,
    pub rt: Option<u32>,
    pub explicit_rid: Option<u32>,   // what result_id parameters receive
    pub rid_used: bool,
    pub ip: Value,                   // how InsertPoint parameters are chosen: ["End"] ...
    pub index: Option<usize>,
    pub forced_rt: Option<u32>,          // result type to use (a declared 64-bit type for *_bit64)
    pub forced_lits: Vec<u32>,           // values the next lit32() calls return
    pub forced_words: Option<Vec<u32>>,  // what the next words() call returns (variadic id lists)
    pub forced_ids: Vec<u32>,            // values the next word() calls return
    pub ow_64: bool,                     // (operand, id) pairs carry 64-bit literals
    last_enum: Option<(String, u32)>,
    omitted: bool,   // an optional argument was omitted: "optional ones only as a trailing run"
    pub full: bool,  // list arguments never empty and optional arguments always present (the every-method suite)
}
impl<'g> Args<'g> {
    pub fn new(g: &'g Gram, seed: u64) -> Args<'g> {
        Args { g, rng: Rng::new(seed), counter: 5000, flat: vec![], rt: None, explicit_rid: None, rid_used: false,
               ip: json!(["End"]), index: None, forced_rt: None, forced_lits: vec![], forced_words: None, forced_ids: vec![], ow_64: false, last_enum: None, omitted: false, full: false }
    }
    pub fn reset(&mut self) {
        self.flat.clear(); self.rt = None; self.rid_used = false; self.last_enum = None; self.omitted = false;
    }
    fn fresh(&mut self) -> u32 { self.counter += 1; self.counter }
    pub fn flat_w(&mut self, w: u32) { self.flat.push(json!({"w": jw(w)})); }
    pub fn flat_words(&mut self, ws: &[u32]) { for w in ws { self.flat_w(*w); } }
    pub fn word(&mut self) -> u32 { let v = if self.forced_ids.is_empty() { self.fresh() } else { self.forced_ids.remove(0) }; self.flat_w(v); v }
    fn omit(&mut self) -> bool { if self.omitted || (!self.full && self.rng.chance(1, 5)) { self.omitted = true; } self.omitted }
    pub fn opt_word(&mut self) -> Option<u32> { if !self.omit() { Some(self.word()) } else { None } }
    pub fn rt(&mut self) -> u32 { let v = match self.forced_rt.take() { Some(t) => t, None => self.fresh() }; self.rt = Some(v); v }
    pub fn result_id(&mut self) -> Option<u32> { self.rid_used = true; self.explicit_rid }
    pub fn lit32(&mut self) -> u32 {
        let v = if self.forced_lits.is_empty() { self.fresh() + 100_000 } else { self.forced_lits.remove(0) };
        self.flat_w(v);
        v
    }
    pub fn lit8(&mut self) -> u8 { 1 }
    pub fn lit64(&mut self) -> u64 {
        let lo = self.fresh() + 200_000; let hi = self.fresh() + 300_000;
        self.flat_w(lo); self.flat_w(hi);
        ((hi as u64) << 32) | lo as u64
    }
    pub fn string(&mut self) -> String {
        let mut s = format!("s{}{}", self.fresh(), self.rng.pick(&["", "x", "\u{e9}", "quo\"te", "gr\u{f6}\u{df}e_\u{fc}bergabe_pr\u{fc}fen", "\u{65e5}\u{672c}\u{8a9e}\u{65e5}\u{672c}\u{8a9e}", "\u{e9}\u{e9}"]));
        // now and then a string whose length sits at a power of two or a word boundary far from the short ones
        if !self.full && self.rng.chance(1, 40) { let n = *self.rng.pick(LONG_LENGTHS); if n > s.len() { s = format!("{}{}", s, long_string(n - s.len())); } }
        self.flat.push(json!({"s": jbytes(s.as_bytes())}));
        s
    }
    pub fn opt_string(&mut self) -> Option<String> { if !self.omit() { Some(self.string()) } else { None } }
    /// length of a list argument: seldom empty (an empty list hides what the method does with its elements)
    fn count(&mut self, n: usize) -> usize {
        if self.omitted { 0 } else if !self.full && self.rng.chance(1, 8) { 0 }
        // now and then a list far longer than the short ones (a length at a power of two and its neighbours)
        else if !self.full && self.rng.chance(1, 60) { *self.rng.pick(&[8usize, 9, 15, 16, 17, 31, 32, 33, 63, 64, 65, 255, 256, 257]) }
        else { 1 + self.rng.below(n - 1) }
    }
    pub fn words(&mut self) -> Vec<u32> {
        if let Some(ws) = self.forced_words.take() { for w in &ws { self.flat_w(*w); } return ws; }
        (0..self.count(4)).map(|_| self.word()).collect()
    }
    pub fn lits(&mut self) -> Vec<u32> { (0..self.count(4)).map(|_| self.lit32()).collect() }
    pub fn pairs_ww(&mut self) -> Vec<(u32, u32)> { (0..self.count(3)).map(|_| (self.word(), self.word())).collect() }
    pub fn pairs_wl(&mut self) -> Vec<(u32, u32)> { (0..self.count(3)).map(|_| (self.word(), self.lit32())).collect() }
    pub fn pairs_ow(&mut self) -> Vec<(dr::Operand, u32)> {
        let n = if self.ow_64 { 1 + self.rng.below(3) } else { self.count(3) };
        (0..n).map(|_| if self.ow_64 { (dr::Operand::LiteralBit64(self.lit64()), self.word()) } else { (dr::Operand::LiteralBit32(self.lit32()), self.word()) }).collect()
    }
    pub fn id_operands(&mut self) -> Vec<dr::Operand> { (0..self.count(4)).map(|_| dr::Operand::IdRef(self.word())).collect() }
    pub fn insert_point(&mut self) -> InsertPoint {
        match self.ip[0].as_str().unwrap() {
            "Begin" => InsertPoint::Begin,
            "FromBegin" => InsertPoint::FromBegin(self.ip[1].as_u64().unwrap() as usize),
            "FromEnd" => InsertPoint::FromEnd(self.ip[1].as_u64().unwrap() as usize),
            _ => InsertPoint::End,
        }
    }
    pub fn index(&mut self) -> Option<usize> { self.index }
    fn gen(&self) -> Gen<'g> { Gen { g: self.g } }
    /// a value of `kind` whose grammar entry requires no parameters
    pub fn enum_plain(&mut self, kind: &str) -> u32 {
        let v = match &self.g.kinds[kind] {
            KindG::ValueEnum { values } => {
                let plain: Vec<u32> = values.iter().filter(|v| v.1.is_empty()).map(|v| v.0).collect();
                *self.rng.pick(&plain)
            }
            KindG::BitEnum { bits, .. } => {
                let mut v = 0;
                for b in bits { if b.1.is_empty() && self.rng.chance(1, 3) { v |= b.0; } }
                v
            }
            KindG::Other => panic!("vh: {} is not an enum kind", kind),
        };
        self.flat_w(v);
        self.last_enum = None;
        v
    }
    /// any value of `kind`; its parameters are supplied by the following extra_params()
    pub fn enum_any(&mut self, kind: &str) -> u32 {
        // mostly a value that HAS parameters (the additional_params argument must then be carried over)
        let with_params: Vec<u32> = match &self.g.kinds[kind] {
            KindG::ValueEnum { values } => values.iter().filter(|v| !v.1.is_empty()).map(|v| v.0).collect(),
            KindG::BitEnum { bits, .. } => bits.iter().filter(|b| !b.1.is_empty()).map(|b| b.0).collect(),
            KindG::Other => vec![],
        };
        let v = if !with_params.is_empty() && self.rng.chance(3, 4) { *self.rng.pick(&with_params) } else { self.gen().enum_value(kind, &mut self.rng) };
        self.flat_w(v);
        self.last_enum = Some((kind.to_string(), v));
        v
    }
    pub fn opt_enum(&mut self, kind: &str, followed: bool) -> Option<u32> {
        if self.omit() { self.last_enum = None; return None; }
        Some(if followed { self.enum_any(kind) } else { self.enum_plain(kind) })
    }
    /// the parameters the grammar requires after the last enum_any value
    pub fn extra_params(&mut self) -> Vec<dr::Operand> {
        let mut sops = vec![];
        if let Some((k, v)) = self.last_enum.take() {
            let gen = self.gen();
            let mut ctx = Ctx::new();
            for p in gen.params_of(&k, v) {
                gen.operand(&p, &mut self.rng, &mut ctx, None, 1, 1, &mut sops);
            }
        }
        let mut out = vec![];
        for s in &sops {
            match &s.s { Some(b) => self.flat.push(json!({"s": jbytes(b)})), None => for w in &s.w { self.flat_w(*w); } }
            out.push(un_operand(&s.to_json()).expect("vh: parameter operand"));
        }
        out
    }
    /// execution mode + literal parameters: a mode whose parameters are all literals (ids = false) or all ids (ids = true)
    pub fn exec_mode(&mut self, ids: bool) -> (u32, Vec<u32>) {
        let want = if ids { "IdRef" } else { "LiteralInteger" };
        let cands: Vec<(u32, usize)> = match &self.g.kinds["ExecutionMode"] {
            KindG::ValueEnum { values } => values.iter().filter(|v| v.1.iter().all(|p| p == want) && (!ids || !v.1.is_empty())).map(|v| (v.0, v.1.len())).collect(),
            _ => vec![],
        };
        let (m, n) = *self.rng.pick(&cands);
        self.flat_w(m);
        let lits: Vec<u32> = (0..n).map(|_| self.fresh() + 400_000).collect();
        (m, lits)
    }
}

fn j_sel(o: Option<usize>) -> Value { match o { Some(i) => json!([i]), None => json!([]) } }

pub struct Session<'g> {
    pub b: Builder,
    pub a: Args<'g>,
}

/// one logged call of a generated / hand-written method
thread_local! { pub static UNMAKEABLE: std::cell::Cell<u64> = std::cell::Cell::new(0); }
/// the id a call returned, when it returned one
fn res_id(ev: &Value) -> Option<u32> { if ev["res"][0] == "Ok" && ev["res"][1].is_array() && ev["res"][1].as_array().map(|a| a.len() == 2 && a[0].is_u64()).unwrap_or(false) { Some(unw(&ev["res"][1])) } else { None } }
pub fn logged_call(s: &mut Session, out: &mut Out, name: &str, with_module: bool) -> Value {
    if name.ends_with("_bit64") {
        // "arguments conforming to the instruction's grammar": a 64-bit literal needs a 64-bit type
        s.a.forced_lits = vec![64, 0];
        let saved = (s.a.explicit_rid, s.a.ip.clone());
        s.a.explicit_rid = None;
        let ev = logged_call(s, out, "type_int", with_module);
        s.a.explicit_rid = saved.0; s.a.ip = saved.1;
        s.a.forced_rt = res_id(&ev);
    }
    s.a.reset();
    let b = &mut s.b;
    let a = &mut s.a;
    let r = catch(|| call_method(b, name, a));
    if let Ok(CallOut::Unmakeable) = &r {
        // not a call of the Builder: nothing happened, nothing is recorded (the enum types are C08's subject)
        UNMAKEABLE.with(|c| c.set(c.get() + 1));
        return json!({"ev": "bcall", "m": name, "res": ["Unmakeable"]});
    }
    let res = match &r { Ok(o) => o.to_json(), Err(p) => jpanic(p) };
    let post = catch(|| (s.b.selected_function(), s.b.selected_block()));
    let (sf, sb) = post.unwrap_or((None, None));
    let ev = json!({"ev": "bcall", "m": name, "rt": jopt_w(s.a.rt), "rid_explicit": if s.a.rid_used { jopt_w(s.a.explicit_rid) } else { json!([]) },
        "rid_param": s.a.rid_used, "ip": s.a.ip, "idx": match s.a.index { Some(i) => json!([i]), None => json!([]) },
        "flat": s.a.flat, "res": res, "selF": j_sel(sf), "selB": j_sel(sb),
        "module": if with_module { json!([j_module(s.b.module_ref())]) } else { json!([]) }});
    out.ev(ev.clone());
    ev
}

fn finish_event(s: Session, out: &mut Out, version: Option<(u8, u8)>) {
    let mut b = s.b;
    // "with the version set on the builder": the LAST one set (an earlier, different one is set first)
    if let Some((ma, mi)) = version { b.set_version(ma.wrapping_add(1), mi.wrapping_add(2)); b.set_version(ma, mi); }
    let r = catch(move || {
        let m = b.module();
        let ws = m.assemble();
        let l = dr::load_words(&ws);
        // the other entry point of the loader on the same binary
        let lb = dr::load_bytes(crate::parser::words_to_bytes(&ws));
        (m, ws, l, lb)
    });
    match r {
        Err(p) => out.ev(json!({"ev": "bfinish", "st": "panic", "panic": jpanic(&p), "module": [], "words": [], "loaded": [], "loaded_b": [], "load_err": ""})),
        Ok((m, ws, l, lb)) => {
            let (loaded, le) = match l { Ok(m2) => (json!([j_module(&m2)]), String::new()), Err(e) => (json!([]), load_err_name(&e)) };
            let loaded_b = match lb { Ok(m2) => json!([j_module(&m2)]), Err(_) => json!([]) };
            out.ev(json!({"ev": "bfinish", "st": "ok", "version": version.map(|v| json!([v.0, v.1])).unwrap_or(json!([])),
                          "module": [j_module(&m)], "words": jws(&ws), "loaded": loaded, "loaded_b": loaded_b, "load_err": le}));
        }
    }
}

fn new_session<'g>(g: &'g Gram, out: &mut Out, how: &str, seed: u64) -> Session<'g> {
    let b = match how {
        "default" => Builder::default(),
        "from_module" | "from_module0" | "from_module1" => {
            let mut m = dr::Module::new();
            m.header = Some(dr::ModuleHeader::new(match how { "from_module0" => 0, "from_module1" => 1, _ => 41 }));
            Builder::new_from_module(m)
        }
        _ => Builder::new(),
    };
    out.ev(json!({"ev": "bnew", "how": how, "bound": match how { "from_module" => 41, "from_module0" => 0, _ => 1 }}));
    Session { b, a: Args::new(g, seed) }
}

/// C06 / C16: every emitting method once, in the context its kind needs, then complete the
/// module, assemble, load, compare.
/// the callable methods the pinned table (spec/BuilderMethods.json) knows: a method added to the tree later is not
/// spoken about by any listed property and is not driven
fn pinned(table: &Value) -> Vec<&'static str> { METHODS.iter().cloned().filter(|m| table.get(*m).is_some()).collect() }

fn suite_methods(g: &Gram, out: &mut Out, seed: u64, table: &Value) {
    for (k, name) in pinned(table).iter().enumerate() {
        let kind = table[*name]["kind"].as_str().unwrap_or("?").to_string();
        if matches!(kind.as_str(), "select_function" | "select_block" | "pop" | "id" | "end_function" | "begin_block" | "begin_block_no_label" | "begin_function" | "param") {
            continue; // structural calls are exercised by the histories
        }
        let mut s = new_session(g, out, "new", seed.wrapping_add(k as u64));
        s.a.full = true;   // every argument present, every list non-empty: each parameter of each method is seen at least once
        let in_block = matches!(kind.as_str(), "block" | "insert_block" | "term" | "insert_term") || *name == "ext_inst";
        if in_block || (kind == "var_undef" && k % 2 == 0) || (kind == "line" && k % 2 == 0) {
            logged_call(&mut s, out, "begin_function", true);
            logged_call(&mut s, out, "begin_block", true);
        }
        if kind.starts_with("insert_") {
            // give the block one instruction so that Begin / End / offsets differ
            logged_call(&mut s, out, "nop", true);
            s.a.ip = match k % 4 { 0 => json!(["End"]), 1 => json!(["Begin"]), 2 => json!(["FromBegin", 1]), _ => json!(["FromEnd", 1]) };
        }
        let ev = logged_call(&mut s, out, name, true);
        s.a.ip = json!(["End"]);
        let _ = ev;
        // complete the history
        if s.b.selected_block().is_some() { logged_call(&mut s, out, "ret", true); }
        if s.b.selected_function().is_some() { logged_call(&mut s, out, "end_function", true); }
        finish_event(s, out, Some((1, (k % 7) as u8)));
    }
}

/// Terminators in combination with the selection: (A) a block that already ends in a terminator is selected again and the
/// IDENTICAL terminator is emitted once more; (B) the selected block is not the function's last block.  "A terminator
/// closes the block" - every time, and the instruction goes into the SELECTED block.
fn suite_term_again(g: &Gram, out: &mut Out, seed: u64, table: &Value) {
    for (k, name) in pinned(table).iter().enumerate() {
        let kind = table[*name]["kind"].as_str().unwrap_or("?").to_string();
        if kind != "term" && kind != "insert_term" { continue; }
        for scenario in 0..3 {
            let mut s = new_session(g, out, "new", seed.wrapping_add(k as u64));
            s.a.full = true;
            logged_call(&mut s, out, "begin_function", true);
            logged_call(&mut s, out, "begin_block", true);
            if scenario == 2 {
                // a block that already ends in this terminator is selected again and ordinary instructions are inserted
                // in front of the terminator: they do not end the block (only terminator opcodes do)
                logged_call(&mut s, out, "nop", true);
                s.a.ip = json!(["End"]);
                logged_call(&mut s, out, name, true);
                s.a.index = Some(0); logged_call(&mut s, out, "select_block", true); s.a.index = None;
                for ip in [json!(["Begin"]), json!(["FromBegin", 1]), json!(["FromEnd", 1])] {
                    s.a.ip = ip;
                    logged_call(&mut s, out, if k % 2 == 0 { "insert_nop" } else { "insert_i_add" }, true);
                }
                s.a.ip = json!(["End"]);
                s.a.index = None; logged_call(&mut s, out, "select_block", true);
                if s.b.selected_function().is_some() { logged_call(&mut s, out, "end_function", true); }
                finish_event(s, out, None);
                continue;
            }
            if scenario == 0 {
                logged_call(&mut s, out, "nop", true);
                for round in 0..2 {
                    s.a.rng = Rng::new(seed + 99 + k as u64); s.a.counter = 6000;      // the same arguments both times
                    s.a.ip = json!(["End"]);
                    logged_call(&mut s, out, name, true);
                    if round == 0 { s.a.index = Some(0); logged_call(&mut s, out, "select_block", true); s.a.index = None; }
                }
            } else {
                logged_call(&mut s, out, "ret", true);
                logged_call(&mut s, out, "begin_block", true);
                logged_call(&mut s, out, "nop", true);
                logged_call(&mut s, out, "ret", true);
                s.a.index = Some(0); logged_call(&mut s, out, "select_block", true); s.a.index = None;
                s.a.ip = json!(["End"]);
                logged_call(&mut s, out, name, true);
            }
            if s.b.selected_block().is_some() { logged_call(&mut s, out, "ret", true); }
            if s.b.selected_function().is_some() { logged_call(&mut s, out, "end_function", true); }
            finish_event(s, out, None);
        }
    }
}

/// C06: multi-step histories whose round trip depends on the parser's type tracker: an OpSwitch over a
/// 64-bit selector that is a function parameter / undef / constant / arithmetic result
fn suite_switch64(g: &Gram, out: &mut Out, seed: u64) {
    for (k, how) in ["function_parameter", "undef", "constant_null", "i_add", "constant_bit64"].iter().enumerate() {
        let mut s = new_session(g, out, "new", seed + k as u64);
        s.a.forced_lits = vec![64, (k % 2) as u32];
        // (a call that fails or panics on the tree under test is recorded as such; the scenario then ends early)
        let Some(t) = res_id(&logged_call(&mut s, out, "type_int", true)) else { finish_event(s, out, None); continue };
        let mut sel = Some(0);
        if *how == "constant_null" || *how == "constant_bit64" {
            s.a.forced_rt = Some(t);
            if *how == "constant_bit64" { s.a.forced_rt = None; }
            let ev = if *how == "constant_bit64" { logged_call(&mut s, out, "constant_bit64", true) } else { logged_call(&mut s, out, how, true) };
            sel = res_id(&ev);
        }
        logged_call(&mut s, out, "begin_function", true);
        if *how == "function_parameter" { s.a.forced_rt = Some(t); sel = res_id(&logged_call(&mut s, out, how, true)); }
        logged_call(&mut s, out, "begin_block", true);
        if *how == "undef" || *how == "i_add" { s.a.forced_rt = Some(t); sel = res_id(&logged_call(&mut s, out, how, true)); }
        let Some(sel) = sel else { finish_event(s, out, None); continue };
        s.a.forced_ids = vec![sel];
        s.a.ow_64 = true;
        logged_call(&mut s, out, "switch", true);
        s.a.ow_64 = false;
        logged_call(&mut s, out, "end_function", true);
        finish_event(s, out, Some((1, 5)));
    }
}

/// abstract call of MC_Builder -> concrete method
fn concrete_of(abs: &str, rng: &mut Rng, terms: &[&str], blocks: &[&str], globals: &[&str]) -> String {
    match abs {
        "BeginFunction" => "begin_function".into(), "EndFunction" => "end_function".into(), "Param" => "function_parameter".into(),
        "BeginBlock" => "begin_block".into(), "BeginBlockNoLabel" => "begin_block_no_label".into(),
        "Term" => rng.pick(terms).to_string(), "BlockInst" => rng.pick(blocks).to_string(),
        "InsertBlockInst" => format!("insert_{}", rng.pick(blocks)),
        "VarOrUndef" => rng.pick(&["variable", "undef"]).to_string(), "Line" => rng.pick(&["line", "no_line"]).to_string(),
        "Global" => rng.pick(globals).to_string(), "Const" => rng.pick(&["constant_bit32", "constant_true", "constant_null", "constant_composite"]).to_string(),
        "SelectFunction" => "select_function".into(), "SelectBlock" => "select_block".into(), "Pop" => "pop_instruction".into(), "Id" => "id".into(),
        other => other.to_string(), // TypeA / TypeB ... handled by the caller
    }
}

fn run_history(g: &Gram, out: &mut Out, h: &Value, seed: u64, table: &Value) {
    let terms: Vec<&str> = pinned(table).into_iter().filter(|m| table[*m]["kind"] == "term").collect();
    let blocks: Vec<&str> = vec!["nop", "i_add", "load", "store", "f_mul", "bitcast", "phi", "function_call", "copy_object", "access_chain", "selection_merge", "control_barrier"];
    let globals: Vec<&str> = vec!["capability", "extension", "ext_inst_import", "memory_model", "entry_point", "execution_mode", "source", "name", "member_name",
        "module_processed", "decorate", "member_decorate", "string", "decoration_group", "source_extension", "type_forward_pointer"];
    let how = h.get("how").and_then(|x| x.as_str()).unwrap_or("new");
    let mut s = new_session(g, out, how, seed);
    let mut rng = Rng::new(seed ^ 0x5555);
    for c in h["calls"].as_array().unwrap() {
        let abs = c[0].as_str().unwrap();
        // arguments of the abstract call
        s.a.explicit_rid = None;
        s.a.index = None;
        s.a.ip = json!(["End"]);
        let name = match abs {
            "TypeA" | "TypeB" | "TypeC" => {
                // three distinct type keys; ["TypeA", "implicit" | "explicit"]
                if c[1] == "explicit" {
                    let id = s.b.id();
                    out.ev(json!({"ev": "bcall", "m": "id", "rt": [], "rid_explicit": [], "rid_param": false, "ip": ["End"], "idx": [], "flat": [], "res": ["Ok", jw(id)],
                                  "selF": j_sel(s.b.selected_function()), "selB": j_sel(s.b.selected_block()), "module": [j_module(s.b.module_ref())]}));
                    s.a.explicit_rid = Some(id);
                    match abs { "TypeA" => "type_void_id", "TypeB" => "type_bool_id", _ => "type_sampler_id" }.to_string()
                } else {
                    match abs { "TypeA" => "type_void", "TypeB" => "type_bool", _ => "type_sampler" }.to_string()
                }
            }
            "SelectFunction" | "SelectBlock" => { s.a.index = c[1].as_i64().and_then(|i| if i < 0 { None } else { Some(i as usize) }); concrete_of(abs, &mut rng, &terms, &blocks, &globals) }
            "InsertBlockInst" => { s.a.ip = c[1].clone(); concrete_of(abs, &mut rng, &terms, &blocks, &globals) }
            _ => concrete_of(abs, &mut rng, &terms, &blocks, &globals),
        };
        logged_call(&mut s, out, &name, true);
    }
    finish_event(s, out, None);
}

fn random_history(g: &Gram, out: &mut Out, seed: u64, table: &Value, len: usize) {
    let mut rng = Rng::new(seed);
    let how = *rng.pick(&["new", "new", "new", "default", "from_module"]);
    let mut s = new_session(g, out, how, seed);
    let emitting: Vec<&str> = pinned(table);
    for _ in 0..len {
        s.a.explicit_rid = None; s.a.index = None; s.a.ip = json!(["End"]);
        let name: String = match rng.below(16) {
            0 => "begin_function".into(), 1 => "end_function".into(), 2 | 3 => "begin_block".into(),
            4 => rng.pick(&["ret", "ret_value", "branch", "kill", "unreachable", "branch_conditional", "switch"]).to_string(),
            5 => { s.a.index = match rng.below(5) { 0 => None, k => Some(k - 1) }; "select_function".into() }
            6 => { s.a.index = match rng.below(5) { 0 => None, k => Some(k - 1) }; "select_block".into() }
            7 => "pop_instruction".into(), 8 => "id".into(), 9 => "function_parameter".into(),
            10 => rng.pick(&["line", "no_line", "variable", "undef"]).to_string(),
            _ => rng.pick(&emitting).to_string(),
        };
        let kind = table[name.as_str()]["kind"].as_str().unwrap_or("");
        if kind == "begin_block_no_label" && rng.chance(2, 3) { continue; }
        if rng.chance(1, 6) {
            // an explicit result id taken from the builder
            let id = s.b.id();
            out.ev(json!({"ev": "bcall", "m": "id", "rt": [], "rid_explicit": [], "rid_param": false, "ip": ["End"], "idx": [], "flat": [], "res": ["Ok", jw(id)],
                          "selF": j_sel(s.b.selected_function()), "selB": j_sel(s.b.selected_block()), "module": [j_module(s.b.module_ref())]}));
            s.a.explicit_rid = Some(id);
        }
        if kind.starts_with("insert_") {
            // a valid insertion offset within the selected block (C12: "insertion offsets within the selected block")
            let n = match (s.b.selected_function(), s.b.selected_block()) {
                (Some(f), Some(bk)) => s.b.module_ref().functions.get(f).and_then(|f| f.blocks.get(bk)).map(|b| b.instructions.len()).unwrap_or(0),
                _ => 0,
            };
            s.a.ip = match rng.below(4) { 0 => json!(["End"]), 1 => json!(["Begin"]), 2 => json!(["FromBegin", rng.below(n + 1)]), _ => json!(["FromEnd", rng.below(n + 1)]) };
        }
        logged_call(&mut s, out, &name, true);
    }
    // complete the history so that C06 applies, unless it used begin_block_no_label
    if s.b.selected_block().is_some() { logged_call(&mut s, out, "ret", true); }
    if s.b.selected_function().is_some() { logged_call(&mut s, out, "end_function", true); }
    finish_event(s, out, Some((1, 4)));
}

/// C13: id discipline under failing calls, and type de-duplication over every type method
fn suite_ids(g: &Gram, out: &mut Out, seed: u64, table: &Value) {
    let mut k = 0u64;
    for name in pinned(table).iter() {
        let kind = table[*name]["kind"].as_str().unwrap_or("");
        k += 1;
        if kind == "type" || kind == "type_id" {
            // same request twice (must be deduplicated when implicit), then a different one, then an id
            let mut s = new_session(g, out, if k % 3 == 0 { "from_module" } else { "new" }, seed + k);
            for round in 0..3 {
                let (c, r) = (s.a.counter, Rng::new(seed + k + if round == 2 { 77 } else { 0 }));
                s.a.rng = r;
                if round < 2 { s.a.counter = 5000; } else { s.a.counter = c; }
                s.a.explicit_rid = None;
                if kind == "type_id" && round == 1 && k % 2 == 0 {
                    let id = s.b.id();
                    out.ev(json!({"ev": "bcall", "m": "id", "rt": [], "rid_explicit": [], "rid_param": false, "ip": ["End"], "idx": [], "flat": [], "res": ["Ok", jw(id)],
                                  "selF": j_sel(s.b.selected_function()), "selB": j_sel(s.b.selected_block()), "module": [j_module(s.b.module_ref())]}));
                    s.a.explicit_rid = Some(id);
                }
                logged_call(&mut s, out, name, true);
            }
            if kind == "type_id" {
                // the SAME explicit id with the same operands twice: "a request with an explicit id always appends a
                // declaration carrying that id" - also when an identical declaration with that very id exists already
                let id = s.b.id();
                out.ev(json!({"ev": "bcall", "m": "id", "rt": [], "rid_explicit": [], "rid_param": false, "ip": ["End"], "idx": [], "flat": [], "res": ["Ok", jw(id)],
                              "selF": j_sel(s.b.selected_function()), "selB": j_sel(s.b.selected_block()), "module": [j_module(s.b.module_ref())]}));
                for _ in 0..2 {
                    s.a.rng = Rng::new(seed + k + 1234);
                    s.a.counter = 7000;
                    s.a.explicit_rid = Some(id);
                    logged_call(&mut s, out, name, true);
                }
            }
            s.a.explicit_rid = None;
            logged_call(&mut s, out, "id", true);
            finish_event(s, out, None);
        } else if matches!(kind, "block" | "insert_block" | "term" | "insert_term") {
            // fail first (no block selected), with and without an explicit result id; ids handed out afterwards must still be fresh
            for explicit in [false, true] {
                let mut s = new_session(g, out, "new", seed + k);
                logged_call(&mut s, out, "id", true);
                if explicit {
                    let id = s.b.id();
                    out.ev(json!({"ev": "bcall", "m": "id", "rt": [], "rid_explicit": [], "rid_param": false, "ip": ["End"], "idx": [], "flat": [], "res": ["Ok", jw(id)],
                                  "selF": j_sel(s.b.selected_function()), "selB": j_sel(s.b.selected_block()), "module": [j_module(s.b.module_ref())]}));
                    s.a.explicit_rid = Some(id);
                }
                logged_call(&mut s, out, name, true);
                s.a.explicit_rid = None;
                logged_call(&mut s, out, "id", true);
                if explicit && k % 3 == 1 {
                    // every id reserved up front (function, label, result - the result id last), the call fails outside a
                    // block, then the same ids are used for real and nothing else is allocated: the bound must be above them
                    finish_event(s, out, None);
                    let mut s = new_session(g, out, "new", seed + k);
                    let mut ids = vec![];
                    for _ in 0..3 {
                        let id = s.b.id();
                        out.ev(json!({"ev": "bcall", "m": "id", "rt": [], "rid_explicit": [], "rid_param": false, "ip": ["End"], "idx": [], "flat": [], "res": ["Ok", jw(id)],
                                      "selF": j_sel(s.b.selected_function()), "selB": j_sel(s.b.selected_block()), "module": [j_module(s.b.module_ref())]}));
                        ids.push(id);
                    }
                    s.a.explicit_rid = Some(ids[2]);
                    logged_call(&mut s, out, name, true);
                    s.a.explicit_rid = Some(ids[0]);
                    logged_call(&mut s, out, "begin_function", true);
                    s.a.explicit_rid = Some(ids[1]);
                    logged_call(&mut s, out, "begin_block", true);
                    s.a.explicit_rid = Some(ids[2]);
                    logged_call(&mut s, out, name, true);
                    s.a.explicit_rid = None;
                    if s.b.selected_block().is_some() { logged_call(&mut s, out, "ret", true); }
                    logged_call(&mut s, out, "end_function", true);
                    finish_event(s, out, None);
                    continue;
                }
                if explicit && k % 3 != 0 { finish_event(s, out, None); continue; }
                logged_call(&mut s, out, "begin_function", true);
                logged_call(&mut s, out, "begin_block", true);
                logged_call(&mut s, out, name, true);
                logged_call(&mut s, out, "id", true);
                if s.b.selected_block().is_some() { logged_call(&mut s, out, "ret", true); }
                logged_call(&mut s, out, "end_function", true);
                finish_event(s, out, None);
            }
        }
    }
    suite_prefix_types(g, out, seed);
    // "starting at the header bound when continuing an existing module": the smallest bounds
    for how in ["from_module0", "from_module1"] {
        let mut s = new_session(g, out, how, seed);
        for _ in 0..3 { logged_call(&mut s, out, "id", true); }
        logged_call(&mut s, out, "type_void", true);
        logged_call(&mut s, out, "id", true);
        finish_event(s, out, None);
    }
    // an explicit id the builder never handed out (at or above its counter), then the same request implicitly: the
    // earlier declaration is an earlier declaration whatever its id
    for (m_id, m_impl) in [("type_int_id", "type_int"), ("type_vector_id", "type_vector"), ("type_bool_id", "type_bool")] {
        for explicit in [1u32, 9, 5000] {
            let mut s = new_session(g, out, "new", seed);
            s.a.rng = Rng::new(seed + 4711); s.a.counter = 7000; s.a.explicit_rid = Some(explicit);
            logged_call(&mut s, out, m_id, true);
            s.a.rng = Rng::new(seed + 4711); s.a.counter = 7000; s.a.explicit_rid = None;
            logged_call(&mut s, out, m_impl, true);
            logged_call(&mut s, out, "id", true);
            finish_event(s, out, None);
        }
    }
}

/// variable-arity type requests whose operand lists are prefixes / extensions of one another (C13: never share an id;
/// C12: no call panics; C06: the declarations carry the call's arguments)
fn suite_prefix_types(g: &Gram, out: &mut Out, seed: u64) {
    for (method, fixed) in [("type_struct", 0usize), ("type_function", 1)] {
        let mut s = new_session(g, out, "new", seed);
        let lists: Vec<Vec<u32>> = vec![vec![11, 12], vec![11], vec![11, 12], vec![11, 12, 13], vec![], vec![12, 11], vec![11], vec![]];
        for l in lists {
            s.a.counter = 5000; // the fixed (non-variadic) arguments stay the same
            let _ = fixed;
            s.a.forced_words = Some(l);
            logged_call(&mut s, out, method, true);
        }
        logged_call(&mut s, out, "id", true);
        finish_event(s, out, None);
    }
}

pub fn drive(args: &[String]) {
    let g = Gram::load(arg(args, "--grammar").expect("--grammar"));
    let table: Value = serde_json::from_reader(std::fs::File::open(arg(args, "--methods").expect("--methods")).unwrap()).unwrap();
    let mut out = Out::create(arg(args, "--out").expect("--out"));
    let seed = arg_num(args, "--seed", 1);
    let mut histories = 0;
    match arg(args, "--suite").unwrap_or("methods") {
        "methods" => { suite_methods(&g, &mut out, seed, &table); suite_switch64(&g, &mut out, seed); suite_prefix_types(&g, &mut out, seed); suite_term_again(&g, &mut out, seed, &table); }
        "ids" => { suite_ids(&g, &mut out, seed, &table); }
        "histories" => {
            let f = std::io::BufReader::new(std::fs::File::open(arg(args, "--histories").expect("--histories")).unwrap());
            for (k, line) in f.lines().enumerate() {
                let line = line.unwrap();
                if line.trim().is_empty() { continue; }
                let v: Value = serde_json::from_str(&line).unwrap();
                run_history(&g, &mut out, &v, seed.wrapping_add(k as u64), &table);
                histories += 1;
            }
        }
        "random" => {
            let n = arg_num(args, "--n", 100);
            let len = arg_num(args, "--len", 40) as usize;
            for k in 0..n { random_history(&g, &mut out, seed.wrapping_mul(1000).wrapping_add(k), &table, len); histories += 1; }
        }
        other => panic!("vh: unknown builder suite {}", other),
    }
    let events = out.finish();
    println!("{}", json!({"events": events, "histories": histories, "methods": METHODS.len(), "pub_fn": N_PUB_FN, "calls_not_made_unrepresentable_argument": UNMAKEABLE.with(|c| c.get())}));
}
