//! Builder behaviours beyond the listed properties (specification growth): select_function_by_name,
//! find_return_block_indices, insert_types_global_values, dedup_insert_type, version / set_version.
use crate::proj::*;
use crate::util::*;
use rspirv::dr::{self, Builder, InsertPoint};
use serde_json::{json, Value};

fn sel(o: Option<usize>) -> Value { match o { Some(i) => json!([i]), None => json!([]) } }

pub fn drive(args: &[String]) {
    let mut out = Out::create(arg(args, "--out").expect("--out"));
    let mut rng = Rng::new(arg_num(args, "--seed", 1));
    let n = arg_num(args, "--n", 200);
    for _ in 0..n {
        let mut b = Builder::new();
        let void = b.type_void();
        let fty = b.type_function(void, vec![]);
        // functions, some named (names may repeat, may point at non-functions)
        let nf = rng.below(4);
        let names = ["main", "helper", "f", "main"];
        let mut fids = vec![];
        for k in 0..nf {
            let f = b.begin_function(void, None, spirv::FunctionControl::NONE, fty).unwrap();
            fids.push(f);
            let nb = 1 + rng.below(3);
            for _ in 0..nb {
                b.begin_block(None).unwrap();
                for _ in 0..rng.below(2) { b.nop().unwrap(); }
                match rng.below(4) { 0 => b.ret().unwrap(), 1 => b.ret_value(void).unwrap(), 2 => b.kill().unwrap(), _ => b.unreachable().unwrap() }
            }
            b.end_function().unwrap();
            if rng.chance(2, 3) { b.name(f, names[(k + rng.below(2)) % names.len()]); }
        }
        if rng.chance(1, 2) { b.name(void, "main"); }                 // a name on something that is not a function
        if rng.chance(1, 3) { b.member_name(void, 0, "helper"); }     // OpMemberName is not OpName
        // select_function_by_name
        for q in ["main", "helper", "f", "nosuch", ""] {
            if rng.chance(1, 3) && nf > 0 { let _ = b.select_function(Some(rng.below(nf))); let nb = b.module_ref().functions[b.selected_function().unwrap()].blocks.len(); if rng.chance(1, 2) { let _ = b.select_block(Some(rng.below(nb))); } }
            let pre = (b.selected_function(), b.selected_block());
            let r = catch(|| b.select_function_by_name(q));
            let res = match &r { Ok(Ok(())) => json!(["Ok"]), Ok(Err(_)) => json!(["Err"]), Err(p) => jpanic(p) };
            out.ev(json!({"ev": "bx", "what": "select_by_name", "name": jbytes(q.as_bytes()), "pre": [sel(pre.0), sel(pre.1)], "res": res,
                          "post": [sel(b.selected_function()), sel(b.selected_block())], "module": [j_module(b.module_ref())]}));
            // find_return_block_indices on whatever is selected now
            let r = catch(|| b.find_return_block_indices());
            out.ev(json!({"ev": "bx", "what": "return_blocks", "selF": sel(b.selected_function()), "res": match &r { Ok(v) => json!(["Ok", v]), Err(p) => jpanic(p) },
                          "module": [j_module(b.module_ref())]}));
            let _ = b.select_function(None);
        }
        // insert_types_global_values at every kind of insert point; dedup_insert_type; version
        let len = b.module_ref().types_global_values.len();
        for ip in [json!(["Begin"]), json!(["End"]), json!(["FromBegin", rng.below(len + 1)]), json!(["FromEnd", rng.below(len + 1)])] {
            let before = j_insts(b.module_ref().types_global_values.iter());
            let tag = 7000 + rng.below(1000) as u32;
            let inst = dr::Instruction::new(spirv::Op::Undef, Some(void), Some(tag), vec![]);
            let p = match ip[0].as_str().unwrap() { "Begin" => InsertPoint::Begin, "End" => InsertPoint::End, "FromBegin" => InsertPoint::FromBegin(ip[1].as_u64().unwrap() as usize), _ => InsertPoint::FromEnd(ip[1].as_u64().unwrap() as usize) };
            let r = catch(|| b.insert_types_global_values(p, inst.clone()));
            out.ev(json!({"ev": "bx", "what": "insert_global", "ip": ip, "inst": j_inst(&inst), "before": before, "st": if r.is_ok() { "ok" } else { "panic" },
                          "after": j_insts(b.module_ref().types_global_values.iter())}));
        }
        for probe in [dr::Instruction::new(spirv::Op::TypeVoid, None, None, vec![]), dr::Instruction::new(spirv::Op::TypeBool, None, None, vec![]),
                      dr::Instruction::new(spirv::Op::TypeFunction, None, None, vec![dr::Operand::IdRef(void)]),
                      dr::Instruction::new(spirv::Op::TypeFunction, None, None, vec![dr::Operand::IdRef(void), dr::Operand::IdRef(void)])] {
            let r = catch(|| b.dedup_insert_type(&probe));
            out.ev(json!({"ev": "bx", "what": "dedup", "probe": j_inst(&probe), "types": j_insts(b.module_ref().types_global_values.iter()),
                          "res": match &r { Ok(Some(i)) => json!(["Ok", jw(*i)]), Ok(None) => json!(["Ok"]), Err(p) => jpanic(p) }}));
        }
        let v0 = b.version();
        let (ma, mi) = (1 + rng.below(2) as u8, rng.below(7) as u8);
        b.set_version(ma, mi);
        let v1 = b.version();
        out.ev(json!({"ev": "bx", "what": "version", "before": v0.map(|v| json!([v.0, v.1])).unwrap_or(json!([])), "set": [ma, mi], "after": v1.map(|v| json!([v.0, v.1])).unwrap_or(json!([]))}));
    }
    let events = out.finish();
    println!("{}", json!({"events": events}));
}
