//! rspirv-dis driver (C20): run the command-line disassembler built from the current tree on a
//! corpus of files and record exit status, stdout, stderr; next to each, the library's own
//! result on the same bytes (computed in-process).
use crate::ggen::*;
use crate::loader::random_loadable;
use crate::parser::{mutate, random_module, words_to_bytes, HEADER};
use crate::util::*;
use rspirv::binary::Disassemble;
use serde_json::{json, Value};
use std::os::unix::process::ExitStatusExt;
use std::process::Command;

fn lib_result(bytes: &[u8]) -> Value {
    match catch(|| rspirv::dr::load_bytes(bytes).map(|m| m.disassemble()).map_err(|e| format!("{}", e))) {
        Ok(Ok(t)) => json!({"st": "ok", "text": t, "one_line": true}),
        Ok(Err(t)) => json!({"st": "err", "one_line": !t.contains('\n'), "text": t}),
        Err(p) => json!({"st": "panic", "text": p.0, "one_line": true}),
    }
}

/// Runs a command with stdout / stderr redirected to files and a deadline ("the command-line disassembler terminates").
/// Returns None when the deadline passed (the child is killed).
fn run_with_deadline(cmd: &mut Command, tag: &str, secs: u64) -> std::io::Result<Option<(std::process::ExitStatus, Vec<u8>, Vec<u8>)>> {
    let (po, pe) = (format!("{}.out", tag), format!("{}.err", tag));
    let mut child = cmd.stdout(std::fs::File::create(&po)?).stderr(std::fs::File::create(&pe)?).spawn()?;
    let t0 = std::time::Instant::now();
    let status = loop {
        if let Some(st) = child.try_wait()? { break Some(st); }
        if t0.elapsed().as_secs() >= secs { let _ = child.kill(); let _ = child.wait(); break None; }
        std::thread::sleep(std::time::Duration::from_millis(if t0.elapsed().as_millis() < 50 { 1 } else { 20 }));
    };
    let (o, e) = (std::fs::read(&po).unwrap_or_default(), std::fs::read(&pe).unwrap_or_default());
    let _ = std::fs::remove_file(&po); let _ = std::fs::remove_file(&pe);
    Ok(status.map(|st| (st, o, e)))
}

/// `vh lib-result <file>`: the library's own result on the file, as JSON (run as a child so that a hang of the library
/// is observed as a timeout instead of hanging the harness)
pub fn lib_result_cmd(args: &[String]) {
    let bytes = std::fs::read(&args[0]).expect("read");
    println!("{}", lib_result(&bytes));
}

const DEADLINE_S: u64 = 20;

fn run_one(bin: &str, dir: &str, k: usize, bytes: &[u8], tag: &str) -> Value {
    let path = format!("{}/f{}.spv", dir, k);
    std::fs::write(&path, bytes).expect("write corpus file");
    let o = run_with_deadline(Command::new(bin).arg(&path), &format!("{}/f{}.dis", dir, k), DEADLINE_S);
    let me = std::env::current_exe().expect("current_exe");
    let lib = match run_with_deadline(Command::new(me).arg("lib-result").arg(&path), &format!("{}/f{}.lib", dir, k), DEADLINE_S) {
        Ok(Some((st, out, _))) if st.success() => serde_json::from_slice::<Value>(&out).unwrap_or(json!({"st": "garbled", "text": "", "one_line": true})),
        Ok(Some(_)) => json!({"st": "crashed", "text": "", "one_line": true}),
        Ok(None) => json!({"st": "timeout", "text": "", "one_line": true}),
        Err(e) => json!({"st": "spawn-failed", "text": e.to_string(), "one_line": true}),
    };
    let _ = std::fs::remove_file(&path);
    let head = json!({"ev": "run", "tag": tag, "len": bytes.len(), "bytes": if bytes.len() <= 400 { jbytes(bytes) } else { json!([]) }, "lib": lib});
    let mut ev = match o {
        Err(e) => json!({"st": "spawn-failed", "err": e.to_string()}),
        Ok(None) => json!({"st": "timeout", "status": [], "signal": [], "stdout": "", "stdout_utf8": true, "stderr_panicked": false, "stderr_head": format!("no exit within {} s", DEADLINE_S)}),
        Ok(Some((status, stdout, stderr))) => {
            let stderr = String::from_utf8_lossy(&stderr).to_string();
            json!({"st": "ran",
                   "status": status.code().map(|c| json!([c])).unwrap_or(json!([])), "signal": status.signal().map(|s| json!([s])).unwrap_or(json!([])),
                   "stdout": String::from_utf8_lossy(&stdout), "stdout_utf8": std::str::from_utf8(&stdout).is_ok(),
                   "stderr_panicked": stderr.contains("panicked"), "stderr_head": stderr.chars().take(200).collect::<String>()})
        }
    };
    for (k, v) in head.as_object().unwrap() { ev[k] = v.clone(); }
    ev
}

pub fn drive(args: &[String]) {
    let g = Gram::load(arg(args, "--grammar").expect("--grammar"));
    let bin = arg(args, "--bin").expect("--bin").to_string();
    let dir = arg(args, "--dir").expect("--dir").to_string();
    std::fs::create_dir_all(&dir).unwrap();
    let n = arg_num(args, "--n", 300) as usize;
    let mut rng = Rng::new(arg_num(args, "--seed", 1));
    // corpus
    let mut corpus: Vec<(Vec<u8>, &'static str)> = vec![(vec![], "empty")];
    let enc = |insts: &[SInst]| -> Vec<u8> { let mut ws: Vec<u32> = HEADER.to_vec(); for i in insts { ws.extend(i.encode()); } words_to_bytes(&ws) };
    // every prefix of one valid module
    let (base, _) = random_loadable(&g, &mut rng, false, 2);
    let bb = enc(&base);
    for cut in 0..=bb.len().min(600) { corpus.push((bb[..cut].to_vec(), "prefix")); }
    // OpConstant of undeclared / non-numeric type (loadable)
    corpus.push((enc(&[SInst { op: 43, rt: Some(9), rid: Some(1), ops: vec![SOp::one("LiteralBit32", 5)] }]), "const-undeclared"));
    corpus.push((enc(&[SInst { op: 20, rt: None, rid: Some(9), ops: vec![] }, SInst { op: 43, rt: Some(9), rid: Some(1), ops: vec![SOp::one("LiteralBit32", 5)] }]), "const-bool"));
    // 64-bit literals (OpConstant / OpSpecConstant of 64-bit int and float types, OpSwitch on a 64-bit selector): the module
    // and every byte prefix of it (a file that ends inside a two-word literal)
    {
        let one = |k: &str, w: u32| SOp::one(k, w);
        let l64 = |lo: u32, hi: u32| SOp { k: "LiteralBit64".into(), w: vec![lo, hi], s: None };
        let wide = vec![
            SInst { op: 21, rt: None, rid: Some(1), ops: vec![one("LiteralBit32", 64), one("LiteralBit32", 0)] },
            SInst { op: 22, rt: None, rid: Some(2), ops: vec![one("LiteralBit32", 64)] },
            SInst { op: 43, rt: Some(1), rid: Some(3), ops: vec![l64(0x1234_5678, 0x9abc_def0)] },
            SInst { op: 43, rt: Some(2), rid: Some(4), ops: vec![l64(0, 0x3ff0_0000)] },
            SInst { op: 50, rt: Some(1), rid: Some(5), ops: vec![l64(0xffff_ffff, 0xffff_ffff)] },
            SInst { op: 19, rt: None, rid: Some(6), ops: vec![] },
            SInst { op: 33, rt: None, rid: Some(7), ops: vec![one("IdRef", 6)] },
            SInst { op: 54, rt: Some(6), rid: Some(8), ops: vec![one("FunctionControl", 0), one("IdRef", 7)] },
            SInst { op: 248, rt: None, rid: Some(9), ops: vec![] },
            SInst { op: 251, rt: None, rid: None, ops: vec![one("IdRef", 3), one("IdRef", 9), l64(1, 0), one("IdRef", 9), l64(0, 0x8000_0000), one("IdRef", 9)] },
            SInst { op: 56, rt: None, rid: None, ops: vec![] }];
        let wb = enc(&wide);
        for cut in 20..=wb.len() { corpus.push((wb[..cut].to_vec(), "wide-prefix")); }
        // extended instructions of the known and of unknown sets, boundary numbers included (0, last, last + 1, far)
        let st = |s: &str| SOp { k: "LiteralString".into(), w: vec![], s: Some(s.as_bytes().to_vec()) };
        let mut ext = vec![
            SInst { op: 11, rt: None, rid: Some(1), ops: vec![st("GLSL.std.450")] }, SInst { op: 11, rt: None, rid: Some(2), ops: vec![st("OpenCL.std")] },
            SInst { op: 11, rt: None, rid: Some(3), ops: vec![st("NonSemantic.DebugPrintf")] },
            SInst { op: 19, rt: None, rid: Some(6), ops: vec![] }, SInst { op: 33, rt: None, rid: Some(7), ops: vec![one("IdRef", 6)] },
            SInst { op: 54, rt: Some(6), rid: Some(8), ops: vec![one("FunctionControl", 0), one("IdRef", 7)] }, SInst { op: 248, rt: None, rid: Some(9), ops: vec![] }];
        let mut rid = 100;
        for set in [1u32, 2, 3, 77] {
            for nn in [0u32, 1, 2, 80, 81, 82, 83, 184, 185, 186, 187, 203, 204, 205, 5000, 0x7fff_ffff, 0x8000_0000, u32::MAX] {
                ext.push(SInst { op: 12, rt: Some(6), rid: Some(rid), ops: vec![one("IdRef", set), one("LiteralExtInstInteger", nn), one("IdRef", 60)] });
                rid += 1;
            }
        }
        ext.push(SInst { op: 253, rt: None, rid: None, ops: vec![] });
        ext.push(SInst { op: 56, rt: None, rid: None, ops: vec![] });
        corpus.push((enc(&ext), "extinst"));
        // one file per number too, so that one crash does not hide the others
        for k in 0..72 { let mut one_ext = ext[..7].to_vec(); one_ext.push(ext[7 + k].clone()); one_ext.extend(ext[ext.len() - 2..].iter().cloned()); corpus.push((enc(&one_ext), "extinst")); }
    }
    // strings that are not UTF-8, with and without line feeds / carriage returns in front of the offending byte (the loading
    // error must stay a one-line message whatever the string holds)
    {
        let strs: Vec<&[u8]> = vec![b"a\nb\xffc", b"\n\xff", b"\xff\nabc", b"line1\r\nline2\xc3", b"ok\nfine", b"\xf0\x9f\n", b"abc\n\n\n\xfe\xff", b"\x80"];
        for bs in strs {
            for op in [7u32, 5, 10, 11, 4] {
                let mut ops = vec![];
                if op == 5 { ops.push(SOp::one("IdRef", 3)); }
                ops.push(SOp { k: "LiteralString".into(), w: vec![], s: Some(bs.to_vec()) });
                let inst = SInst { op, rt: None, rid: if op == 7 || op == 11 { Some(1) } else { None }, ops };
                corpus.push((enc(&[inst]), "bad-strings"));
            }
        }
    }
    // instructions with two strings in a row, every byte prefix of the file, each also followed by 1-3 zero bytes (a NUL
    // inside a trailing partial word is not a string terminator the decoder may rely on)
    {
        let st = |s: &str| SOp { k: "LiteralString".into(), w: vec![], s: Some(s.as_bytes().to_vec()) };
        let two = vec![
            SInst { op: 71, rt: None, rid: None, ops: vec![SOp::one("IdRef", 1), SOp::one("Decoration", 5834), st("abcd"), st("efgh")] },
            SInst { op: 7, rt: None, rid: Some(2), ops: vec![st("xyz")] },
            SInst { op: 5, rt: None, rid: None, ops: vec![SOp::one("IdRef", 2), st("name")] }];
        let tb = enc(&two);
        for cut in 20..=tb.len() {
            corpus.push((tb[..cut].to_vec(), "string-prefix"));
            for z in 1..=3usize { let mut b = tb[..cut].to_vec(); b.extend(std::iter::repeat(0u8).take(z)); corpus.push((b, "string-prefix")); }
        }
    }
    // a constant that stands BEFORE the declaration of its type (one-word literal, whatever the type turns out to be)
    for (w, sg) in [(64u32, 1u32), (64, 0), (32, 1), (16, 1), (8, 1), (128, 1)] {
        corpus.push((enc(&[SInst { op: 43, rt: Some(1), rid: Some(2), ops: vec![SOp::one("LiteralBit32", 0xffff_fff9)] },
                           SInst { op: 21, rt: None, rid: Some(1), ops: vec![SOp::one("LiteralBit32", w), SOp::one("LiteralBit32", sg)] }]), "late-type"));
    }
    for w in [64u32, 32, 16] {
        corpus.push((enc(&[SInst { op: 43, rt: Some(1), rid: Some(2), ops: vec![SOp::one("LiteralBit32", 0x3fc0_0000)] },
                           SInst { op: 22, rt: None, rid: Some(1), ops: vec![SOp::one("LiteralBit32", w)] }]), "late-type"));
    }
    // ids that are their own result type / cyclic type chains, then literals and switches typed by them
    {
        let one = |k: &str, w: u32| SOp::one(k, w);
        for (a, b) in [(1u32, 1u32), (1, 2)] {
            let cyc = vec![
                SInst { op: 1, rt: Some(b), rid: Some(a), ops: vec![] }, SInst { op: 1, rt: Some(a), rid: Some(b), ops: vec![] },
                SInst { op: 43, rt: Some(a), rid: Some(3), ops: vec![one("LiteralBit32", 7)] },
                SInst { op: 19, rt: None, rid: Some(6), ops: vec![] }, SInst { op: 33, rt: None, rid: Some(7), ops: vec![one("IdRef", 6)] },
                SInst { op: 54, rt: Some(6), rid: Some(8), ops: vec![one("FunctionControl", 0), one("IdRef", 7)] }, SInst { op: 248, rt: None, rid: Some(9), ops: vec![] },
                SInst { op: 251, rt: None, rid: None, ops: vec![one("IdRef", b), one("IdRef", 9), one("LiteralBit32", 1), one("IdRef", 9)] },
                SInst { op: 56, rt: None, rid: None, ops: vec![] }];
            corpus.push((enc(&cyc), "cyclic-types"));
            corpus.push((enc(&cyc[..3]), "cyclic-types"));
        }
    }
    // instructions that lost their last word(s) (the word count says so): the numeric type declarations the parser's
    // tracker reads -- followed by a constant and a switch typed by them -- always, every other opcode sampled
    {
        let gen = Gen { g: &g };
        crate::ggen::NO_CTX.with(|c| c.set(true));
        let short = |i: &SInst, drop: usize| -> Vec<u32> { let mut w = i.encode(); let keep = w.len().saturating_sub(drop).max(1); w.truncate(keep); w[0] = ((keep as u32) << 16) | i.op; w };
        for (op, full) in [(21u32, vec![1u32, 64, 0]), (21, vec![1, 32, 1]), (22, vec![1, 64]), (22, vec![1, 16])] {
            for drop in 0..=full.len() {
                let decl = SInst { op, rt: None, rid: Some(full[0]), ops: full[1..].iter().map(|w| SOp::one("LiteralBit32", *w)).collect() };
                let mut ws: Vec<u32> = HEADER.to_vec();
                ws.extend(short(&decl, drop));
                ws.extend([(4 << 16) | 43, 1, 2, 7, (3 << 16) | 1, 1, 3, (5 << 16) | 251, 3, 9, 1, 9]);
                corpus.push((words_to_bytes(&ws), "short-inst"));
            }
        }
        let ops: Vec<u32> = g.insts.keys().cloned().collect();
        for (j, op) in ops.iter().enumerate() {
            if j % 8 != n % 8 { continue; }
            let mut ctx = Ctx::new();
            let inst = gen.inst(*op, &mut rng, &mut ctx, &Plan::random());
            for drop in [1usize, 2] {
                let mut ws: Vec<u32> = HEADER.to_vec();
                ws.extend(short(&inst, drop));
                corpus.push((words_to_bytes(&ws), "short-inst"));
            }
        }
        crate::ggen::NO_CTX.with(|c| c.set(false));
    }
    // OpSpecConstantOp embedding every opcode number with 0..5 operand words (sampled)
    let mut opnums: Vec<u32> = g.insts.keys().cloned().collect();
    opnums.extend([9u32, 65535, 0x0001_003d]);
    for (j, op) in opnums.iter().enumerate() {
        if j % 16 != (n % 16) && !matches!(*op, 43 | 50 | 52 | 251) { continue; }
        for extra in [0usize, 2, 4, 5] {
            let mut ws: Vec<u32> = HEADER.to_vec();
            let mut body = vec![1u32, 2, *op];
            for x in 0..extra { body.push(3 + x as u32); }
            ws.push((((body.len() + 1) as u32) << 16) | 52);
            ws.extend(body);
            corpus.push((words_to_bytes(&ws), "specop"));
        }
    }
    // every sequence of up to 4 structural instructions (function / end / label / terminator / block instruction / parameter)
    {
        let reps: Vec<SInst> = vec![
            SInst { op: 54, rt: Some(1), rid: Some(2), ops: vec![SOp::one("FunctionControl", 0), SOp::one("IdRef", 3)] },
            SInst { op: 56, rt: None, rid: None, ops: vec![] }, SInst { op: 248, rt: None, rid: Some(4), ops: vec![] },
            SInst { op: 253, rt: None, rid: None, ops: vec![] }, SInst { op: 0, rt: None, rid: None, ops: vec![] },
            SInst { op: 55, rt: Some(1), rid: Some(5), ops: vec![] },
            SInst { op: 317, rt: None, rid: None, ops: vec![] }];      // OpNoLine: legal anywhere, filed by position
        let nn = reps.len();
        for len in 1..=4usize {
            for code in 0..nn.pow(len as u32) {
                let mut c = code; let mut seq = vec![];
                for _ in 0..len { seq.push(reps[c % nn].clone()); c /= nn; }
                corpus.push((enc(&seq), "structure"));
            }
        }
    }
    for k in 0..n {
        let (insts, _) = random_loadable(&g, &mut rng, k % 2 == 0, 3);
        corpus.push((enc(&insts), "loadable"));
        let (ws, starts) = random_module(&g, &mut rng, 6);
        let (mw, tail, _) = mutate(&ws, &starts, &mut rng);
        let mut b = words_to_bytes(&mw); b.extend(tail);
        corpus.push((b, "mutant"));
        let len = rng.below(80);
        let mut r: Vec<u8> = (0..len).map(|_| rng.next() as u8).collect();
        if rng.chance(1, 2) && r.len() >= 4 { r[..4].copy_from_slice(&0x0723_0203u32.to_le_bytes()); }
        corpus.push((r, "random-bytes"));
    }
    // run in parallel
    let threads = 16;
    let chunks: Vec<Vec<(usize, &(Vec<u8>, &'static str))>> = (0..threads).map(|t| corpus.iter().enumerate().filter(|(i, _)| i % threads == t).collect()).collect();
    let results: Vec<Vec<(usize, Value)>> = std::thread::scope(|sc| {
        let hs: Vec<_> = chunks.iter().map(|ch| { let bin = bin.clone(); let dir = dir.clone(); sc.spawn(move || ch.iter().map(|(i, (b, tag))| (*i, run_one(&bin, &dir, *i, b, tag))).collect::<Vec<_>>()) }).collect();
        hs.into_iter().map(|h| h.join().unwrap()).collect()
    });
    let mut all: Vec<(usize, Value)> = results.into_iter().flatten().collect();
    all.sort_by_key(|x| x.0);
    let mut out = Out::create(arg(args, "--out").expect("--out"));
    for (_, v) in all { out.ev(v); }
    let events = out.finish();
    println!("{}", json!({"events": events}));
}
