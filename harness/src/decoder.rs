//! Decoder driver (C11, C04): executes request histories on a real `Decoder` and logs
//! one event per public call with its result and the observable post-state.
use crate::gen::decode::{decode_typed, TYPED_KINDS};
use crate::util::*;
use rspirv::binary::{DecodeError, Decoder};
use serde_json::{json, Value};
use std::io::BufRead;

/// DecodeError -> ["Err", kind, offset, (word, enum kind)] by variant (generated match: never through Debug / Display text).
pub fn j_decode_err(e: &DecodeError) -> Value {
    let (name, off, word) = crate::gen::errors::decode_err_parts(e);
    match word {
        Some(w) if name.ends_with("Unknown") => json!(["Err", "Unknown", jn(off), jw(w), name.strip_suffix("Unknown").unwrap_or(name)]),
        _ => json!(["Err", name, jn(off)]),
    }
}

fn limit_of(v: &Value) -> usize {
    match v.as_i64().unwrap() {
        -3 => usize::MAX,
        -4 => usize::MAX / 4,
        -5 => usize::MAX / 4 + 1,
        -6 => usize::MAX / 2,
        -7 => (isize::MAX as usize) / 4 + 1,
        n => n as usize,
    }
}

pub fn run_history(out: &mut Out, bytes: &[u8], calls: &[Value]) {
    out.ev(json!({"ev": "new", "bytes": jbytes(bytes)}));
    let mut d = Decoder::new(bytes);
    for call in calls {
        let name = call[0].as_str().unwrap();
        let res: Result<Value, (String, String)> = catch(|| match name {
            "word" => d.word().map(jw),
            "id" => d.id().map(jw),
            "bit32" => d.bit32().map(jw),
            "ext_inst_integer" => d.ext_inst_integer().map(jw),
            "words" => d.words(limit_of(&call[1])).map(|ws| jws(&ws)),
            "bit64" => d.bit64().map(|v| json!([jw(v as u32), jw((v >> 32) as u32)])),
            "string" => d.string().map(|s| jbytes(s.as_bytes())),
            "typed" => decode_typed(&mut d, call[1].as_str().unwrap()).map(jw),
            "set_limit" => { d.set_limit(limit_of(&call[1])); Ok(json!("Unit")) }
            "clear_limit" => { d.clear_limit(); Ok(json!("Unit")) }
            other => panic!("vh: unknown decoder call {}", other),
        }.map(|v| if v == json!("Unit") { json!(["Unit"]) } else { json!(["Ok", v]) })
         .unwrap_or_else(|e| j_decode_err(&e)));
        let res = match res { Ok(v) => v, Err(p) => jpanic(&p) };
        let post = catch(|| (d.offset(), d.has_limit(), d.limit_reached()));
        let (off, hl, lr) = post.unwrap_or((usize::MAX, false, false));
        out.ev(json!({"ev": "call", "call": call, "res": res, "off": jn(off), "has_limit": hl, "limit_reached": lr}));
    }
}

fn random_history(rng: &mut Rng) -> (Vec<u8>, Vec<Value>) {
    // now and then a buffer far longer than the short ones, its length around a power of two (strings that cross 64 / 256 /
    // 1024 bytes, offsets and limits beyond 16 / 64 / 256 words)
    let long = rng.chance(1, 600);
    let len = if long { (*rng.pick(&[60usize, 64, 124, 128, 252, 256, 260]) + rng.below(9)).saturating_sub(4) }
              else if rng.chance(1, 3) { rng.below(10) } else { rng.below(65) };
    let mut bytes = Vec::with_capacity(len);
    let style = if long { 4 + rng.below(2) } else { rng.below(4) };
    let nul_every = *rng.pick(&[40usize, 70, 150, 300, 1100, 5000]);
    for _ in 0..len {
        let b = match style {
            0 => *rng.pick(&[0u8, 0, 1, 2, 97, 98, 0xC3, 0xA9, 0xE2, 0x82, 0xAC, 0xF0, 0x9F, 0x98, 0x80, 0xFF, 0x80]),
            1 => *rng.pick(&[0u8, 0, 0, 1, 1, 2, 3, 4, 8, 16]),
            2 => if rng.chance(1, 6) { 0 } else { 97 + rng.below(26) as u8 },
            3 => rng.next() as u8,
            4 => if rng.chance(1, nul_every) { 0 } else { 97 + rng.below(26) as u8 },
            _ => if rng.chance(1, nul_every) { 0 } else { *rng.pick(&[97u8, 98, 0xC3, 0xA9, 0xE2, 0x82, 0xAC, 0x7f, 1]) },
        };
        bytes.push(b);
    }
    let n = 1 + rng.below(50);
    let mut calls = vec![];
    for _ in 0..n {
        if long && rng.chance(1, 3) {
            // requests and limits of the buffer's own magnitude
            let words = (len / 4) as i64;
            let k = *rng.pick(&[15i64, 16, 17, 31, 32, 33, 63, 64, 65, 255, 256, 257, words - 1, words, words + 1, words / 2]);
            calls.push(if rng.chance(1, 2) { json!(["words", k.max(0)]) } else { json!(["set_limit", k.max(0)]) });
            continue;
        }
        let c = match rng.below(20) {
            0..=3 => json!(["word"]),
            4 => json!([*rng.pick(&["id", "bit32", "ext_inst_integer"])]),
            5 => json!(["words", rng.below(5)]),
            6 => json!(["words", if rng.chance(1, 3) { *rng.pick(&[-3i64, -4, -5, -6, -7]) } else { rng.below(20) as i64 }]),
            7 | 8 => json!(["bit64"]),
            9..=12 => json!(["string"]),
            13 | 14 => json!(["typed", *rng.pick(TYPED_KINDS)]),
            15..=17 => {
                let words = len / 4;
                let n: i64 = match rng.below(12) {
                    0 => 0, 1 => 1, 2 => 2, 3 => 3,
                    4 => words as i64, 5 => words as i64 + 1, 6 => (words as i64 - 1).max(0),
                    7 => -3, 8 => -4, 9 => -5,
                    _ => rng.below(20) as i64,
                };
                json!(["set_limit", n])
            }
            _ => json!(["clear_limit"]),
        };
        calls.push(c);
    }
    (bytes, calls)
}

/// every declared value of every typed kind (and its neighbours) decoded through the typed request
fn typed_sweep(out: &mut Out, grammar: &str) -> usize {
    let g: Value = serde_json::from_reader(std::fs::File::open(grammar).expect("grammar")).expect("grammar json");
    let mut n = 0;
    for kind in TYPED_KINDS {
        let k = &g["kinds"][*kind];
        let mut vals: Vec<u32> = vec![0, 1, 0xffff_ffff, 0x8000_0000];
        if let Some(vs) = k["values"].as_object() {
            for key in vs.keys() {
                let v: u32 = if let Some((h, l)) = key.split_once(':') { (h.parse::<u32>().unwrap() << 16) | l.parse::<u32>().unwrap() } else { key.parse().unwrap() };
                vals.extend([v, v.wrapping_add(1), v.wrapping_sub(1)]);
            }
        }
        if let Some(bits) = k["bits"].as_array() {
            let all = unw(&k["all"]);
            vals.push(all);
            vals.push(!all);
            for b in bits { let v = unw(&b["bit"]); vals.extend([v, v << 1, v >> 1, all & !v]); }
            for b in 0..32 { vals.push(1u32 << b); }
        }
        vals.sort(); vals.dedup();
        for chunk in vals.chunks(8) {
            let bytes: Vec<u8> = chunk.iter().flat_map(|w| w.to_le_bytes()).collect();
            let calls: Vec<Value> = chunk.iter().map(|_| json!(["typed", kind])).collect();
            run_history(out, &bytes, &calls);
            n += 1;
            // the same values requested under a limit that admits exactly the word asked for (whether a word is a declared
            // value must not depend on how many words may follow), and under a generous one
            let calls: Vec<Value> = chunk.iter().enumerate().flat_map(|(j, _)| vec![json!(["set_limit", if j % 2 == 0 { 1 } else { 3 }]), json!(["typed", kind])]).collect();
            run_history(out, &bytes, &calls);
            n += 1;
        }
    }
    n
}

pub fn drive(args: &[String]) {
    let out_path = arg(args, "--out").expect("--out");
    let mut out = Out::create(out_path);
    let mut histories = 0usize;
    if let Some(g) = arg(args, "--typed-sweep") {
        histories += typed_sweep(&mut out, g);
    }
    if let Some(h) = arg(args, "--histories") {
        let f = std::io::BufReader::new(std::fs::File::open(h).expect("histories"));
        for line in f.lines() {
            let line = line.unwrap();
            if line.trim().is_empty() { continue; }
            let v: Value = serde_json::from_str(&line).expect("history json");
            let bytes = unbytes(&v["bytes"]);
            run_history(&mut out, &bytes, v["calls"].as_array().unwrap());
            histories += 1;
        }
    }
    let n = arg_num(args, "--random", 0);
    let mut rng = Rng::new(arg_num(args, "--seed", 1));
    if n > 0 {
        // bulk requests at and around powers of two, under a limit that leaves a few words: the limit must be charged for
        // every word of a bulk request exactly as for single words
        for &k in &[8usize, 15, 16, 17, 31, 32, 33] {
            for (extra, tail) in [(4usize, 0usize), (0, 2), (1, 0)] {
                let bytes: Vec<u8> = (0..(k + 8) * 4 + tail).map(|j| (j % 251) as u8 + 1).collect();
                let mut calls = vec![json!(["set_limit", k + extra]), json!(["words", k])];
                for _ in 0..6 { calls.push(json!(["word"])); }
                calls.push(json!(["clear_limit"])); calls.push(json!(["words", 2])); calls.push(json!(["set_limit", 1])); calls.push(json!(["bit64"])); calls.push(json!(["word"])); calls.push(json!(["word"]));
                run_history(&mut out, &bytes, &calls);
                histories += 1;
            }
        }
    }
    for _ in 0..n {
        let (bytes, calls) = random_history(&mut rng);
        run_history(&mut out, &bytes, &calls);
        histories += 1;
    }
    let events = out.finish();
    println!("{}", json!({"histories": histories, "events": events}));
}
