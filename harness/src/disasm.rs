//! Disassembler driver (C07; feeds C04 and C20): real Module::disassemble() of loaded / built
//! modules, tokenised, and READ BACK by an independent reader that knows only the vocabulary
//! (pinned grammar names, pinned mask bit names, Rust's number / string syntax).
use crate::gen::enums::*;
use crate::ggen::*;
use crate::loader::{class_inst, random_loadable};
use crate::parser::HEADER;
use crate::proj::*;
use crate::util::*;
use rspirv::binary::Disassemble;
use rspirv::dr;
use serde_json::{json, Map, Value};
use std::collections::HashMap;

/// spec/DisasmNames.json: the printed name of every mask bit (pinned from the pinned tree's
/// Disassemble impls of the mask types, cross-checked against the constant names)
pub fn dump_names(args: &[String]) {
    let mut root = Map::new();
    for kind in MASK_NAMES {
        let all = mask_all(kind);
        let mut bits = vec![];
        for b in 0..32 {
            let bit = 1u32 << b;
            if all & bit != 0 { bits.push(json!({"bit": jw(bit), "text": mask_disas(kind, bit).unwrap_or_default()})); }
        }
        root.insert(kind.to_string(), json!({"zero": mask_disas(kind, 0).unwrap_or_default(), "bits": bits}));
    }
    std::fs::write(arg(args, "--out").expect("--out"), serde_json::to_string_pretty(&Value::Object(root)).unwrap()).unwrap();
}

/// split a line into tokens on blanks outside double quotes (Rust Debug string syntax)
pub fn tokenize(line: &str) -> Vec<String> {
    let mut out = vec![];
    let mut cur = String::new();
    let mut in_str = false;
    let mut esc = false;
    for c in line.chars() {
        if in_str {
            cur.push(c);
            if esc { esc = false; } else if c == '\\' { esc = true; } else if c == '"' { in_str = false; }
        } else if c == '"' { in_str = true; cur.push(c); }
        else if c == ' ' { if !cur.is_empty() { out.push(std::mem::take(&mut cur)); } }
        else { cur.push(c); }
    }
    if !cur.is_empty() { out.push(cur); }
    out
}

fn unescape(tok: &str) -> Option<Vec<u8>> {
    let inner = tok.strip_prefix('"')?.strip_suffix('"')?;
    let mut out = String::new();
    let mut it = inner.chars().peekable();
    while let Some(c) = it.next() {
        if c != '\\' { out.push(c); continue; }
        match it.next()? {
            'n' => out.push('\n'), 'r' => out.push('\r'), 't' => out.push('\t'), '0' => out.push('\0'),
            '\\' => out.push('\\'), '"' => out.push('"'), '\'' => out.push('\''),
            'u' => {
                if it.next()? != '{' { return None; }
                let mut hex = String::new();
                loop { let h = it.next()?; if h == '}' { break; } hex.push(h); }
                out.push(char::from_u32(u32::from_str_radix(&hex, 16).ok()?)?);
            }
            _ => return None,
        }
    }
    Some(out.into_bytes())
}

pub struct Vocab<'g> {
    pub g: &'g Gram,
    op_by_name: HashMap<String, u32>,
    enum_by_name: HashMap<(String, String), u32>,
    mask_bit_by_text: HashMap<(String, String), u32>,
    mask_zero: HashMap<String, String>,
    ext_by_name: [HashMap<String, u32>; 2],
}
impl<'g> Vocab<'g> {
    pub fn new(g: &'g Gram, names: &Value) -> Vocab<'g> {
        let mut op_by_name = HashMap::new();
        for (n, i) in &g.insts { op_by_name.insert(i.name.clone(), *n); }
        let mut enum_by_name = HashMap::new();
        for (k, kv) in g.raw["kinds"].as_object().unwrap() {
            if let Some(vals) = kv["values"].as_object() {
                for (key, v) in vals {
                    let n: u32 = if let Some((h, l)) = key.split_once(':') { (h.parse::<u32>().unwrap() << 16) | l.parse::<u32>().unwrap() } else { key.parse().unwrap() };
                    let mut name = v["name"].as_str().unwrap().to_string();
                    if k == "Dim" { name = name[3..].to_string(); } // the specification names are 1D, 2D, ...
                    enum_by_name.insert((k.clone(), name), n);
                }
            }
        }
        let mut mask_bit_by_text = HashMap::new();
        let mut mask_zero = HashMap::new();
        for (k, v) in names.as_object().unwrap() {
            mask_zero.insert(k.clone(), v["zero"].as_str().unwrap().to_string());
            for b in v["bits"].as_array().unwrap() { mask_bit_by_text.insert((k.clone(), b["text"].as_str().unwrap().to_string()), unw(&b["bit"])); }
        }
        let ext = |t: &str| -> HashMap<String, u32> { g.raw[t].as_object().unwrap().iter().map(|(n, e)| (e["name"].as_str().unwrap().to_string(), n.parse().unwrap())).collect() };
        Vocab { g, op_by_name, enum_by_name, mask_bit_by_text, mask_zero, ext_by_name: [ext("glsl"), ext("opencl")] }
    }
}

fn id_tok(t: &str) -> Option<u32> { t.strip_prefix('%')?.parse().ok() }

/// `[-]0x1[.hhh]p[+-]d` -> IEEE bits (normal numbers, infinities and NaNs in spirv-dis style); None if not of that form
fn hex_float_bits(t: &str, double: bool) -> Option<u64> {
    let (neg, r) = match t.strip_prefix('-') { Some(r) => (true, r), None => (false, t) };
    let r = r.strip_prefix("0x").or_else(|| r.strip_prefix("0X"))?;
    let (mant, exp) = r.split_once(|c| c == 'p' || c == 'P')?;
    let exp: i64 = exp.parse().ok()?;
    let (int, frac) = match mant.split_once('.') { Some((a, b)) => (a, b), None => (mant, "") };
    if int != "1" { return None; }
    let (ebits, fbits, bias) = if double { (11u32, 52u32, 1023i64) } else { (8, 23, 127) };
    let mut f: u64 = 0; let mut n = 0u32;
    for c in frac.chars() { let d = c.to_digit(16)? as u64; if n + 4 <= 64 - 4 { f = (f << 4) | d; n += 4; } }
    let f = if n >= fbits { f >> (n - fbits) } else { f << (fbits - n) };
    let e = exp + bias;
    if e <= 0 || e >= (1i64 << ebits) { return None; }
    Some(((neg as u64) << (ebits + fbits)) | ((e as u64) << fbits) | f)
}

/// literal-width context of the reader: ids of int / float types and of values typed by them
#[derive(Default)]
struct ReadCtx {
    types: HashMap<u32, (bool, u32, bool)>, // id -> (is_int, width, signed): the module's declarations wherever they stand (the printer's view)
    multi: std::collections::HashSet<u32>,  // ids declared as a scalar type more than once: no single "declared type"
    sofar: HashMap<u32, (bool, u32, bool)>, // the same, but only from the lines read so far (the parser's view: it decides the NUMBER OF WORDS)
    sets: HashMap<u32, usize>,              // ext inst set id -> 0 GLSL / 1 OpenCL
}

struct Reader<'a, 'g> { v: &'a Vocab<'g>, toks: Vec<String>, p: usize, ctx: &'a mut ReadCtx, rt: Option<u32>, first_id: Option<u32>, op: u32 }
impl<'a, 'g> Reader<'a, 'g> {
    fn next(&mut self) -> Option<String> { let t = self.toks.get(self.p)?.clone(); self.p += 1; Some(t) }
    fn more(&self) -> bool { self.p < self.toks.len() }
    /// One literal token.  `fmt`: how the printer spelt it (integer signed / unsigned, float; None = raw unsigned bit
    /// pattern) - taken from the declaration of the type wherever it stands; `words`: how many words the literal
    /// has - decided, as in the parser, by the declarations that PRECEDE the instruction.
    fn literal(&mut self, fmt: Option<(bool, u32, bool)>, words: usize, out: &mut Vec<SOp>) -> Option<()> {
        let t = self.next()?;
        let push = |v: u64, out: &mut Vec<SOp>| -> Option<()> {
            if words == 2 { out.push(SOp { k: "LiteralBit64".into(), w: vec![v as u32, (v >> 32) as u32], s: None }); }
            else { out.push(SOp::one("LiteralBit32", v as u32)); }
            Some(())
        };
        match fmt {
            Some((true, _, _)) | None => {
                // an integer: negative spellings are two's complement of the literal's own width
                if let Ok(v) = t.parse::<u64>() { if words == 1 && v > u32::MAX as u64 { return None; } push(v, out) }
                else { let v = t.parse::<i64>().ok()?; if words == 1 && (v < i32::MIN as i64) { return None; } push(if words == 1 { (v as i32) as u32 as u64 } else { v as u64 }, out) }
            }
            Some((false, _, _)) => {
                // decimal (Rust / C syntax) or C99 hexadecimal floating point as spirv-dis writes it (0x1.8p+3, -0x1p+128 for
                // infinities and NaNs: the exponent field is taken literally)
                if let Some(bits) = hex_float_bits(&t, words == 2) { return push(bits, out); }
                if words == 2 { push(t.parse::<f64>().ok()?.to_bits(), out) } else { push(t.parse::<f32>().ok()?.to_bits() as u64, out) }
            }
        }
    }
    fn kind(&mut self, k: &str, out: &mut Vec<SOp>) -> Option<()> {
        if let Some(base) = k.strip_suffix('*') { while self.more() { self.kind(base, out)?; } return Some(()); }
        if let Some(base) = k.strip_suffix('?') { if self.more() { self.kind(base, out)?; } return Some(()); }
        match k {
            // (the free-form argument list of OpExtInst may hold literals and strings when built through the Builder)
            "IdRef" if self.op == 12 && self.first_id.is_some() && self.toks.get(self.p).map(|t| !t.starts_with('%')).unwrap_or(false) => {
                let t = self.next()?;
                if t.starts_with('"') { out.push(SOp { k: "LiteralString".into(), w: vec![], s: Some(unescape(&t)?) }); }
                else { out.push(SOp::one("LiteralBit32", t.parse().ok()?)); }
            }
            "IdRef" | "IdScope" | "IdMemorySemantics" => { let t = self.next()?; let id = id_tok(&t)?; if self.first_id.is_none() { self.first_id = Some(id); } out.push(SOp::one(k, id)); }
            "LiteralInteger" | "LiteralFloat" => { let t = self.next()?; out.push(SOp::one("LiteralBit32", t.parse().ok()?)); }
            "LiteralExtInstInteger" => {
                let t = self.next()?;
                let n = match t.parse::<u32>() { Ok(n) => n, Err(_) => { let set = *self.ctx.sets.get(&self.first_id?)?; *self.v.ext_by_name[set].get(&t)? } };
                out.push(SOp::one(k, n));
            }
            "LiteralString" => { let t = self.next()?; out.push(SOp { k: k.into(), w: vec![], s: Some(unescape(&t)?) }); }
            "LiteralContextDependentNumber" => {
                let ty = self.rt.and_then(|t| self.ctx.types.get(&t).cloned());
                let words = match self.rt.and_then(|t| self.ctx.sofar.get(&t).cloned()) { Some((_, 64, _)) => 2, _ => 1 };
                // only OpConstant is rendered by its declared type; OpSpecConstant shows the raw bit pattern
                if self.op == 43 && self.rt.map(|t| self.ctx.multi.contains(&t)).unwrap_or(false) {
                    // conflicting declarations of the type id: read the token by its own syntax (integer first)
                    let save = self.p;
                    if self.literal(Some((true, 32, true)), words, out).is_none() { self.p = save; self.literal(Some((false, 32, false)), words, out)?; }
                } else if self.op == 43 { self.literal(ty, words, out)?; } else { self.literal(None, words, out)?; }
            }
            "PairLiteralIntegerIdRef" => {
                // OpSwitch case literals are printed as raw unsigned bit patterns
                let words = match self.first_id.and_then(|s| self.ctx.sofar.get(&s).cloned()) { Some((_, 64, _)) => 2, _ => 1 };
                self.literal(None, words, out)?;
                self.kind("IdRef", out)?;
            }
            "PairIdRefLiteralInteger" => { self.kind("IdRef", out)?; self.kind("LiteralInteger", out)?; }
            "PairIdRefIdRef" => { self.kind("IdRef", out)?; self.kind("IdRef", out)?; }
            "LiteralSpecConstantOpInteger" => {
                let t = self.next()?;
                let op = *self.v.op_by_name.get(&t)?;
                out.push(SOp::one(k, op));
                let sig: Vec<LOp> = self.v.g.insts[&op].ops.iter().filter(|o| o.k != "IdResultType" && o.k != "IdResult").cloned().collect();
                self.sig(&sig, out)?;
            }
            _ => match &self.v.g.kinds[k] {
                KindG::ValueEnum { .. } => {
                    let t = self.next()?;
                    let v = *self.v.enum_by_name.get(&(k.to_string(), t))?;
                    out.push(SOp::one(k, v));
                    let params = Gen { g: self.v.g }.params_of(k, v);
                    for p in params { self.kind(&p, out)?; }
                }
                KindG::BitEnum { .. } => {
                    let t = self.next()?;
                    let mut v = 0u32;
                    if t != self.v.mask_zero[k] { for part in t.split('|') { v |= *self.v.mask_bit_by_text.get(&(k.to_string(), part.to_string()))?; } }
                    out.push(SOp::one(k, v));
                    let params = Gen { g: self.v.g }.params_of(k, v);
                    for p in params { self.kind(&p, out)?; }
                }
                KindG::Other => return None,
            },
        }
        Some(())
    }
    fn sig(&mut self, sig: &[LOp], out: &mut Vec<SOp>) -> Option<()> {
        for lo in sig {
            match lo.q.as_str() {
                "One" => self.kind(&lo.k, out)?,
                "ZeroOrOne" => { if self.more() { self.kind(&lo.k, out)?; } }
                _ => { while self.more() { self.kind(&lo.k, out)?; } }
            }
        }
        Some(())
    }
}

/// Read one line back into an instruction, with the vocabulary only.
fn read_line(v: &Vocab, line: &str, ctx: &mut ReadCtx) -> Option<SInst> {
    let mut toks = tokenize(line);
    let mut rid = None;
    if toks.len() >= 2 && toks[1] == "=" { rid = Some(id_tok(&toks[0])?); toks.drain(0..2); }
    let opname = toks.first()?.strip_prefix("Op")?.to_string();
    let op = *v.op_by_name.get(&opname)?;
    let g = &v.g.insts[&op];
    let mut r = Reader { v, toks, p: 1, ctx, rt: None, first_id: None, op };
    let mut lead = 0;
    if !g.ops.is_empty() && g.ops[0].k == "IdResultType" { r.rt = Some(id_tok(&r.next()?)?); lead = 1; }
    let has_rid = g.ops.len() > lead && g.ops[lead].k == "IdResult";
    if has_rid != rid.is_some() { return None; }
    if has_rid { lead += 1; }
    let mut ops = vec![];
    r.sig(&g.ops[lead..], &mut ops)?;
    if r.more() { return None; }
    let rt = r.rt;
    let inst = SInst { op, rt, rid, ops };
    // vocabulary that later lines depend on
    if let Some(id) = rid {
        // (type declarations entered the printer's view in the first pass: the LAST declaration of an id wins there)
        if op == 21 || op == 22 {}
        else if let Some(t) = rt.and_then(|t| ctx.types.get(&t).cloned()) { if !v.g.insts[&op].name.starts_with("Type") { ctx.types.insert(id, t); } }
        // the parser's view: declarations and typed values in reading order only
        if op == 21 && inst.ops.len() == 2 { ctx.sofar.insert(id, (true, inst.ops[0].w[0], inst.ops[1].w[0] == 1)); }
        else if op == 22 && !inst.ops.is_empty() { ctx.sofar.insert(id, (false, inst.ops[0].w[0], false)); }
        else if let Some(t) = rt.and_then(|t| ctx.sofar.get(&t).cloned()) { if !v.g.insts[&op].name.starts_with("Type") { ctx.sofar.insert(id, t); } }
        if op == 11 {
            match inst.ops.first().and_then(|o| o.s.as_deref()) { Some(b"GLSL.std.450") => { ctx.sets.insert(id, 0); } Some(b"OpenCL.std") => { ctx.sets.insert(id, 1); } _ => {} }
        }
    }
    Some(inst)
}

pub fn disasm_event(v: &Vocab, m: &dr::Module, tag: &str) -> Value {
    let jm = j_module(m);
    match catch(|| m.disassemble()) {
        Err(p) => json!({"ev": "disasm", "tag": tag, "st": "panic", "panic": jpanic(&p), "m": jm, "lines": [], "tokens": [], "reread": [], "reread_ok": false}),
        Ok(text) => {
            let lines: Vec<&str> = text.split('\n').collect();
            // the header comment: the leading lines that start with ';'
            let nh = lines.iter().take_while(|l| l.trim_start().starts_with(';')).count();
            let mut ctx = ReadCtx::default();
            // the vocabulary includes the module's scalar type declarations wherever they stand: first pass
            for l in lines.iter().skip(nh) {
                let t = tokenize(l);
                if t.len() >= 4 && t[1] == "=" && (t[2] == "OpTypeInt" || t[2] == "OpTypeFloat") {
                    if let (Some(id), Ok(w)) = (id_tok(&t[0]), t[3].parse::<u32>()) {
                        if ctx.types.contains_key(&id) { ctx.multi.insert(id); }
                        if t[2] == "OpTypeInt" { ctx.types.insert(id, (true, w, t.get(4).map(|s| s == "1").unwrap_or(false))); } else { ctx.types.insert(id, (false, w, false)); }
                    }
                }
            }
            // "reading the text back with the same vocabulary": ext inst imports are part of it
            let mut reread = vec![];
            let mut ok = true;
            for l in lines.iter().skip(nh) {
                match read_line(v, l, &mut ctx) { Some(i) => reread.push(i.to_json()), None => { ok = false; reread.push(json!({"op": 65535, "rt": [], "rid": [], "ops": []})); } }
            }
            json!({"ev": "disasm", "tag": tag, "st": "ok", "m": jm, "lines": lines, "nh": nh,
                   "tokens": lines.iter().map(|l| tokenize(l)).collect::<Vec<_>>(), "reread": reread, "reread_ok": ok})
        }
    }
}

/// "generator tool name": the header comment of the same (empty) module under two generator words that differ in the
/// 16-bit tool id only - a registered tool (pinned list) and an id outside the pinned list
fn header_pair_events(out: &mut Out) {
    let header_tokens = |g: u32| -> Value {
        let r = catch(|| {
            let mut m = dr::Module::new();
            let mut h = dr::ModuleHeader::new(9);
            h.version = 0x0001_0300; h.generator = g;
            m.header = Some(h);
            let text = m.disassemble();
            text.split('\n').take_while(|l| l.trim_start().starts_with(';')).map(tokenize).collect::<Vec<_>>()
        });
        match r { Ok(t) => json!(t), Err(_) => json!([["<panic>"]]) }
    };
    for j in 0..16u32 {
        for other in [j + 256, j + 512, j + 0x8000, j + 0xff00, j + 16, 0xffff - j] {
            if other < 16 || other > 0xffff { continue; }
            out.ev(json!({"ev": "hdrpair", "tag": "header-pair", "g1": j, "g2": other, "tok1": header_tokens((j << 16) | 3), "tok2": header_tokens((other << 16) | 3)}));
        }
    }
}

/// Loads the binary; a panic of the loader / parser is recorded (an event of its own, counted by C04).
fn load_insts(out: &mut Out, insts: &[SInst]) -> Option<dr::Module> { load_insts_v(out, insts, HEADER[1]) }
/// (with the version word of the input's header)
fn load_insts_v(out: &mut Out, insts: &[SInst], version: u32) -> Option<dr::Module> {
    let mut ws: Vec<u32> = HEADER.to_vec();
    ws[1] = version;
    for i in insts { ws.extend(i.encode()); }
    match catch(|| dr::load_words(&ws)) {
        Ok(r) => r.ok(),
        Err(p) => {
            out.ev(json!({"ev": "disasm", "tag": "load", "st": "loadpanic", "panic": jpanic(&p), "m": {}, "lines": [], "words": jws(&ws)}));
            None
        }
    }
}

pub fn drive(args: &[String]) {
    let g = Gram::load(arg(args, "--grammar").expect("--grammar"));
    let names: Value = serde_json::from_reader(std::fs::File::open(arg(args, "--names").expect("--names")).unwrap()).unwrap();
    let v = Vocab::new(&g, &names);
    let mut out = Out::create(arg(args, "--out").expect("--out"));
    let mut rng = Rng::new(arg_num(args, "--seed", 1));
    let n = arg_num(args, "--n", 200) as usize;
    let gen = Gen { g: &g };
    header_pair_events(&mut out);
    // (a) random loadable modules (any mix of opcodes)
    for k in 0..n {
        let (insts, _) = random_loadable(&g, &mut rng, k % 2 == 1, 3);
        // "the header comment shows the version": any major.minor byte pair, through the loader (odd k) or set on the module
        let bytes = [0u32, 1, 2, 6, 9, 15, 16, 17, 32, 100, 127, 128, 255];
        let ver = if k % 3 == 0 { HEADER[1] } else { (*rng.pick(&bytes) << 16) | (*rng.pick(&bytes) << 8) };
        if let Some(mut m) = load_insts_v(&mut out, &insts, if k % 2 == 1 { ver } else { HEADER[1] }) {
            if k % 2 == 0 { if let Some(h) = m.header.as_mut() { h.version = ver; } }
            // every registered generator tool id (and a few unregistered ones) with arbitrary tool versions
            if let Some(h) = m.header.as_mut() { h.generator = (((k % 20) as u32) << 16) | (rng.word() & 0xffff); }
            out.ev(disasm_event(&v, &m, "random"));
        }
    }
    // (b) every opcode once, and every enumerant / mask bit once, inside a loadable skeleton
    let skeleton = |body: Vec<SInst>, rng: &mut Rng| -> Vec<SInst> {
        let mut c = Ctx::new();
        let mut v = vec![class_inst(&g, "Fn", rng, &mut c), class_inst(&g, "Label", rng, &mut c)];
        v.extend(body);
        v.push(SInst { op: 253, rt: None, rid: None, ops: vec![] });
        v.push(SInst { op: 56, rt: None, rid: None, ops: vec![] });
        v
    };
    let structural = |op: u32| matches!(op, 54 | 55 | 56 | 248 | 249 | 250 | 251 | 252 | 253 | 254 | 255 | 4416 | 4448 | 4449 | 5294);
    let mut batch: Vec<SInst> = vec![];
    let mut seen: std::collections::HashSet<(String, u32)> = Default::default();
    for (&op, ig) in &g.insts {
        if structural(op) || g.has_context_kind(op) { continue; }
        let mut plans: Vec<Plan> = vec![Plan::random()];
        for (idx, lo) in ig.ops.iter().enumerate() {
            let vals: Vec<u32> = match g.kinds.get(&lo.k) {
                Some(KindG::ValueEnum { values }) => values.iter().map(|x| x.0).collect(),
                Some(KindG::BitEnum { all, bits }) => { let mut x = vec![0, *all]; x.extend(bits.iter().map(|b| b.0)); x }
                _ => continue,
            };
            for val in vals {
                if !seen.insert((lo.k.clone(), val)) { continue; }
                let mut forced = HashMap::new();
                forced.insert(idx, val);
                plans.push(Plan { optionals: Some(ig.ops.iter().filter(|o| o.q == "ZeroOrOne").count()), variadic: Some(1), forced });
            }
        }
        for p in plans {
            let mut c = Ctx::new();
            let i = gen.inst(op, &mut rng, &mut c, &p);
            if !c.decls.is_empty() { continue; }
            batch.push(i);
            if batch.len() >= 12 {
                let insts = skeleton(std::mem::take(&mut batch), &mut rng);
                if let Some(m) = load_insts(&mut out, &insts) { out.ev(disasm_event(&v, &m, "sweep")); }
            }
        }
    }
    // kinds that occur only as parameters of enumerants (FPFastMathMode, BuiltIn, LinkageType ...): every value / bit by name
    {
        let mut seenp: std::collections::HashSet<(String, u32)> = Default::default();
        for (k, val, pk) in param_kind_sites(&g) {
            let Some((op, idx)) = site_of_kind(&g, &k) else { continue };
            if structural(op) { continue; }
            for pv in sweep_values(&g, &pk) {
                if !seenp.insert((pk.clone(), pv)) { continue; }
                let mut forced = HashMap::new();
                forced.insert(idx, val);
                let mut c = Ctx::new();
                FORCE_PARAM.with(|f| *f.borrow_mut() = Some((pk.clone(), pv)));
                let i = gen.inst(op, &mut rng, &mut c, &Plan { optionals: Some(g.insts[&op].ops.iter().filter(|o| o.q == "ZeroOrOne").count()), variadic: Some(1), forced });
                FORCE_PARAM.with(|f| *f.borrow_mut() = None);
                if !c.decls.is_empty() { continue; }
                batch.push(i);
                if batch.len() >= 12 {
                    let insts = skeleton(std::mem::take(&mut batch), &mut rng);
                    if let Some(m) = load_insts(&mut out, &insts) { out.ev(disasm_event(&v, &m, "sweep")); }
                }
            }
        }
    }
    if !batch.is_empty() { let insts = skeleton(std::mem::take(&mut batch), &mut rng); if let Some(m) = load_insts(&mut out, &insts) { out.ev(disasm_event(&v, &m, "sweep")); } }
    // (c) OpConstant / OpSpecConstant / OpSwitch over every int / float width with boundary bit patterns; undeclared and non-numeric types
    let pats32 = [0xffu32, 0x80, 0xffff, 0x8000, 0x0001_0005, 0xffff_ff80, 0u32, 1, 0x7fff_ffff, 0x8000_0000, 0xffff_ffff, 0x3f80_0000, 0xbf80_0000, 0x0000_3c00, 0x7f80_0000, 0xff80_0000, 0x0000_0001, 0x8000_0000, 42];
    let pats64 = [0u64, 1, 0x7fff_ffff_ffff_ffff, 0x8000_0000_0000_0000, u64::MAX, 0x3ff0_0000_0000_0000, 0xbff0_0000_0000_0000, 0x7ff0_0000_0000_0000, 0xfff0_0000_0000_0000, 1 << 52, 0x4059_0000_0000_0000];
    let mut insts: Vec<SInst> = vec![];
    let mut id = 1u32;
    for &(is_int, w, signed) in &[(true, 8u32, 0u32), (true, 8, 1), (true, 16, 0), (true, 16, 1), (true, 32, 0), (true, 32, 1), (true, 64, 0), (true, 64, 1), (false, 16, 0), (false, 32, 0), (false, 64, 0)] {
        let t = id; id += 1;
        insts.push(if is_int { SInst { op: 21, rt: None, rid: Some(t), ops: vec![SOp::one("LiteralBit32", w), SOp::one("LiteralBit32", signed)] } }
                   else { SInst { op: 22, rt: None, rid: Some(t), ops: vec![SOp::one("LiteralBit32", w)] } });
        if w == 64 { for p in pats64 { insts.push(SInst { op: if id % 2 == 0 { 43 } else { 50 }, rt: Some(t), rid: Some(id), ops: vec![SOp { k: "LiteralBit64".into(), w: vec![p as u32, (p >> 32) as u32], s: None }] }); id += 1; } }
        else { for p in pats32 { insts.push(SInst { op: if id % 2 == 0 { 43 } else { 50 }, rt: Some(t), rid: Some(id), ops: vec![SOp::one("LiteralBit32", p)] }); id += 1; } }
    }
    // a bool-typed and an undeclared-typed OpConstant (loadable; must not panic, must read back)
    insts.push(SInst { op: 20, rt: None, rid: Some(id), ops: vec![] });
    insts.push(SInst { op: 43, rt: Some(id), rid: Some(id + 1), ops: vec![SOp::one("LiteralBit32", 7)] });
    insts.push(SInst { op: 43, rt: Some(9999), rid: Some(id + 2), ops: vec![SOp::one("LiteralBit32", 0xffff_fff0)] });
    if let Some(m) = load_insts(&mut out, &insts) { out.ev(disasm_event(&v, &m, "constants")); }
    // constants that come BEFORE the declaration of their type (legal for the loader and the Builder)
    let early = vec![
        SInst { op: 43, rt: Some(5), rid: Some(1), ops: vec![SOp::one("LiteralBit32", 0xffff_fffb)] },
        SInst { op: 43, rt: Some(6), rid: Some(2), ops: vec![SOp::one("LiteralBit32", 0xc000_0000)] },
        SInst { op: 43, rt: Some(7), rid: Some(3), ops: vec![SOp::one("LiteralBit32", 0xffff_fffb)] },
        SInst { op: 21, rt: None, rid: Some(5), ops: vec![SOp::one("LiteralBit32", 32), SOp::one("LiteralBit32", 1)] },
        SInst { op: 22, rt: None, rid: Some(6), ops: vec![SOp::one("LiteralBit32", 32)] },
        SInst { op: 21, rt: None, rid: Some(7), ops: vec![SOp::one("LiteralBit32", 32), SOp::one("LiteralBit32", 0)] },
        SInst { op: 43, rt: Some(5), rid: Some(4), ops: vec![SOp::one("LiteralBit32", 0x8000_0000)] },
    ];
    if let Some(m) = load_insts(&mut out, &early) { out.ev(disasm_event(&v, &m, "constants")); }
    // one-word constants whose type is declared LATER with another width (64, 16, 8 bits, signed and unsigned, float 64 / 16),
    // and a type id declared twice with different widths: the parser sizes the literal by what it has seen, the
    // printer looks the type up in the whole module - it must still print a line that reads back
    for (w, sg, is_int) in [(64u32, 1u32, true), (64, 0, true), (16, 1, true), (8, 1, true), (8, 0, true), (64, 0, false), (16, 0, false)] {
        let ty = if is_int { SInst { op: 21, rt: None, rid: Some(5), ops: vec![SOp::one("LiteralBit32", w), SOp::one("LiteralBit32", sg)] } }
                 else { SInst { op: 22, rt: None, rid: Some(5), ops: vec![SOp::one("LiteralBit32", w)] } };
        let late = vec![
            SInst { op: 43, rt: Some(5), rid: Some(1), ops: vec![SOp::one("LiteralBit32", 0xffff_fffb)] },
            SInst { op: 43, rt: Some(5), rid: Some(2), ops: vec![SOp::one("LiteralBit32", 0x0001_00ff)] },
            SInst { op: 50, rt: Some(5), rid: Some(3), ops: vec![SOp::one("LiteralBit32", 7)] },
            ty.clone()];
        if let Some(m) = load_insts(&mut out, &late) { out.ev(disasm_event(&v, &m, "constants")); }
        let twice = vec![
            SInst { op: 21, rt: None, rid: Some(5), ops: vec![SOp::one("LiteralBit32", 32), SOp::one("LiteralBit32", 1)] },
            SInst { op: 43, rt: Some(5), rid: Some(1), ops: vec![SOp::one("LiteralBit32", 0xffff_fffb)] },
            ty];
        if let Some(m) = load_insts(&mut out, &twice) { out.ev(disasm_event(&v, &m, "constants")); }
    }
    // (d) OpExtInst with known / unknown sets and numbers; strings with quotes, backslashes, newlines, non-ASCII
    let mut insts = vec![
        SInst { op: 11, rt: None, rid: Some(1), ops: vec![SOp { k: "LiteralString".into(), w: vec![], s: Some(b"GLSL.std.450".to_vec()) }] },
        SInst { op: 11, rt: None, rid: Some(2), ops: vec![SOp { k: "LiteralString".into(), w: vec![], s: Some(b"OpenCL.std".to_vec()) }] },
        SInst { op: 11, rt: None, rid: Some(3), ops: vec![SOp { k: "LiteralString".into(), w: vec![], s: Some(b"NonSemantic.Unknown".to_vec()) }] },
    ];
    for s in STRINGS { insts.push(SInst { op: 7, rt: None, rid: Some(100 + insts.len() as u32), ops: vec![SOp { k: "LiteralString".into(), w: vec![], s: Some(s.as_bytes().to_vec()) }] }); }
    let mut body = vec![];
    for (set, nums) in [(1u32, (0u32..=83).chain([5000]).collect::<Vec<u32>>()), (2, (0..=206).chain([300, 70000]).collect()), (3, vec![1, 2]), (77, vec![1])] {
        for nn in nums {
            let mut ops = vec![SOp::one("IdRef", set), SOp::one("LiteralExtInstInteger", nn), SOp::one("IdRef", 60), SOp::one("IdRef", 61)];
            // (more arguments than any of these instructions declares: every one is shown)
            if nn % 3 == 1 { ops.push(SOp::one("IdRef", 62)); ops.push(SOp::one("IdRef", 61 + nn % 2)); }
            body.push(SInst { op: 12, rt: Some(50), rid: Some(200 + body.len() as u32), ops });
        }
    }
    // no argument ids at all (the shortest OpExtInst still names its instruction)
    for (set, nn) in [(1u32, 1u32), (1, 81), (2, 0), (2, 204), (3, 1), (1, 0), (2, 5000)] {
        body.push(SInst { op: 12, rt: Some(50), rid: Some(5000 + body.len() as u32), ops: vec![SOp::one("IdRef", set), SOp::one("LiteralExtInstInteger", nn)] });
    }
    // a set operand that names an OpString spelling "GLSL.std.450" (id 112), not an import: numbers stay numbers
    for nn in [1u32, 2, 81] {
        body.push(SInst { op: 12, rt: Some(50), rid: Some(6000 + body.len() as u32), ops: vec![SOp::one("IdRef", 112), SOp::one("LiteralExtInstInteger", nn), SOp::one("IdRef", 60)] });
    }
    // the same number from the two known sets back to back, in both orders
    for nn in 0..90u32 {
        for set in [1u32, 2, 2, 1] {
            body.push(SInst { op: 12, rt: Some(50), rid: Some(2000 + body.len() as u32), ops: vec![SOp::one("IdRef", set), SOp::one("LiteralExtInstInteger", nn), SOp::one("IdRef", 60)] });
        }
    }
    insts.extend(skeleton(body, &mut rng));
    if let Some(m) = load_insts(&mut out, &insts) {
        out.ev(disasm_event(&v, &m, "extinst-strings"));
        // "for all modules ... the Builder can produce": Builder::ext_inst takes ANY operands after the instruction number;
        // the same module with literal / string arguments appended to some OpExtInst as data
        let mut m2 = m.clone();
        let mut k = 0u32;
        for f in m2.functions.iter_mut() { for b in f.blocks.iter_mut() { for i in b.instructions.iter_mut() {
            if i.class.opcode == spirv::Op::ExtInst && i.operands.len() <= 4 {
                k += 1;
                match k % 5 { 0 => i.operands.push(dr::Operand::LiteralBit32(k)), 1 => { i.operands.push(dr::Operand::LiteralBit32(3)); i.operands.push(dr::Operand::IdRef(9)); }
                              2 => i.operands.push(dr::Operand::LiteralString("x y".to_string())), _ => {} }
            }
        } } }
        out.ev(disasm_event(&v, &m2, "extinst-strings"));
    }
    let events = out.finish();
    println!("{}", json!({"events": events}));
}
