//! dump-grammar: projection of the tree's grammar knowledge through the public API.
//! Used (a) once, on the pinned tree, to produce spec/GrammarData.json, and (b) on every
//! C08/C09/C17 run as the "live" side that is compared with the pinned snapshot.
use crate::gen::enums::*;
use crate::gen::operands::*;
use crate::util::*;
use rspirv::grammar;
use serde_json::{json, Map, Value};

pub fn key_of(n: u32) -> String {
    if n < 65536 { format!("{}", n) } else { format!("{}:{}", n >> 16, n & 0xffff) }
}

fn j_logical(ops: &[grammar::LogicalOperand]) -> Value {
    Value::Array(ops.iter().map(|o| json!({"k": format!("{:?}", o.kind), "q": format!("{:?}", o.quantifier)})).collect())
}

fn reflect_of(kind: &str, n: u32) -> (Value, Value, Value) {
    // params / caps / exts as reported by dr::Operand for (kind, n); panics are data
    if !OPERAND_VARIANTS.contains(&kind) {
        return (json!([]), json!([]), json!([]));
    }
    let op = match operand_make(kind, &[n], None) {
        Some(o) => o,
        None => return (json!(["<unmakeable>"]), json!([]), json!([])),
    };
    let params = match catch(|| op.additional_operands()) {
        Ok(v) => Value::Array(v.iter().map(|o| json!({"k": format!("{:?}", o.kind), "q": format!("{:?}", o.quantifier)})).collect()),
        Err(p) => jpanic(&p),
    };
    let caps = match catch(|| op.required_capabilities()) {
        Ok(v) => Value::Array(v.iter().map(|c| json!(format!("{:?}", c))).collect()),
        Err(p) => jpanic(&p),
    };
    let exts = match catch(|| op.required_extensions()) {
        Ok(v) => Value::Array(v.iter().map(|c| json!(c)).collect()),
        Err(p) => jpanic(&p),
    };
    (params, caps, exts)
}

pub fn category(kind: &str) -> &'static str {
    if MASK_NAMES.contains(&kind) { "BitEnum" }
    else if ENUM_NAMES.contains(&kind) { "ValueEnum" }
    else if kind.starts_with("Id") { "Id" }
    else if kind.starts_with("Literal") { "Literal" }
    else if kind.starts_with("Pair") { "Composite" }
    else { "Unknown" }
}

pub fn grammar_value(decl: &Value) -> Value {
    let mut root = Map::new();
    root.insert("release".into(), json!("sdk-1.4.309.0"));
    root.insert("magic".into(), jw(spirv::MAGIC_NUMBER));
    root.insert("version".into(), json!([spirv::MAJOR_VERSION, spirv::MINOR_VERSION]));
    // instruction tables, in iteration order
    let mut list = vec![];
    for e in grammar::CoreInstructionTable::iter() {
        list.push(json!({"name": e.opname, "opcode": e.opcode as u32,
            "caps": e.capabilities.iter().map(|c| format!("{:?}", c)).collect::<Vec<_>>(),
            "exts": e.extensions, "ops": j_logical(e.operands)}));
    }
    root.insert("inst_list".into(), Value::Array(list));
    let ext = |it: &mut dyn Iterator<Item = &'static grammar::ExtendedInstruction<'static>>| {
        Value::Array(it.map(|e| json!({"name": e.opname, "opcode": e.opcode,
            "caps": e.capabilities.iter().map(|c| format!("{:?}", c)).collect::<Vec<_>>(),
            "exts": e.extensions, "ops": j_logical(e.operands)})).collect())
    };
    root.insert("glsl_list".into(), ext(&mut grammar::GlslStd450InstructionTable::iter()));
    root.insert("opencl_list".into(), ext(&mut grammar::OpenCLStd100InstructionTable::iter()));

    // operand kinds
    let mut kinds = Map::new();
    let mut all_kinds: Vec<String> = decl["operand_kinds"].as_array().unwrap().iter().map(|k| k.as_str().unwrap().to_string()).collect();
    for k in ENUM_NAMES.iter().chain(MASK_NAMES.iter()) {
        if !all_kinds.iter().any(|x| x == k) { all_kinds.push(k.to_string()); }
    }
    for k in OPERAND_VARIANTS { if !all_kinds.iter().any(|x| x == k) { all_kinds.push(k.to_string()); } }
    for kind in &all_kinds {
        let cat = category(kind);
        let mut kv = Map::new();
        kv.insert("cat".into(), json!(cat));
        if cat == "ValueEnum" {
            // declared set as from_u32 sees it on candidates: 0..2^17, the textual values +-1
            let mut cands: Vec<u32> = (0..(1u32 << 17)).collect();
            if let Some(vals) = decl["enums"][kind]["values"].as_array() {
                for v in vals {
                    let n = v[1].as_u64().unwrap() as u32;
                    cands.push(n); cands.push(n.wrapping_add(1)); cands.push(n.wrapping_sub(1));
                }
            }
            cands.sort(); cands.dedup();
            let mut values = Map::new();
            for n in cands {
                if let Some(back) = enum_from_u32(kind, n) {
                    let declared = decl["enums"][kind]["values"].as_array().map(|vs| vs.iter().any(|v| v[1].as_u64() == Some(n as u64))).unwrap_or(true);
                    if !declared { values.insert(key_of(n), json!({"name": "<undeclared discriminant>", "back": jw(back), "aliases": [], "params": [], "caps": [], "exts": []})); continue; }
                    let name = enum_debug(kind, n).unwrap_or_default();
                    let (params, caps, exts) = reflect_of(kind, n);
                    let mut aliases = vec![];
                    if let Some(al) = decl["enums"][kind]["aliases"].as_array() {
                        for a in al {
                            let an = a[0].as_str().unwrap();
                            if enum_alias_value(kind, an) == Some(n) { aliases.push(an.to_string()); }
                        }
                    }
                    values.insert(key_of(n), json!({"name": name, "back": jw(back), "aliases": aliases,
                        "params": params, "caps": caps, "exts": exts}));
                }
            }
            kv.insert("values".into(), Value::Object(values));
        } else if cat == "BitEnum" {
            let all = mask_all(kind);
            kv.insert("all".into(), jw(all));
            let consts: Vec<(String, u32)> = decl["masks"][kind].as_array().map(|cs| cs.iter().map(|c| {
                let name = c[0].as_str().unwrap().to_string();
                let v = mask_const_value(kind, &name).unwrap_or(0xdead_beef);
                (name, v)
            }).collect()).unwrap_or_default();
            let mut bits = vec![];
            for b in 0..32u32 {
                let bit = 1u32 << b;
                if all & bit != 0 {
                    let names: Vec<&str> = consts.iter().filter(|c| c.1 == bit).map(|c| c.0.as_str()).collect();
                    let (params, caps, exts) = reflect_of(kind, bit);
                    bits.push(json!({"bit": jw(bit), "names": names, "params": params, "caps": caps, "exts": exts}));
                }
            }
            kv.insert("bits".into(), Value::Array(bits));
            kv.insert("zero_names".into(), json!(consts.iter().filter(|c| c.1 == 0).map(|c| c.0.clone()).collect::<Vec<_>>()));
            kv.insert("other_consts".into(), Value::Array(consts.iter().filter(|c| c.1 != 0 && !c.1.is_power_of_two())
                .map(|c| json!({"name": c.0, "value": jw(c.1)})).collect()));
        }
        kinds.insert(kind.clone(), Value::Object(kv));
    }
    root.insert("kinds".into(), Value::Object(kinds));
    root.insert("operand_variants".into(), json!(OPERAND_VARIANTS));
    Value::Object(root)
}

pub fn dump_grammar(args: &[String]) {
    let decl_path = arg(args, "--decl").expect("--decl live_decl.json");
    let out = arg(args, "--out").expect("--out file");
    let decl: Value = serde_json::from_reader(std::fs::File::open(decl_path).expect("decl")).expect("decl json");
    let v = grammar_value(&decl);
    std::fs::write(out, serde_json::to_string(&v).unwrap()).expect("write");
}
