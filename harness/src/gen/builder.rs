// placeholder
