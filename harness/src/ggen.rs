//! Grammar-directed generation of conforming instructions from the PINNED grammar snapshot
//! (spec/GrammarData.json) -- deliberately not from the tree's own tables, so that the inputs
//! do not depend on the code under test.  The generator's notion of "conforming" is itself
//! checked by TLC (ParserTrace code 8) against Parser.tla.
use crate::proj;
use crate::util::*;
use rspirv::dr;
use serde_json::{json, Value};
use std::collections::{BTreeMap, HashMap};

#[derive(Clone, Debug, PartialEq)]
pub struct SOp {
    pub k: String,
    pub w: Vec<u32>,
    pub s: Option<Vec<u8>>,
}
#[derive(Clone, Debug, PartialEq)]
pub struct SInst {
    pub op: u32,
    pub rt: Option<u32>,
    pub rid: Option<u32>,
    pub ops: Vec<SOp>,
}

pub fn pack_string(bs: &[u8]) -> Vec<u32> {
    let mut v = bs.to_vec();
    let pad = 4 - (v.len() % 4);
    v.extend(std::iter::repeat(0u8).take(pad));
    v.chunks(4).map(|c| u32::from_le_bytes([c[0], c[1], c[2], c[3]])).collect()
}

impl SOp {
    pub fn one(k: &str, w: u32) -> SOp {
        SOp { k: k.to_string(), w: vec![w], s: None }
    }
    pub fn encode(&self, out: &mut Vec<u32>) {
        match &self.s {
            Some(bs) => out.extend(pack_string(bs)),
            None => out.extend(&self.w),
        }
    }
    pub fn to_json(&self) -> Value {
        json!({"k": self.k, "w": jws(&self.w), "s": self.s.as_ref().map(|b| jbytes(b)).unwrap_or(json!([]))})
    }
}
impl SInst {
    pub fn encode(&self) -> Vec<u32> {
        let mut body = vec![];
        if let Some(t) = self.rt { body.push(t); }
        if let Some(t) = self.rid { body.push(t); }
        for o in &self.ops { o.encode(&mut body); }
        let mut out = vec![(((body.len() + 1) as u32) << 16) | self.op];
        out.extend(body);
        out
    }
    pub fn to_json(&self) -> Value {
        json!({"op": self.op, "rt": jopt_w(self.rt), "rid": jopt_w(self.rid),
               "ops": Value::Array(self.ops.iter().map(|o| o.to_json()).collect())})
    }
    pub fn to_dr(&self) -> Option<dr::Instruction> {
        proj::un_inst(&self.to_json())
    }
    pub fn from_json(v: &Value) -> SInst {
        let ops = v["ops"].as_array().unwrap().iter().map(|o| {
            let k = o["k"].as_str().unwrap().to_string();
            let w: Vec<u32> = o["w"].as_array().unwrap().iter().map(unw).collect();
            let s = if k == "LiteralString" { Some(unbytes(&o["s"])) } else { None };
            SOp { k, w, s }
        }).collect();
        SInst { op: v["op"].as_u64().unwrap() as u32, rt: proj::un_opt_w(&v["rt"]), rid: proj::un_opt_w(&v["rid"]), ops }
    }
}

#[derive(Clone, Debug)]
pub struct LOp {
    pub k: String,
    pub q: String,
}
#[derive(Clone, Debug)]
pub struct InstG {
    pub name: String,
    pub opcode: u32,
    pub ops: Vec<LOp>,
}
#[derive(Clone, Debug)]
pub enum KindG {
    ValueEnum { values: Vec<(u32, Vec<String>)> },
    BitEnum { all: u32, bits: Vec<(u32, Vec<String>)> },
    Other,
}
pub struct Gram {
    pub insts: BTreeMap<u32, InstG>,
    pub kinds: HashMap<String, KindG>,
    pub raw: Value,
}

fn un_key(k: &str) -> u32 {
    if let Some((h, l)) = k.split_once(':') {
        (h.parse::<u32>().unwrap() << 16) | l.parse::<u32>().unwrap()
    } else {
        k.parse().unwrap()
    }
}

impl Gram {
    pub fn load(path: &str) -> Gram {
        let raw: Value = serde_json::from_reader(std::fs::File::open(path).expect("grammar")).expect("grammar json");
        let mut insts = BTreeMap::new();
        for (k, e) in raw["insts"].as_object().unwrap() {
            let ops = e["ops"].as_array().unwrap().iter()
                .map(|o| LOp { k: o["k"].as_str().unwrap().into(), q: o["q"].as_str().unwrap().into() }).collect();
            insts.insert(k.parse().unwrap(), InstG { name: e["name"].as_str().unwrap().into(), opcode: k.parse().unwrap(), ops });
        }
        let mut kinds = HashMap::new();
        for (k, e) in raw["kinds"].as_object().unwrap() {
            let params = |v: &Value| -> Vec<String> {
                // a parameter's quantifier travels as a suffix of its kind: "LiteralInteger*" (ZeroOrMore), "X?" (ZeroOrOne)
                v["params"].as_array().map(|a| a.iter().map(|p| format!("{}{}", p["k"].as_str().unwrap(), match p["q"].as_str() { Some("ZeroOrMore") => "*", Some("ZeroOrOne") => "?", _ => "" })).collect()).unwrap_or_default()
            };
            let kg = match e["cat"].as_str().unwrap() {
                "ValueEnum" => {
                    let mut values: Vec<(u32, Vec<String>)> = e["values"].as_object().unwrap().iter().map(|(n, v)| (un_key(n), params(v))).collect();
                    values.sort();
                    KindG::ValueEnum { values }
                }
                "BitEnum" => KindG::BitEnum {
                    all: unw(&e["all"]),
                    bits: e["bits"].as_array().unwrap().iter().map(|b| (unw(&b["bit"]), params(b))).collect(),
                },
                _ => KindG::Other,
            };
            kinds.insert(k.clone(), kg);
        }
        Gram { insts, kinds, raw }
    }
    pub fn has_context_kind(&self, op: u32) -> bool {
        self.insts[&op].ops.iter().any(|o| matches!(o.k.as_str(), "LiteralContextDependentNumber" | "PairLiteralIntegerIdRef" | "LiteralSpecConstantOpInteger"))
    }
}

/// Type context: ids with a known literal width (in words) -- and the instructions declaring them.
#[derive(Clone, Default)]
pub struct Ctx {
    pub decls: Vec<SInst>,
    /// (type id, literal words) for int/float types declared in `decls`
    pub types: Vec<(u32, usize)>,
    /// (value id, literal words) for values whose result type is a tracked type
    pub values: Vec<(u32, usize)>,
    pub next_id: u32,
}
impl Ctx {
    pub fn new() -> Ctx {
        Ctx { next_id: 1, ..Default::default() }
    }
    pub fn fresh(&mut self) -> u32 {
        let i = self.next_id;
        self.next_id += 1;
        i
    }
    /// Declares an int/float type of a supported width and returns (id, words).
    pub fn declare_type(&mut self, rng: &mut Rng) -> (u32, usize) {
        let id = self.fresh();
        let (inst, words) = if rng.chance(1, 2) {
            let w = *rng.pick(&[8u32, 16, 32, 64]);
            (SInst { op: 21, rt: None, rid: Some(id), ops: vec![SOp::one("LiteralBit32", w), SOp::one("LiteralBit32", rng.below(2) as u32)] }, if w == 64 { 2 } else { 1 })
        } else {
            let w = *rng.pick(&[16u32, 32, 64]);
            (SInst { op: 22, rt: None, rid: Some(id), ops: vec![SOp::one("LiteralBit32", w)] }, if w == 64 { 2 } else { 1 })
        };
        self.decls.push(inst);
        self.types.push((id, words));
        (id, words)
    }
    /// Defines a value (OpUndef) of a tracked type and returns (value id, words).
    pub fn define_value(&mut self, rng: &mut Rng) -> (u32, usize) {
        let (t, words) = if self.types.is_empty() || rng.chance(1, 3) { self.declare_type(rng) } else { *rng.pick(&self.types) };
        let id = self.fresh();
        self.decls.push(SInst { op: 1, rt: Some(t), rid: Some(id), ops: vec![] });
        self.values.push((id, words));
        (id, words)
    }
}

pub const STRINGS: &[&str] = &["", "a", "ab", "abc", "abcd", "abcde", "abcdefg", "abcdefgh", "main", "GLSL.std.450",
    "h\u{e9}llo", "\u{65e5}\u{672c}\u{8a9e}", "quote\"back\\slash", "tab\there", "line\nbreak", "\u{1F600}", "x y"];

pub struct Plan {
    /// how many of the trailing optional (ZeroOrOne) operands are present (None = random)
    pub optionals: Option<usize>,
    /// repetitions of a ZeroOrMore operand (None = random 0..3)
    pub variadic: Option<usize>,
    /// forced first word for the logical operand at this index (enumerant / mask value)
    pub forced: HashMap<usize, u32>,
}
impl Plan {
    pub fn random() -> Plan {
        Plan { optionals: None, variadic: None, forced: HashMap::new() }
    }
}

thread_local! {
    /// when set, generated instructions never rely on type declarations (context-dependent literals are one word under
    /// an undeclared type): for callers that cannot emit the declarations along with the instruction
    pub static NO_CTX: std::cell::Cell<bool> = std::cell::Cell::new(false);
    /// number of occurrences of a ZeroOrMore parameter of an enumerant (None = random 0..3)
    pub static FORCE_REPS: std::cell::Cell<Option<usize>> = std::cell::Cell::new(None);
    /// value to use for the next PARAMETER of the given enum / mask kind (kinds such as BuiltIn or FPFastMathMode occur
    /// only as parameters of enumerants; the sweeps set this to reach every one of their values)
    pub static FORCE_PARAM: std::cell::RefCell<Option<(String, u32)>> = std::cell::RefCell::new(None);
}

/// (kind K, value v of K, parameter kind PK): every enumerant / bit v whose parameters include an enum- or mask-kinded one
pub fn param_kind_sites(g: &Gram) -> Vec<(String, u32, String)> {
    let mut out = vec![];
    for (k, kg) in &g.kinds {
        let vals: Vec<(u32, Vec<String>)> = match kg {
            KindG::ValueEnum { values } => values.iter().map(|v| (v.0, v.1.clone())).collect(),
            KindG::BitEnum { bits, .. } => bits.iter().map(|b| (b.0, b.1.clone())).collect(),
            KindG::Other => vec![],
        };
        for (v, ps) in vals {
            for pk in ps {
                let pk = pk.trim_end_matches(|c| c == '*' || c == '?').to_string();
                if matches!(g.kinds.get(&pk), Some(KindG::ValueEnum { .. }) | Some(KindG::BitEnum { .. })) { out.push((k.clone(), v, pk)); }
            }
        }
    }
    out.sort();
    out
}
/// (kind K, value v): enumerants one of whose parameters may occur any number of times
pub fn variadic_param_sites(g: &Gram) -> Vec<(String, u32)> {
    let mut out = vec![];
    for (k, kg) in &g.kinds {
        if let KindG::ValueEnum { values } = kg { for v in values { if v.1.iter().any(|p| p.ends_with('*')) { out.push((k.clone(), v.0)); } } }
        if let KindG::BitEnum { bits, .. } = kg { for b in bits { if b.1.iter().any(|p| p.ends_with('*')) { out.push((k.clone(), b.0)); } } }
    }
    out.sort();
    out
}
/// all values worth sweeping of an enum / mask kind: every enumerant; 0, every bit and all bits
pub fn sweep_values(g: &Gram, kind: &str) -> Vec<u32> {
    match g.kinds.get(kind) {
        Some(KindG::ValueEnum { values }) => values.iter().map(|v| v.0).collect(),
        Some(KindG::BitEnum { all, bits }) => { let mut x = vec![0, *all]; x.extend(bits.iter().map(|b| b.0)); x }
        _ => vec![],
    }
}
/// an (opcode, logical operand index) that takes kind K directly
pub fn site_of_kind(g: &Gram, kind: &str) -> Option<(u32, usize)> {
    for (&op, ig) in &g.insts {
        if g.has_context_kind(op) { continue; }
        if let Some(idx) = ig.ops.iter().position(|o| o.k == kind) { return Some((op, idx)); }
    }
    None
}

pub struct Gen<'g> {
    pub g: &'g Gram,
}

impl<'g> Gen<'g> {
    fn id(&self, rng: &mut Rng) -> u32 {
        match rng.below(20) {
            0 => 0xffff_ffff,
            1 => 0x0001_0000 + rng.below(100) as u32,
            2 => *rng.pick(&[127u32, 128, 255, 256, 257, 1023, 1024, 4095, 4096, 0xffff, 0x0001_0000, 0x00ff_ffff, 0x0100_0000, 0x7fff_ffff, 0x8000_0000, 0xffff_fffe]),
            _ => 1 + rng.below(60) as u32,
        }
    }
    fn lit(&self, rng: &mut Rng) -> u32 {
        match rng.below(8) {
            0 => 0,
            1 => 0xffff_ffff,
            2 => 0x8000_0000,
            3 => rng.word(),
            _ => rng.below(300) as u32,
        }
    }
    pub fn enum_value(&self, kind: &str, rng: &mut Rng) -> u32 {
        match &self.g.kinds[kind] {
            KindG::ValueEnum { values } => rng.pick(values).0,
            KindG::BitEnum { bits, .. } => {
                let mut v = 0;
                match rng.below(4) {
                    0 => {}
                    1 => v = rng.pick(bits).0,
                    _ => for b in bits { if rng.chance(1, 3) { v |= b.0; } },
                }
                v
            }
            KindG::Other => panic!("vh: {} is not an enum", kind),
        }
    }
    /// Parameters of (kind, value), in the order the grammar lists them.
    pub fn params_of(&self, kind: &str, value: u32) -> Vec<String> {
        match &self.g.kinds[kind] {
            KindG::ValueEnum { values } => values.iter().find(|v| v.0 == value).map(|v| v.1.clone()).unwrap_or_default(),
            KindG::BitEnum { bits, .. } => bits.iter().filter(|b| value & b.0 != 0).flat_map(|b| b.1.clone()).collect(),
            KindG::Other => vec![],
        }
    }
    /// One concrete operand of `kind` (plus its parameters).  `forced`: first word to use.
    pub fn operand(&self, kind: &str, rng: &mut Rng, ctx: &mut Ctx, forced: Option<u32>, rt_words: usize, sel_words: usize, out: &mut Vec<SOp>) {
        // quantified parameters of enumerants (see Gram::load): any number / at most one occurrence
        if let Some(base) = kind.strip_suffix('*') { let n = FORCE_REPS.with(|f| f.get()).unwrap_or_else(|| rng.count(4)); for _ in 0..n { self.operand(base, rng, ctx, None, rt_words, sel_words, out); } return; }
        if let Some(base) = kind.strip_suffix('?') { if rng.chance(1, 2) { self.operand(base, rng, ctx, None, rt_words, sel_words, out); } return; }
        match kind {
            "IdRef" | "IdScope" | "IdMemorySemantics" => out.push(SOp::one(kind, forced.unwrap_or_else(|| self.id(rng)))),
            "LiteralInteger" | "LiteralFloat" => out.push(SOp::one("LiteralBit32", forced.unwrap_or_else(|| self.lit(rng)))),
            "LiteralExtInstInteger" => out.push(SOp::one(kind, forced.unwrap_or_else(|| self.lit(rng)))),
            "LiteralString" => {
                // now and then a string whose length sits at a power of two or a word boundary far from the short ones
                let bs = if rng.chance(1, 16) { long_string(*rng.pick(LONG_LENGTHS)).into_bytes() } else { rng.pick(STRINGS).as_bytes().to_vec() };
                out.push(SOp { k: kind.into(), w: vec![], s: Some(bs) })
            }
            "LiteralContextDependentNumber" => self.literal(rng, rt_words, out),
            "PairLiteralIntegerIdRef" => {
                self.literal(rng, sel_words, out);
                out.push(SOp::one("IdRef", self.id(rng)));
            }
            "PairIdRefLiteralInteger" => {
                out.push(SOp::one("IdRef", self.id(rng)));
                out.push(SOp::one("LiteralBit32", self.lit(rng)));
            }
            "PairIdRefIdRef" => {
                out.push(SOp::one("IdRef", self.id(rng)));
                out.push(SOp::one("IdRef", self.id(rng)));
            }
            "LiteralSpecConstantOpInteger" => {
                // an embedded opcode without context-dependent operands
                let cands: Vec<u32> = self.g.insts.keys().cloned().filter(|o| !self.g.has_context_kind(*o)).collect();
                let op = forced.unwrap_or_else(|| *rng.pick(&cands));
                out.push(SOp::one(kind, op));
                let sig: Vec<LOp> = self.g.insts[&op].ops.iter().filter(|o| o.k != "IdResultType" && o.k != "IdResult").cloned().collect();
                self.signature(&sig, rng, ctx, &Plan::random(), 0, 1, 1, out);
            }
            _ => {
                let fp = if forced.is_none() { FORCE_PARAM.with(|f| { let mut f = f.borrow_mut(); if f.as_ref().map(|x| x.0 == kind).unwrap_or(false) { f.take().map(|x| x.1) } else { None } }) } else { None };
                let v = forced.or(fp).unwrap_or_else(|| self.enum_value(kind, rng));
                out.push(SOp::one(kind, v));
                for p in self.params_of(kind, v) {
                    self.operand(&p, rng, ctx, None, 1, 1, out);
                }
            }
        }
    }
    fn literal(&self, rng: &mut Rng, words: usize, out: &mut Vec<SOp>) {
        if words == 2 {
            out.push(SOp { k: "LiteralBit64".into(), w: vec![self.lit(rng), self.lit(rng)], s: None });
        } else {
            out.push(SOp::one("LiteralBit32", self.lit(rng)));
        }
    }
    /// Operands for the logical operands `sig` (result type / id already removed); `base` is the
    /// index of sig[0] in the instruction's full logical operand list (for plan.forced).
    pub fn signature(&self, sig: &[LOp], rng: &mut Rng, ctx: &mut Ctx, plan: &Plan, base: usize, rt_words: usize, sel_words: usize, out: &mut Vec<SOp>) {
        let n_opt = sig.iter().filter(|o| o.q == "ZeroOrOne").count();
        let has_var = sig.iter().any(|o| o.q == "ZeroOrMore");
        let mut present_opt = plan.optionals.unwrap_or_else(|| rng.below(n_opt + 1)).min(n_opt);
        // a variadic operand may only appear when every optional before it is present
        let reps = if has_var && present_opt == n_opt { plan.variadic.unwrap_or_else(|| rng.count(4)) } else { 0 };
        for (i, lo) in sig.iter().enumerate() {
            let forced = plan.forced.get(&(base + i)).cloned();
            match lo.q.as_str() {
                "One" => self.operand(&lo.k, rng, ctx, forced, rt_words, sel_words, out),
                "ZeroOrOne" => {
                    if present_opt > 0 {
                        present_opt -= 1;
                        self.operand(&lo.k, rng, ctx, forced, rt_words, sel_words, out);
                    } else {
                        return; // optional operands only as a trailing run
                    }
                }
                _ => {
                    for r in 0..reps {
                        self.operand(&lo.k, rng, ctx, if r == 0 { forced } else { None }, rt_words, sel_words, out);
                    }
                }
            }
        }
    }
    /// A conforming instruction of `opcode`; type declarations it needs are appended to ctx.
    pub fn inst(&self, opcode: u32, rng: &mut Rng, ctx: &mut Ctx, plan: &Plan) -> SInst {
        scale_reset_inst();
        let g = &self.g.insts[&opcode];
        let mut lead = 0;
        let mut rt = None;
        let mut rid = None;
        let mut rt_words = 1;
        let mut sel_words = 1;
        let needs_lit = g.ops.iter().any(|o| o.k == "LiteralContextDependentNumber");
        let needs_sel = g.ops.iter().any(|o| o.k == "PairLiteralIntegerIdRef");
        if !g.ops.is_empty() && g.ops[0].k == "IdResultType" {
            lead = 1;
            if needs_lit && !NO_CTX.with(|c| c.get()) && rng.chance(5, 6) {
                let (t, w) = if ctx.types.is_empty() || rng.chance(1, 2) { ctx.declare_type(rng) } else { *rng.pick(&ctx.types) };
                rt = Some(t);
                rt_words = w;
            } else {
                rt = Some(1000 + rng.below(50) as u32); // an id no declaration mentions: width unknown => one word
            }
        }
        if g.ops.len() > lead && g.ops[lead].k == "IdResult" {
            lead += 1;
            rid = Some(2000 + ctx.fresh());
        }
        let mut ops = vec![];
        let mut plan2 = Plan { optionals: plan.optionals, variadic: plan.variadic, forced: plan.forced.clone() };
        if needs_sel {
            // OpSwitch: the selector is the first operand; give it a tracked type most of the time
            if !NO_CTX.with(|c| c.get()) && rng.chance(5, 6) {
                let (v, w) = if ctx.values.is_empty() || rng.chance(1, 2) { ctx.define_value(rng) } else { *rng.pick(&ctx.values) };
                plan2.forced.insert(lead, v);
                sel_words = w;
            } else {
                plan2.forced.insert(lead, 3000 + rng.below(50) as u32);
            }
        }
        self.signature(&g.ops[lead..], rng, ctx, &plan2, lead, rt_words, sel_words, &mut ops);
        SInst { op: opcode, rt, rid, ops }
    }
}
