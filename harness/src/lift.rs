//! Lifter driver (C18): modules of the supported subset lifted with LiftContext::convert; the
//! structured result is observed through its public fields and their derived Debug text,
//! flattened to leaf sequences (numbers, tokens, names) the specification can compare positionally.
use crate::ggen::*;
use crate::parser::HEADER;
use crate::proj::*;
use crate::util::*;
use rspirv::dr;
use rspirv::lift::LiftContext;
use serde_json::{json, Value};

// ------------------------------------------------------------------ Debug text -> leaves
/// Flattens Rust derived-Debug text: numbers -> {"n":[hi,lo]}, Token(k) -> {"t":k}, identifiers /
/// strings / bit-flag groups -> {"i":text}; `Some(x)` is x, `None` is nothing; field names are dropped.
/// How a token spells itself in Debug text, learned from two tokens of known index of a scratch storage: (prefix,
/// suffix) around the decimal index - `Token(` `)`, `#` ``, ... (None: the index is not printed in decimal; the
/// `Token...` heuristics below remain)
fn token_format() -> &'static Option<(Vec<char>, Vec<char>)> {
    static FMT: std::sync::OnceLock<Option<(Vec<char>, Vec<char>)>> = std::sync::OnceLock::new();
    FMT.get_or_init(|| {
        catch(|| {
            let mut s: rspirv::sr::storage::Storage<u32> = rspirv::sr::storage::Storage::new();
            let mut d = vec![];
            for k in 0..=4242u32 { let t = s.append(k); if k == 7 || k == 4242 { d.push(format!("{:?}", t)); } }
            let (a, b) = (d[0].clone(), d[1].clone());
            let pa = a.find('7')?; let pb = b.find("4242")?;
            if pa != pb || a[..pa] != b[..pb] || a[pa + 1..] != b[pb + 4..] { return None; }
            let prefix: Vec<char> = a[..pa].chars().collect();
            if prefix.is_empty() || prefix.iter().any(|c| c.is_ascii_digit()) { return None; }
            Some((prefix, a[pa + 1..].chars().collect()))
        }).ok().flatten()
    })
}

pub fn leaves(dbg: &str) -> Vec<Value> {
    let cs: Vec<char> = dbg.chars().collect();
    let mut out = vec![];
    let mut i = 0;
    while i < cs.len() {
        let c = cs[i];
        if let Some((pre, suf)) = token_format() {
            // (the generic-parameter form Token<Type>... and other spellings starting with the word Token: below)
            let boundary = i == 0 || !(cs[i - 1].is_alphanumeric() || cs[i - 1] == '_') || !(pre[0].is_alphanumeric() || pre[0] == '_');
            if boundary && cs[i..].starts_with(pre) && cs.get(i + pre.len()).map(|c| c.is_ascii_digit()).unwrap_or(false) {
                let mut k = i + pre.len();
                let mut num = String::new();
                while k < cs.len() && cs[k].is_ascii_digit() { num.push(cs[k]); k += 1; }
                if cs[k..].starts_with(suf) {
                    out.push(json!({"t": num.parse::<u64>().unwrap_or(999_999)}));
                    i = k + suf.len();
                    continue;
                }
            }
        }
        if c == '"' {
            let mut j = i + 1;
            let mut s = String::new();
            while j < cs.len() && cs[j] != '"' { if cs[j] == '\\' { j += 1; } if j < cs.len() { s.push(cs[j]); } j += 1; }
            out.push(json!({"i": s}));
            i = j + 1;
        } else if c.is_ascii_digit() || (c == '-' && i + 1 < cs.len() && cs[i + 1].is_ascii_digit()) {
            let mut j = i + 1;
            while j < cs.len() && (cs[j].is_ascii_alphanumeric() || cs[j] == '.' || cs[j] == '-' || cs[j] == '+') { j += 1; }
            let t: String = cs[i..j].iter().collect();
            match t.parse::<u32>() { Ok(n) => out.push(json!({"n": jw(n)})), Err(_) => match t.parse::<i32>() { Ok(n) => out.push(json!({"n": jw(n as u32)})), Err(_) => out.push(json!({"i": t})) } }
            i = j;
        } else if c.is_alphabetic() || c == '_' {
            let mut j = i;
            while j < cs.len() && (cs[j].is_alphanumeric() || cs[j] == '_') { j += 1; }
            let word: String = cs[i..j].iter().collect();
            // field name?
            if j < cs.len() && cs[j] == ':' { i = j + 1; continue; }
            if word == "Token" && j < cs.len() && (cs[j] == '(' || cs[j] == '<' || cs[j] == '#' || cs[j] == ' ' || cs[j] == '{') {
                // the index is what counts, however a token spells itself: Token(3), Token<Type>#3, Token { index: 3 } ...
                let mut k = j;
                if cs[k] == '<' { let mut depth = 0; while k < cs.len() { if cs[k] == '<' { depth += 1; } if cs[k] == '>' { depth -= 1; if depth == 0 { k += 1; break; } } k += 1; } }
                while k < cs.len() && !cs[k].is_ascii_digit() && (cs[k] == '(' || cs[k] == '#' || cs[k] == ' ' || cs[k] == '{' || cs[k] == ':' || cs[k] == '=' || cs[k].is_alphabetic() || cs[k] == '_') { k += 1; }
                let mut num = String::new();
                while k < cs.len() && cs[k].is_ascii_digit() { num.push(cs[k]); k += 1; }
                while k < cs.len() && (cs[k] == ' ' || cs[k] == ')' || cs[k] == '}') { let closing = cs[k] != ' '; k += 1; if closing { break; } }
                out.push(json!({"t": num.parse::<u64>().unwrap_or(999_999)}));
                i = k; continue;
            }
            if word == "Some" || word == "None" { i = j; continue; }
            // bit-flag group: Name(A | B) or Name(0x0)
            if j < cs.len() && cs[j] == '(' {
                let mut k = j + 1; let mut inner = String::new(); let mut depth = 1;
                while k < cs.len() { if cs[k] == '(' { depth += 1; } if cs[k] == ')' { depth -= 1; if depth == 0 { break; } } inner.push(cs[k]); k += 1; }
                let flagish = !inner.is_empty() && inner.chars().all(|ch| ch.is_ascii_uppercase() || ch.is_ascii_digit() || ch == '_' || ch == ' ' || ch == '|' || ch == 'x');
                if flagish && inner.chars().any(|ch| ch.is_ascii_uppercase() || ch == 'x') && spirv_mask_name(&word) {
                    out.push(json!({"i": format!("{}({})", word, inner)}));
                    i = k + 1; continue;
                }
            }
            out.push(json!({"i": word}));
            i = j;
        } else { i += 1; }
    }
    out
}
fn spirv_mask_name(w: &str) -> bool { crate::gen::enums::MASK_NAMES.contains(&w) }

/// top-level items of a `Storage { data: [a, b, c] }` / `[a, b, c]` Debug text
/// the entries of a Debug-printed collection, in order: a list `Name { data: [a, b] }` / `[a, b]`, or a map
/// `{k0: a, k1: b}` (keys dropped) - however the storage chooses to print itself
pub fn items(dbg: &str) -> Vec<String> {
    let t = dbg.trim_start();
    if t.starts_with('{') {
        let inner = items(&format!("[{}]", &t[1..t.rfind('}').unwrap_or(t.len())]));
        return inner.into_iter().map(|e| {
            // drop the key: text up to the first ':' outside brackets / strings
            let cs: Vec<char> = e.chars().collect();
            let mut depth = 0i32; let mut in_str = false;
            for (k, &c) in cs.iter().enumerate() {
                if in_str { if c == '"' && cs[k - 1] != '\\' { in_str = false; } continue; }
                match c { '"' => in_str = true, '[' | '(' | '{' | '<' => depth += 1, ']' | ')' | '}' | '>' => depth -= 1,
                          ':' if depth == 0 && cs.get(k + 1) != Some(&':') && (k == 0 || cs[k - 1] != ':') => return cs[k + 1..].iter().collect::<String>().trim().to_string(), _ => {} }
            }
            e
        }).collect();
    }
    let start = match dbg.find('[') { Some(s) => s, None => return vec![] };
    let cs: Vec<char> = dbg[start + 1..].chars().collect();
    let mut out = vec![]; let mut cur = String::new(); let mut depth = 0i32; let mut in_str = false;
    for (k, &c) in cs.iter().enumerate() {
        if in_str { cur.push(c); if c == '"' && cs[k - 1] != '\\' { in_str = false; } continue; }
        match c {
            '"' => { in_str = true; cur.push(c); }
            '[' | '(' | '{' => { depth += 1; cur.push(c); }
            ']' | ')' | '}' => { if depth == 0 { break; } depth -= 1; cur.push(c); }
            ',' if depth == 0 => { if !cur.trim().is_empty() { out.push(cur.trim().to_string()); } cur.clear(); }
            _ => cur.push(c),
        }
    }
    if !cur.trim().is_empty() { out.push(cur.trim().to_string()); }
    out
}
fn head(item: &str) -> String { item.chars().take_while(|c| c.is_alphanumeric() || *c == '_').collect() }
fn entry(item: &str) -> Value { let h = head(item); let l = leaves(&item[h.len()..]); json!({"h": h, "l": l}) }

pub fn lift_event(m: &dr::Module, tag: &str, probe_op: Option<u32>) -> Value {
    let jm = j_module(m);
    let r = catch(|| LiftContext::convert(m));
    match r {
        Err(p) => json!({"ev": "lift", "tag": tag, "probe": probe_op.map(|p| vec![p]).unwrap_or_default(), "st": "panic", "err": jpanic(&p)[1], "m": jm}),
        Ok(Err(e)) => json!({"ev": "lift", "tag": tag, "probe": probe_op.map(|p| vec![p]).unwrap_or_default(), "st": "err", "err": format!("{:?}", e), "m": jm}),
        Ok(Ok(sm)) => {
            let fns: Vec<Value> = sm.functions.iter().map(|f| {
                let blocks: Vec<Value> = items(&format!("{:?}", f.blocks)).iter().map(|b| {
                    // Block { arguments: [..], ops: [..], terminator: X }
                    let args_txt = b.split("arguments:").nth(1).unwrap_or("");
                    let args = items(args_txt).iter().flat_map(|a| leaves(a)).collect::<Vec<_>>();
                    let term_txt = b.split("terminator:").nth(1).unwrap_or("").trim().trim_end_matches('}').trim().to_string();
                    // Terminator::Branch(Branch::X {..}) prints as Branch(X {..}): the inner head is the opcode
                    let inner = term_txt.strip_prefix("Branch(").map(|t| t.trim_end_matches(')').to_string()).unwrap_or(term_txt.clone());
                    json!({"arguments": args, "terminator": entry(&inner)})
                }).collect();
                json!({"control": jw(f.control.bits()), "result": leaves(&format!("{:?}", f.result)), "blocks": blocks,
                       "start": leaves(&format!("{:?}", f.start_block)), "nparams": f.parameters.len()})
            }).collect();
            json!({"ev": "lift", "tag": tag, "probe": probe_op.map(|p| vec![p]).unwrap_or_default(), "st": "ok", "m": jm, "version": jw(sm.version),
                "caps": sm.capabilities.iter().map(|c| jw(*c as u32)).collect::<Vec<_>>(),
                "mm": [jw(sm.memory_model.addressing_model as u32), jw(sm.memory_model.memory_model as u32)],
                "types": items(&format!("{:?}", sm.types)).iter().map(|t| entry(t)).collect::<Vec<_>>(),
                "constants": items(&format!("{:?}", sm.constants)).iter().map(|t| entry(t)).collect::<Vec<_>>(),
                "ops": items(&format!("{:?}", sm.ops)).iter().map(|t| entry(t)).collect::<Vec<_>>(),
                "functions": fns})
        }
    }
}

// ------------------------------------------------------------------ subset modules
fn i(op: u32, rt: Option<u32>, rid: Option<u32>, ops: Vec<SOp>) -> SInst { SInst { op, rt, rid, ops } }
fn idr(n: u32) -> SOp { SOp::one("IdRef", n) }
fn lit(n: u32) -> SOp { SOp::one("LiteralBit32", n) }

pub struct Sub { pub insts: Vec<SInst>, pub next: u32, pub t_void: u32, pub t_bool: u32, pub t_u32: u32, pub t_i32: u32, pub t_f32: u32, pub t_v4: u32, pub t_fn: u32, pub t_void2: u32, pub t_fn_u: u32, pub t_ptr: u32, pub t_st: u32, pub t_arr2: u32, pub c_i: u32, pub c_v: u32,
                 pub c_u: u32, pub c_f: u32, pub consts: Vec<u32>, pub types: Vec<u32> }

/// declarations of the supported subset: scalar, vector, matrix, pointer, array, struct, function types; 32-bit constants and composites
pub fn subset_prelude(rng: &mut Rng) -> Sub {
    let mut v = vec![];
    let mut n = 1u32;
    let mut f = || { let x = n; n += 1; x };
    // capabilities in order, repeats (also adjacent ones) included
    let caps = [1u32, 0, 11, 11, 10, 1, 22, 22, 22, 9];
    let start = rng.below(4);
    for c in caps.iter().skip(start).take(1 + rng.below(6)) { v.push(i(17, None, None, vec![SOp::one("Capability", *c)])); }
    v.push(i(14, None, None, vec![SOp::one("AddressingModel", rng.below(3) as u32), SOp::one("MemoryModel", rng.below(3) as u32)]));
    let (t_void, t_bool, t_u32, t_i32, t_f32) = (f(), f(), f(), f(), f());
    v.push(i(19, None, Some(t_void), vec![])); v.push(i(20, None, Some(t_bool), vec![]));
    v.push(i(21, None, Some(t_u32), vec![lit(32), lit(0)])); v.push(i(21, None, Some(t_i32), vec![lit(32), lit(1)]));
    v.push(i(22, None, Some(t_f32), vec![lit(32)]));
    let t_v4 = f(); v.push(i(23, None, Some(t_v4), vec![idr(t_f32), lit(4)]));
    let t_m4 = f(); v.push(i(24, None, Some(t_m4), vec![idr(t_v4), lit(4)]));
    let c_u = f(); v.push(i(43, Some(t_u32), Some(c_u), vec![lit(7 + rng.below(100) as u32)]));
    let c_i = f(); v.push(i(43, Some(t_i32), Some(c_i), vec![lit(0xffff_fff0)]));
    let c_f = f(); v.push(i(43, Some(t_f32), Some(c_f), vec![lit(0x3f80_0000)]));
    let t_arr = f(); v.push(i(28, None, Some(t_arr), vec![idr(t_f32), idr(c_u)]));
    let t_st = f(); v.push(i(30, None, Some(t_st), vec![idr(t_f32), idr(t_i32), idr(t_v4)]));
    let t_ptr = f(); v.push(i(32, None, Some(t_ptr), vec![SOp::one("StorageClass", 7), idr(t_f32)]));
    let t_fn = f(); v.push(i(33, None, Some(t_fn), vec![idr(t_void)]));
    let t_fn2 = f(); v.push(i(33, None, Some(t_fn2), vec![idr(t_f32), idr(t_f32), idr(t_i32)]));
    let c_t = f(); v.push(i(41, Some(t_bool), Some(c_t), vec![]));
    let c_fl = f(); v.push(i(42, Some(t_bool), Some(c_fl), vec![]));
    let c_v = f(); v.push(i(44, Some(t_v4), Some(c_v), vec![idr(c_f), idr(c_f), idr(c_f), idr(c_f)]));
    let c_n = f(); v.push(i(46, Some(t_v4), Some(c_n), vec![]));
    // declarations that lift to EQUAL values under different ids (each declaration is its own constant), and a
    // composite naming the later copies
    let c_2 = f(); v.push(i(43, Some(t_u32), Some(c_2), vec![lit(2)]));
    let c_2b = f(); v.push(i(43, Some(t_u32), Some(c_2b), vec![lit(2)]));
    let c_fb = f(); v.push(i(43, Some(t_f32), Some(c_fb), vec![lit(0x3f80_0000)]));
    let c_n2 = f(); v.push(i(46, Some(t_f32), Some(c_n2), vec![]));
    let c_n3 = f(); v.push(i(46, Some(t_v4), Some(c_n3), vec![]));
    let c_tb = f(); v.push(i(41, Some(t_bool), Some(c_tb), vec![]));
    let t_arr2 = f(); v.push(i(28, None, Some(t_arr2), vec![idr(t_f32), idr(c_2b)]));
    let c_v2 = f(); v.push(i(44, Some(t_v4), Some(c_v2), vec![idr(c_fb), idr(c_f), idr(c_n2), idr(c_fb)]));
    let c_a = f(); v.push(i(44, Some(t_arr2), Some(c_a), vec![idr(c_fb), idr(c_n2)]));
    // the smallest struct and composite: no members, no constituents
    let t_unit = f(); v.push(i(30, None, Some(t_unit), vec![]));
    let c_unit = f(); v.push(i(44, Some(t_unit), Some(c_unit), vec![]));
    // a second OpTypeVoid and a function type returning u32: an OpFunction's own result type is what the function keeps
    let t_void2 = f(); v.push(i(19, None, Some(t_void2), vec![]));
    let t_fn_u = f(); v.push(i(33, None, Some(t_fn_u), vec![idr(t_u32)]));
    let next = n;
    Sub { insts: v, next, t_void, t_bool, t_u32, t_i32, t_f32, t_v4, t_fn, t_void2, t_fn_u, t_ptr, t_st, t_arr2, c_i, c_v, c_u, c_f,
          consts: vec![c_u, c_i, c_f, c_t, c_fl, c_v, c_n, c_2, c_2b, c_fb, c_n2, c_n3, c_tb, c_v2, c_a, c_unit],
          types: vec![t_void, t_bool, t_u32, t_i32, t_f32, t_v4, t_m4, t_arr, t_st, t_ptr, t_fn, t_fn2, t_arr2, t_void2, t_fn_u, t_unit] }
}

pub fn subset_module(rng: &mut Rng, body_ops: &[SInst]) -> Vec<SInst> {
    let mut s = subset_prelude(rng);
    let mut v = std::mem::take(&mut s.insts);
    let mut n = s.next;
    scale_reset_mod();
    let nf = 1 + rng.count_mod(2);
    for fi in 0..nf {
        let fid = n; n += 1;
        // the OpFunction's result type and the return type of its function type are sometimes different ids
        let (rt_f, ty_f) = match rng.below(4) { 0 => (s.t_void2, s.t_fn), 1 => (s.t_i32, s.t_fn_u), _ => (s.t_void, s.t_fn) };
        v.push(i(54, Some(rt_f), Some(fid), vec![SOp::one("FunctionControl", *rng.pick(&[0u32, 1, 2, 4, 8, 5, 12, 13, 15, 6, 9, 0x10000, 0x1000c])), idr(ty_f)]));
        let nb = 1 + rng.count_mod(3);
        let mut labels: Vec<u32> = vec![];
        let mut values_f: Vec<u32> = vec![];
        let mut pending_f: Vec<u32> = vec![];   // ids some phi already names, to be defined by a later instruction
        // values of pointer / struct / vector / array type, defined by block instructions
        let mut pools: Vec<(u32, Vec<u32>)> = vec![(s.t_ptr, vec![]), (s.t_st, vec![]), (s.t_v4, vec![]), (s.t_arr2, vec![])];
        for b in 0..nb {
            let l = n; n += 1;
            v.push(i(248, None, Some(l), vec![]));
            // phis first (their sources are values defined earlier, all of the same type)
            if b > 0 && values_f.len() >= 2 && rng.chance(1, 2) {
                for _ in 0..1 + rng.below(2) {
                    let p = n; n += 1;
                    v.push(i(245, Some(s.t_f32), Some(p), vec![idr(values_f[0]), idr(labels[0]), idr(values_f[1]), idr(labels[0])]));
                }
            }
            // loop-carried phis: a source defined LATER (in this block or a following one), a source that is itself a phi,
            // a constant source; incoming labels of blocks not seen yet
            if b > 0 && rng.chance(1, 2) {
                let late = n; n += 1;
                pending_f.push(late);
                let p = n; n += 1;
                v.push(i(245, Some(s.t_f32), Some(p), vec![idr(late), idr(l), idr(s.c_f), idr(labels[0])]));
                let q = n; n += 1;
                v.push(i(245, Some(s.t_f32), Some(q), vec![idr(p), idr(l + 1000), idr(late), idr(labels[0])]));
            }
            // phis of non-scalar types fed by values earlier instructions defined
            if b > 0 {
                for (t, vals) in pools.iter() {
                    if !vals.is_empty() && rng.chance(1, 2) {
                        let p = n; n += 1;
                        v.push(i(245, Some(*t), Some(p), vec![idr(*rng.pick(vals)), idr(labels[0]), idr(*rng.pick(vals)), idr(*rng.pick(&labels))]));
                    }
                }
            }
            // OpLine (skipped by the lifter) in front of the phis / between instructions
            let line_first = b > 0 && rng.chance(1, 3);
            if line_first { let at = v.iter().rposition(|x| x.op == 248).unwrap() + 1; v.insert(at, i(8, None, None, vec![idr(900), lit(1), lit(2)])); }
            let n_f = rng.count_mod(4) + if b + 1 == nb { pending_f.len() } else { 0 };
            for _ in 0..n_f {
                let r = match pending_f.pop() { Some(r) => r, None => { n += 1; n - 1 } };
                let a = if values_f.is_empty() || rng.chance(1, 2) { s.c_f } else { *rng.pick(&values_f) };
                let op = *rng.pick(&[129u32, 131, 133]); // FAdd FSub FMul
                v.push(i(op, Some(s.t_f32), Some(r), vec![idr(a), idr(s.c_f)]));
                values_f.push(r);
            }
            for _ in 0..rng.below(3) {
                let r = n; n += 1;
                match rng.below(4) {
                    0 => { v.push(i(59, Some(s.t_ptr), Some(r), vec![SOp::one("StorageClass", 7)])); pools[0].1.push(r); }
                    1 => { v.push(i(80, Some(s.t_st), Some(r), vec![idr(s.c_f), idr(s.c_i), idr(s.c_v)])); pools[1].1.push(r); }
                    2 => { v.push(i(80, Some(s.t_v4), Some(r), vec![idr(s.c_f), idr(s.c_f), idr(s.c_f), idr(s.c_f)])); pools[2].1.push(r); }
                    _ => { v.push(i(80, Some(s.t_arr2), Some(r), vec![idr(s.c_f), idr(s.c_f)])); pools[3].1.push(r); }
                }
            }
            // a phi that is NOT in the leading run of phis (after ordinary instructions)
            if b > 0 && values_f.len() >= 2 && rng.chance(1, 3) {
                let p = n; n += 1;
                v.push(i(245, Some(s.t_f32), Some(p), vec![idr(values_f[0]), idr(labels[0]), idr(values_f[1]), idr(labels[0])]));
            }
            if fi == 0 && b == 0 {
                for o in body_ops { let mut o = o.clone(); if o.rid.is_some() { o.rid = Some(n); n += 1; } v.push(o); }
            }
            // a non-switch terminator; branches only to blocks already seen (the lifter resolves jumps eagerly)
            let t = match rng.below(10) {
                6 => i(4416, None, None, vec![]),                       // OpTerminateInvocation
                7 => i(4448, None, None, vec![]),                       // OpIgnoreIntersectionKHR
                8 => i(4449, None, None, vec![]),                       // OpTerminateRayKHR
                9 => i(5294, None, None, vec![idr(s.c_u), idr(s.c_u), idr(s.c_u)]),   // OpEmitMeshTasksEXT x y z
                0 if !labels.is_empty() => i(249, None, None, vec![idr(*rng.pick(&labels))]),
                1 if !labels.is_empty() => i(250, None, None, vec![idr(s.consts[3]), idr(*rng.pick(&labels)), idr(*rng.pick(&labels))]),
                2 => i(252, None, None, vec![]), 3 => i(255, None, None, vec![]),
                4 if !values_f.is_empty() => i(254, None, None, vec![idr(*rng.pick(&values_f))]),
                _ => i(253, None, None, vec![]),
            };
            v.push(t);
            labels.push(l);
        }
        v.push(i(56, None, None, vec![]));
    }
    v
}

fn load(insts: &[SInst], version: u32) -> Option<dr::Module> {
    let mut ws: Vec<u32> = HEADER.to_vec();
    ws[1] = version;
    for x in insts { ws.extend(x.encode()); }
    // a loader panic is C04's business (it sees the same modules through drive-disasm / drive-loader)
    catch(|| dr::load_words(&ws)).ok().and_then(|r| r.ok())
}

pub fn drive(args: &[String]) {
    let g = Gram::load(arg(args, "--grammar").expect("--grammar"));
    let mut out = Out::create(arg(args, "--out").expect("--out"));
    let mut rng = Rng::new(arg_num(args, "--seed", 1));
    let n = arg_num(args, "--n", 200) as usize;
    for k in 0..n {
        let mut insts = subset_module(&mut rng, &[]);
        // ids are names: "declared before use" says nothing about their numeric order.  Every third module has its ids
        // renamed by a permutation (reversed / interleaved), in every position that holds an id.
        if k % 3 == 1 {
            let mx = insts.iter().flat_map(|x| x.rid.iter().chain(x.rt.iter()).cloned().chain(x.ops.iter().filter(|o| matches!(o.k.as_str(), "IdRef" | "IdScope" | "IdMemorySemantics")).map(|o| o.w[0]))).filter(|v| *v < 100000).max().unwrap_or(1);
            let rev = k % 2 == 0;
            let ren = |v: u32| -> u32 { if v == 0 || v > mx { v } else if rev { mx + 1 - v } else if v % 2 == 0 { v / 2 } else { mx / 2 + 1 + v / 2 } };
            for x in insts.iter_mut() {
                x.rid = x.rid.map(ren); x.rt = x.rt.map(ren);
                for o in x.ops.iter_mut() { if matches!(o.k.as_str(), "IdRef" | "IdScope" | "IdMemorySemantics") { o.w[0] = ren(o.w[0]); } }
            }
        }
        if let Some(mut m) = load(&insts, *rng.pick(&[0x0001_0000u32, 0x0001_0300, 0x0001_0600])) {
            // "preserves the version word": whatever the word holds (the loader normalises it, so it is set on the module)
            if rng.chance(1, 3) { if let Some(h) = m.header.as_mut() { h.version = *rng.pick(&[0x0001_0301u32, 0x0101_0300, 0xffff_ffff, 0, 0x0000_00ff]); } }
            // the id bound of the header is not part of the subset's definition (Builder::module_ref() leaves it 0)
            if rng.chance(1, 3) { if let Some(h) = m.header.as_mut() { h.bound = *rng.pick(&[0u32, 1, 5, 70000]); } }
            out.ev(lift_event(&m, "subset", None));
        }
    }
    // per-opcode positional mapping: every result-producing opcode whose operands are ids / integer literals only.
    // For each id operand the probe tries a plain id, then a type id, then a constant id and keeps the first that lifts.
    if args.iter().any(|a| a == "--probe") {
        for (&op, ig) in &g.insts {
            let has_rt = ig.ops.first().map(|o| o.k == "IdResultType").unwrap_or(false);
            let has_rid = ig.ops.iter().take(2).any(|o| o.k == "IdResult");
            if !has_rid || ig.name.starts_with("Type") || ig.name.contains("Constant") || matches!(op, 54 | 55 | 56 | 248 | 245 | 59 | 1 | 12 | 4433) { continue; }
            let rest: Vec<&LOp> = ig.ops.iter().filter(|o| o.k != "IdResultType" && o.k != "IdResult").collect();
            let plain_enum = |k: &str| -> Option<u32> { match g.kinds.get(k) {
                Some(KindG::ValueEnum { values }) => values.iter().find(|v| v.1.is_empty()).map(|v| v.0),
                Some(KindG::BitEnum { bits, .. }) => Some(bits.iter().filter(|b| b.1.is_empty()).map(|b| b.0).next().unwrap_or(0)),
                _ => None } };
            if !rest.iter().all(|o| matches!(o.k.as_str(), "IdRef" | "IdScope" | "IdMemorySemantics" | "LiteralInteger") || plain_enum(&o.k).is_some()) { continue; }
            let mut prng = Rng::new(op as u64);
            let pre = subset_prelude(&mut prng);
            let npos = rest.iter().filter(|o| o.q != "ZeroOrMore").count() + rest.iter().filter(|o| o.q == "ZeroOrMore").count() * 2;
            let mut roles = vec![0usize; npos]; // 0 plain, 1 type, 2 constant
            let mut best: Option<Value> = None;
            let mut extra: Option<Value> = None;
            'search: for attempt in 0..(1 + 2 * npos) {
                let mut ops = vec![];
                let mut pos = 0;
                for lo in &rest {
                    let reps = if lo.q == "ZeroOrMore" { 2 } else { 1 };
                    for _ in 0..reps {
                        if lo.k == "LiteralInteger" { ops.push(lit(40 + pos as u32)); }
                        else if let Some(v) = plain_enum(&lo.k) { ops.push(SOp::one(&lo.k, v)); }
                        else {
                            let idv = match roles[pos] { 0 => 900 + pos as u32, 1 => pre.types[(3 + pos) % pre.types.len()], _ => pre.consts[pos % 3] };
                            ops.push(SOp::one(&lo.k, idv));
                        }
                        pos += 1;
                    }
                }
                let body = vec![SInst { op, rt: if has_rt { Some(pre.t_f32) } else { None }, rid: Some(0), ops }];
                let mut r2 = Rng::new(op as u64);
                let insts = subset_module(&mut r2, &body);
                if let Some(m) = load(&insts, 0x0001_0300) {
                    let ev = lift_event(&m, "probe", Some(op));
                    if ev["st"] == "ok" {
                        if body[0].ops.iter().any(|o| matches!(g.kinds.get(&o.k), Some(KindG::BitEnum { .. })) && o.w[0] != 0) {
                            let mut b0 = body.clone();
                            for o in b0[0].ops.iter_mut() { if matches!(g.kinds.get(&o.k), Some(KindG::BitEnum { .. })) { o.w[0] = 0; } }
                            let mut r3 = Rng::new(op as u64);
                            if let Some(m0) = load(&subset_module(&mut r3, &b0), 0x0001_0300) { extra = Some(lift_event(&m0, "probe", Some(op))); }
                        }
                    }
                    if ev["st"] == "ok" { best = Some(ev); break 'search; }
                    if best.is_none() { best = Some(ev); }
                }
                // next role assignment: bump one position at a time
                if attempt < 2 * npos { let p = attempt / 2; roles[p] = 1 + attempt % 2; if p > 0 && attempt % 2 == 0 { /* keep earlier choices */ } }
            }
            if let Some(ev) = best { out.ev(ev); }
            if let Some(ev) = extra { out.ev(ev); }
        }
    }
    let events = out.finish();
    println!("{}", json!({"events": events}));
}
