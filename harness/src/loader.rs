//! Loader driver (C05, C01; feeds C04/C07/C20): instruction sequences fed to a real
//! `dr::Loader` directly (per-instruction outcome) and through `load_words` (whole binaries),
//! then re-assembled and re-loaded.
use crate::ggen::*;
use crate::parser::{j_state, HEADER};
use crate::proj::*;
use crate::util::*;
use rspirv::binary::{Assemble, Consumer, ParseAction, ParseState};
use rspirv::dr;
use serde_json::{json, Value};
use std::io::BufRead;

/// the variant of a consumer error raised by the Loader (by generated match; foreign error types: "Foreign")
fn err_name(e: &Box<dyn std::error::Error + Send + Sync>) -> String {
    match e.downcast_ref::<dr::Error>() { Some(le) => crate::gen::errors::loader_err_name(le).to_string(), None => "Foreign".to_string() }
}

/// Feed the instructions one by one to a fresh Loader.
pub fn load_direct(insts: &[SInst]) -> Value {
    let r = catch(|| {
        // both public constructors must behave alike
        let mut l = if insts.len() % 2 == 0 { dr::Loader::new() } else { dr::Loader::default() };
        if let ParseAction::Error(e) = l.initialize() {
            return json!({"st": "err", "e": err_name(&e), "at": 0, "m": []});
        }
        for (j, si) in insts.iter().enumerate() {
            let di = match si.to_dr() {
                Some(d) => d,
                None => return json!({"st": "unbuildable", "e": "", "at": j + 1, "m": []}),
            };
            match l.consume_instruction(di) {
                ParseAction::Continue => {}
                ParseAction::Stop => return json!({"st": "err", "e": "Stop", "at": j + 1, "m": []}),
                ParseAction::Error(e) => return json!({"st": "err", "e": err_name(&e), "at": j + 1, "m": []}),
            }
        }
        match l.finalize() {
            ParseAction::Continue => json!({"st": "ok", "e": "", "at": 0, "m": [j_module(&l.module())]}),
            ParseAction::Stop => json!({"st": "err", "e": "Stop", "at": insts.len() + 1, "m": []}),
            ParseAction::Error(e) => json!({"st": "err", "e": err_name(&e), "at": insts.len() + 1, "m": []}),
        }
    });
    match r {
        Ok(v) => v,
        Err(p) => json!({"st": "panic", "e": jpanic(&p)[1], "at": 0, "m": [], "file": jpanic(&p)[2]}),
    }
}

pub fn load_err_name(s: &ParseState) -> String {
    match s {
        ParseState::ConsumerError(e) => err_name(e),
        other => format!("Parse:{}", j_state(&Err(clone_state(other)))[1].as_str().unwrap_or("?")),
    }
}
fn clone_state(s: &ParseState) -> ParseState {
    // ParseState is not Clone; only the kind is needed here
    match s {
        ParseState::Complete => ParseState::Complete,
        ParseState::ConsumerStopRequested => ParseState::ConsumerStopRequested,
        ParseState::HeaderIncorrect => ParseState::HeaderIncorrect,
        ParseState::EndiannessUnsupported => ParseState::EndiannessUnsupported,
        ParseState::WordCountZero(a, b) => ParseState::WordCountZero(*a, *b),
        ParseState::OpcodeUnknown(a, b, c) => ParseState::OpcodeUnknown(*a, *b, *c),
        ParseState::OperandExpected(a, b) => ParseState::OperandExpected(*a, *b),
        ParseState::OperandExceeded(a, b) => ParseState::OperandExceeded(*a, *b),
        ParseState::TypeUnsupported(a, b) => ParseState::TypeUnsupported(*a, *b),
        ParseState::SpecConstantOpIntegerIncorrect(a, b) => ParseState::SpecConstantOpIntegerIncorrect(*a, *b),
        _ => ParseState::HeaderIncorrect,
    }
}

/// load_words of a whole binary, then assemble, then load the output again.
pub fn load_words_event(ws: &[u32]) -> Value { load_via_event(ws, "words", &[]) }
/// the same through another entry point that must do the same job: "bytes" = dr::load_bytes of the words' bytes followed by
/// `tail` (1-3 bytes that are not a word), "default" = a Loader::default() driven by parse_words
pub fn load_via_event(ws: &[u32], via: &str, tail: &[u8]) -> Value {
    let r = catch(|| match via {
        "bytes" => { let mut b = crate::parser::words_to_bytes(ws); b.extend_from_slice(tail); dr::load_bytes(&b) }
        "default" => { let mut l = dr::Loader::default(); rspirv::binary::parse_words(ws, &mut l).map(|_| l.module()) }
        // "reuse": a Loader that already consumed a binary ending in a structural error is handed the binary; whatever it
        // makes of it (leftovers of the first input included) is not judged - only that nothing panics
        "reuse" => {
            let f = [(5u32 << 16) | 54, 1, 2, 0, 3]; let l_ = [(2u32 << 16) | 248, 4]; let e = [(1u32 << 16) | 56]; let r = [(1u32 << 16) | 253];
            let firsts: Vec<Vec<u32>> = vec![[&f[..], &l_[..], &e[..]].concat(), [&f[..], &l_[..]].concat(), [&f[..], &e[..], &e[..]].concat(), [&l_[..]].concat(), [&f[..], &l_[..], &r[..], &r[..]].concat(), [&f[..], &f[..]].concat()];
            for first in firsts {
                let mut l = dr::Loader::new();
                let mut b1: Vec<u32> = HEADER.to_vec(); b1.extend(first);
                let _ = rspirv::binary::parse_words(&b1, &mut l);
                let _ = rspirv::binary::parse_words(ws, &mut l);
                let mut tail: Vec<u32> = HEADER.to_vec(); tail.extend(r); tail.extend(e);
                let _ = rspirv::binary::parse_words(&tail, &mut l);
            }
            Err(rspirv::binary::ParseState::ConsumerStopRequested)
        }
        _ => dr::load_words(ws),
    });
    match r {
        Err(p) => json!({"st": "panic", "e": jpanic(&p)[1], "file": jpanic(&p)[2], "m": [], "out_st": "none", "out": [], "re_st": "none", "re": []}),
        Ok(Err(s)) => json!({"st": "err", "e": load_err_name(&s), "m": [], "out_st": "none", "out": [], "re_st": "none", "re": []}),
        Ok(Ok(m)) => {
            let out = catch(|| m.assemble());
            match out {
                Err(p) => json!({"st": "ok", "e": "", "m": [j_module(&m)], "out_st": "panic", "out": [], "re_st": "none", "re": [], "panic": jpanic(&p)}),
                Ok(ow) => {
                    let re = catch(|| dr::load_words(&ow));
                    let (re_st, rem) = match re {
                        Err(_) => ("panic", json!([])),
                        Ok(Err(_)) => ("err", json!([])),
                        Ok(Ok(m2)) => ("ok", json!([j_module(&m2)])),
                    };
                    json!({"st": "ok", "e": "", "m": [j_module(&m)], "out_st": "ok", "out": jws(&ow), "re_st": re_st, "re": rem})
                }
            }
        }
    }
}

pub fn load_event(insts: &[SInst], version: u32, bound: u32, tag: &str, layout: bool) -> Value {
    let mut ws: Vec<u32> = HEADER.to_vec();
    ws[1] = version;
    ws[3] = bound;
    for i in insts { ws.extend(i.encode()); }
    json!({"ev": "load", "tag": tag, "layout": layout, "insts": Value::Array(insts.iter().map(|i| i.to_json()).collect()),
           "in_version": jw(version), "in_bound": jw(bound), "in_words": jws(&ws),
           "direct": load_direct(insts), "words": load_words_event(&ws)})
}

// --------------------------------------------------------------------------------------------
// class representatives (only used to CHOOSE inputs; the verdict uses SpecFacts!LoaderClass)
pub fn class_ops(c: &str) -> &'static [u32] {
    match c {
        "Cap" => &[17], "Ext" => &[10], "Import" => &[11], "MemModel" => &[14], "Entry" => &[15],
        "ExecMode" => &[16, 331], "DbgStr" => &[7, 4, 3, 2], "DbgName" => &[5, 6], "ModProc" => &[330],
        "Annot" => &[71, 72, 73, 74, 75, 332, 5632, 5633],
        "TypeConst" => &[19, 20, 21, 22, 23, 24, 25, 26, 27, 28, 29, 30, 31, 32, 33, 34, 35, 36, 37, 38, 39, 322, 327, 4417, 4456, 4472, 5341,
                         41, 42, 43, 44, 45, 46, 48, 49, 50, 51, 52, 4461, 4462],
        "Line" => &[8, 317], "VarOrUndef" => &[59, 1], "Fn" => &[54], "Param" => &[55], "FnEnd" => &[56], "Label" => &[248],
        "Term" => &[249, 250, 251, 252, 253, 254, 255, 4416, 4448, 4449, 5294],
        "BlockInst" => &[0, 61, 62, 128, 129, 57, 65, 79, 81, 83, 87, 124, 245, 246, 247, 256, 257, 224, 400, 5380, 4450],
        _ => &[0],
    }
}

pub fn class_inst(g: &Gram, c: &str, rng: &mut Rng, ctx: &mut Ctx) -> SInst {
    let gen = Gen { g };
    let op = *rng.pick(class_ops(c));
    // keep context-dependent literals self-contained (no declaration is emitted along): undeclared type => one word
    let mut local = Ctx::new();
    local.next_id = ctx.next_id;
    NO_CTX.with(|c| c.set(true));
    let i = gen.inst(op, rng, &mut local, &Plan::random());
    NO_CTX.with(|c| c.set(false));
    ctx.next_id = local.next_id;
    assert!(local.decls.is_empty(), "vh: class_inst must not need declarations");
    i
}

fn suite_classes(g: &Gram, out: &mut Out, rng: &mut Rng, path: &str, reps: usize) {
    let f = std::io::BufReader::new(std::fs::File::open(path).expect("histories"));
    for line in f.lines() {
        let line = line.unwrap();
        if line.trim().is_empty() { continue; }
        let v: Value = serde_json::from_str(&line).unwrap();
        let classes: Vec<String> = v["classes"].as_array().unwrap().iter().map(|c| c.as_str().unwrap().to_string()).collect();
        for _ in 0..reps {
            let mut ctx = Ctx::new();
            let insts: Vec<SInst> = classes.iter().map(|c| class_inst(g, c, rng, &mut ctx)).collect();
            out.ev(load_event(&insts, if rng.chance(3, 4) { 0x0001_0300 } else { ((rng.below(256) as u32) << 16) | ((rng.below(256) as u32) << 8) }, 1 + rng.below(500) as u32, "model", false));
        }
    }
}

/// every opcode in the three contexts (module level / in function outside a block / in a block)
fn suite_sweep(g: &Gram, out: &mut Out, rng: &mut Rng) {
    let gen = Gen { g };
    // declaration-free instructions (nothing else is emitted along with them)
    let mk = |op: u32, rng: &mut Rng| -> SInst {
        let mut c = Ctx::new();
        NO_CTX.with(|x| x.set(true));
        let i = gen.inst(op, rng, &mut c, &Plan::random());
        NO_CTX.with(|x| x.set(false));
        assert!(c.decls.is_empty(), "vh: sweep instruction must not need declarations");
        i
    };
    let f = |rng: &mut Rng| mk(54, rng);
    for &op in g.insts.keys() {
        let x = mk(op, rng);
        out.ev(load_event(&[x.clone()], 0x0001_0000, 9, "sweep-global", false));
        out.ev(load_event(&[f(rng), x.clone(), mk(248, rng), mk(253, rng), mk(56, rng)], 0x0001_0000, 9, "sweep-function", false));
        out.ev(load_event(&[f(rng), mk(248, rng), x.clone(), mk(253, rng), mk(56, rng)], 0x0001_0000, 9, "sweep-block", false));
        // inside a function, after a block has been closed; and in the second block of a function
        out.ev(load_event(&[f(rng), mk(248, rng), mk(253, rng), x.clone(), mk(56, rng)], 0x0001_0000, 9, "sweep-after-block", false));
        out.ev(load_event(&[f(rng), mk(248, rng), mk(253, rng), mk(248, rng), x.clone(), mk(253, rng), mk(56, rng)], 0x0001_0000, 9, "sweep-second-block", false));
    }
}

/// A random loadable module: sections in layout order (or shuffled), functions with blocks.
pub fn is_vendor_name(n: &str) -> bool {
    ["NV", "INTEL", "AMD", "AMDX", "ARM", "QCOM", "HUAWEI", "NVX", "ALTERA"].iter().any(|s| n.ends_with(s))
}
pub fn random_loadable(g: &Gram, rng: &mut Rng, shuffle: bool, max_fns: usize) -> (Vec<SInst>, bool) {
    let mut ctx = Ctx::new();
    scale_reset_mod();
    let mut vendor_budget = 3; // each unclassified (vendor) opcode doubles the outcomes the spec must consider
    let order = ["Cap", "Ext", "Import", "MemModel", "Entry", "ExecMode", "DbgStr", "DbgName", "ModProc", "Annot", "TypeConst"];
    let mut globals: Vec<SInst> = vec![];
    let mut layout = true;
    for c in order {
        let n = if c == "MemModel" { rng.below(2) } else { rng.count_mod(4) };
        for _ in 0..n {
            if c == "TypeConst" && rng.chance(1, 4) {
                let k = *rng.pick(&["VarOrUndef", "Line", "TypeConst"]);
                globals.push(class_inst(g, k, rng, &mut ctx));
            } else {
                globals.push(class_inst(g, c, rng, &mut ctx));
            }
        }
    }
    // repeated declarations (the same capability / extension / name twice) are legal and must all survive
    if !globals.is_empty() && rng.chance(1, 2) {
        let j = rng.below(globals.len());
        let dup = globals[j].clone();
        if dup.op != 14 { globals.insert(j + if rng.chance(1, 2) { 1 } else { 0 }, dup); }
    }
    if shuffle && globals.len() > 1 {
        layout = false;
        for i in (1..globals.len()).rev() { let j = rng.below(i + 1); globals.swap(i, j); }
    }
    let mut insts = globals;
    let nf = rng.count_mod(max_fns + 1);
    for _ in 0..nf {
        insts.push(class_inst(g, "Fn", rng, &mut ctx));
        for _ in 0..rng.count_mod(3) { insts.push(class_inst(g, "Param", rng, &mut ctx)); }
        for _ in 0..rng.count_mod(4) {
            insts.push(class_inst(g, "Label", rng, &mut ctx));
            for _ in 0..rng.count_mod(5) {
                let k = match rng.below(12) { 0 => "VarOrUndef", 1 => "Line", _ => "BlockInst" };
                if k == "BlockInst" && rng.chance(1, 2) {
                    // any non-module-level, non-structural opcode
                    let ops: Vec<u32> = g.insts.keys().cloned().collect();
                    let gen = Gen { g };
                    let op = *rng.pick(&ops);
                    let mut c2 = Ctx::new();
                    let i = gen.inst(op, rng, &mut c2, &Plan::random());
                    let vendor = is_vendor_name(&g.insts[&op].name) || op == 12 || op == 4433 || op == 4418;
                    if vendor && vendor_budget == 0 { continue; }
                    if c2.decls.is_empty() && !is_structural(op) {
                        if vendor { vendor_budget -= 1; layout = false; } // the loader may file it elsewhere
                        insts.push(i);
                        continue;
                    }
                }
                insts.push(class_inst(g, k, rng, &mut ctx));
            }
            insts.push(class_inst(g, "Term", rng, &mut ctx));
        }
        if shuffle && rng.chance(1, 3) {
            // module-level instructions inside a function: legal for the loader, not layout order
            insts.push(class_inst(g, *rng.pick(&["DbgName", "Annot", "TypeConst", "Cap"]), rng, &mut ctx));
            layout = false;
        }
        insts.push(class_inst(g, "FnEnd", rng, &mut ctx));
        if shuffle && rng.chance(1, 3) {
            insts.push(class_inst(g, *rng.pick(&["DbgName", "Annot", "TypeConst", "Entry"]), rng, &mut ctx));
            layout = false;
        }
    }
    (insts, layout)
}
fn is_structural(op: u32) -> bool {
    // opcodes that change the bracket structure or are module-level by opcode; the random "any opcode"
    // block filler avoids them so that the generated module stays loadable
    matches!(op, 54 | 55 | 56 | 248 | 249 | 250 | 251 | 252 | 253 | 254 | 255 | 4416 | 4448 | 4449 | 5294
        | 17 | 10 | 11 | 14 | 15 | 16 | 331 | 7 | 4 | 3 | 2 | 5 | 6 | 330 | 71 | 72 | 73 | 74 | 75 | 332 | 5632 | 5633 | 8 | 317 | 59 | 1
        | 19..=39 | 41..=52 | 322 | 327 | 4417 | 4456 | 4472 | 5341 | 4461 | 4462)
}

/// every enumerant / mask bit of every enum-kinded operand once, inside loadable modules (C01: values must survive)
fn suite_enums(g: &Gram, out: &mut Out, rng: &mut Rng) {
    let gen = Gen { g };
    let mut seen: std::collections::HashSet<(String, u32)> = Default::default();
    let mut batch: Vec<SInst> = vec![];
    let flush = |batch: &mut Vec<SInst>, out: &mut Out, rng: &mut Rng| {
        if batch.is_empty() { return; }
        let mut c = Ctx::new();
        let mut v = vec![class_inst(g, "Fn", rng, &mut c), class_inst(g, "Label", rng, &mut c)];
        v.append(batch);
        v.push(SInst { op: 253, rt: None, rid: None, ops: vec![] });
        v.push(SInst { op: 56, rt: None, rid: None, ops: vec![] });
        out.ev(load_event(&v, 0x0001_0500, 99, "enum-sweep", false));
    };
    for (&op, ig) in &g.insts {
        if is_structural(op) && !matches!(op, 17 | 10 | 11 | 15 | 16 | 331 | 3 | 71 | 72 | 332 | 5632 | 5633 | 19..=39 | 41..=52) { continue; }
        if matches!(op, 54 | 55 | 56 | 248 | 249 | 250 | 251 | 252 | 253 | 254 | 255 | 4416 | 4448 | 4449 | 5294 | 14) || g.has_context_kind(op) { continue; }
        for (idx, lo) in ig.ops.iter().enumerate() {
            let vals: Vec<u32> = match g.kinds.get(&lo.k) {
                Some(KindG::ValueEnum { values }) => values.iter().map(|x| x.0).collect(),
                Some(KindG::BitEnum { all, bits }) => { let mut x = vec![0, *all]; x.extend(bits.iter().map(|b| b.0)); x }
                _ => continue,
            };
            for val in vals {
                if !seen.insert((lo.k.clone(), val)) { continue; }
                let mut forced = std::collections::HashMap::new();
                forced.insert(idx, val);
                let mut c = Ctx::new();
                let i = gen.inst(op, rng, &mut c, &Plan { optionals: Some(ig.ops.iter().filter(|o| o.q == "ZeroOrOne").count()), variadic: Some(1), forced });
                if !c.decls.is_empty() { continue; }
                batch.push(i);
                if batch.len() >= 10 { flush(&mut batch, out, rng); }
            }
        }
    }
    flush(&mut batch, out, rng);
}

fn suite_random(g: &Gram, out: &mut Out, rng: &mut Rng, n: usize) {
    for k in 0..n {
        let shuffle = k % 2 == 1;
        let (insts, layout) = random_loadable(g, rng, shuffle, 3);
        // "a header carrying the input's version": any major.minor byte pair (word 0x00MMmm00), the released ones most often
        let version = if rng.chance(1, 2) { *rng.pick(&[0x0001_0000u32, 0x0001_0300, 0x0001_0600]) }
                      else { let b = [0u32, 1, 2, 6, 9, 15, 16, 17, 31, 32, 64, 127, 128, 200, 255]; (*rng.pick(&b) << 16) | (*rng.pick(&b) << 8) };
        out.ev(load_event(&insts, version, rng.below(100000) as u32, if layout { "random-layout" } else { "random-shuffled" }, layout));
        // a structural fault somewhere
        if !insts.is_empty() && rng.chance(1, 2) {
            let mut bad = insts.clone();
            let j = rng.below(bad.len());
            match rng.below(3) {
                0 => { bad.remove(j); }
                1 => { let c = *rng.pick(&["Fn", "FnEnd", "Label", "Term", "Param", "BlockInst", "VarOrUndef"]); let mut cx = Ctx::new(); bad.insert(j, class_inst(g, c, rng, &mut cx)); }
                _ => { bad.truncate(j); }
            }
            out.ev(load_event(&bad, version, 7, "random-faulty", false));
        }
    }
}

/// C01 on arbitrary binaries: whatever the real loader accepts must come back word-identical when the
/// input is in layout order, and must be a fixed point of load-assemble.  Inputs here carry literal
/// strings that are not UTF-8, have garbage after the terminator, or were mutated (the loader decides
/// whether it accepts them; rejected inputs are outside C01).
fn suite_raw(g: &Gram, out: &mut Out, rng: &mut Rng, n: usize) {
    let bad_strings: Vec<Vec<u8>> = vec![vec![0xff], vec![b'a', 0x80, b'b'], vec![0xc3], vec![0xe2, 0x82], vec![b'o', b'k', 0xf0, 0x9f, 0x98], vec![0xed, 0xa0, 0x80], vec![0xc0, 0xaf]];
    // a binary that breaks off inside an open block / an open function and is followed by zero words (padding): not a
    // module - if the loader nevertheless accepts it, the instructions of the unfinished function are lost (C01: none
    // dropped; C05: not well-bracketed)
    for (j, body) in [vec![(5u32 << 16) | 54, 9001, 9002, 0, 9003, (2 << 16) | 248, 9004, 1 << 16],
                      vec![(5 << 16) | 54, 9001, 9002, 0, 9003],
                      vec![(2 << 16) | 17, 1, (5 << 16) | 54, 9001, 9002, 0, 9003, (2 << 16) | 248, 9004, (1 << 16) | 253, (2 << 16) | 248, 9005]].iter().enumerate() {
        for zeros in 1..4usize {
            let mut ws: Vec<u32> = HEADER.to_vec();
            ws[3] = 9100;
            ws.extend(body.iter());
            ws.extend(std::iter::repeat(0u32).take(zeros));
            let via = if (j + zeros) % 2 == 0 { load_words_event(&ws) } else { load_via_event(&ws, "bytes", &[]) };
            out.ev(json!({"ev": "rawload", "tag": "raw-zerotail", "layout": true, "in_words": jws(&ws), "in_version": jw(ws[1]), "in_bound": jw(ws[3]), "words": via}));
        }
    }
    for k in 0..n {
        let (mut insts, layout) = random_loadable(g, rng, false, 2);
        let mut tag = "raw-plain";
        // replace one string operand by non-UTF-8 bytes
        let with_str: Vec<usize> = insts.iter().enumerate().filter(|(_, i)| i.ops.iter().any(|o| o.s.is_some())).map(|(j, _)| j).collect();
        if !with_str.is_empty() && k % 3 != 2 {
            let j = *rng.pick(&with_str);
            for o in insts[j].ops.iter_mut() { if o.s.is_some() { o.s = Some(rng.pick(&bad_strings).clone()); break; } }
            tag = "raw-nonutf8";
        }
        // an undeclared bit in a mask operand / an undeclared value of an enum operand: if the loader accepts the binary
        // (the pinned tree does not), the word must still come back as it went in
        if k % 5 == 4 {
            let mut sites: Vec<(usize, usize, u32)> = vec![];
            for (j, i) in insts.iter().enumerate() { for (oi, o) in i.ops.iter().enumerate() {
                match g.kinds.get(&o.k) {
                    Some(KindG::BitEnum { all, .. }) => { for b in [0x4000_0000u32, 0x0080_0000, 0x8000_0000] { if all & b == 0 { sites.push((j, oi, o.w[0] | b)); break; } } }
                    Some(KindG::ValueEnum { values }) => { let v = 0x0000_7ff0 + (k as u32 % 7); if !values.iter().any(|x| x.0 == v) { sites.push((j, oi, v)); } }
                    _ => {}
                }
            } }
            if !sites.is_empty() { let (j, oi, w) = *rng.pick(&sites); insts[j].ops[oi].w[0] = w; tag = "raw-undeclared"; }
        }
        let mut ws: Vec<u32> = HEADER.to_vec();
        ws[3] = rng.below(5000) as u32;
        for i in &insts { ws.extend(i.encode()); }
        if k % 3 == 2 && !with_str.is_empty() {
            // garbage in the padding bytes after a string terminator: tolerated difference
            tag = "raw-padnoise";
        }
        out.ev(json!({"ev": "rawload", "tag": tag, "layout": layout && tag != "raw-padnoise", "in_words": jws(&ws), "in_version": jw(ws[1]), "in_bound": jw(ws[3]),
                      "words": load_words_event(&ws)}));
        // the other entry points of the loader on the same binary: load_bytes (also with 1-3 trailing bytes, which are not an
        // instruction and must not become one) and a Loader::default() driven by parse_words
        if tag == "raw-plain" || k % 4 == 0 {
            let tails: [&[u8]; 6] = [&[], &[0, 0, 1], &[0x3d, 1, 1], &[0, 0], &[0], &[0xff, 0xff, 0xff]];
            let t = tails[k % tails.len()];
            out.ev(json!({"ev": "rawload", "tag": "raw-bytes", "layout": layout && tag != "raw-padnoise", "in_words": jws(&ws), "in_version": jw(ws[1]), "in_bound": jw(ws[3]),
                          "words": load_via_event(&ws, "bytes", t)}));
            out.ev(json!({"ev": "rawload", "tag": "raw-default", "layout": layout && tag != "raw-padnoise", "in_words": jws(&ws), "in_version": jw(ws[1]), "in_bound": jw(ws[3]),
                          "words": load_via_event(&ws, "default", &[])}));
            if k % 8 == 0 {
                out.ev(json!({"ev": "rawload", "tag": "raw-reuse", "layout": false, "in_words": jws(&ws), "in_version": jw(ws[1]), "in_bound": jw(ws[3]),
                              "words": load_via_event(&ws, "reuse", &[])}));
            }
        }
    }
}

/// An undeclared bit in the mask operand / an undeclared value of the enum operand of one instruction per kind, at module
/// level and inside a block: if the loader accepts such a binary (the pinned tree rejects it), the word must come back.
fn suite_undeclared(g: &Gram, out: &mut Out, rng: &mut Rng) {
    let gen = Gen { g };
    let mut kinds: Vec<&String> = g.kinds.keys().collect();
    kinds.sort();
    for kind in kinds {
        let bad: u32 = match &g.kinds[kind] {
            KindG::BitEnum { all, .. } => { let free = !*all; if free == 0 { continue; } 0x8000_0000u32 >> (free.leading_zeros()) }
            KindG::ValueEnum { values } => values.iter().map(|v| v.0).max().unwrap_or(0) + 1,
            KindG::Other => continue,
        };
        let Some((op, idx)) = site_of_kind(g, kind) else { continue };
        let mut ctx = Ctx::new();
        let mut plan = Plan { optionals: Some(usize::MAX), variadic: Some(1), forced: Default::default() };
        let base = match &g.kinds[kind] { KindG::BitEnum { .. } => 0, KindG::ValueEnum { values } => values[0].0, _ => 0 };
        plan.forced.insert(idx, base);
        NO_CTX.with(|c| c.set(true));
        let mut inst = gen.inst(op, rng, &mut ctx, &plan);
        NO_CTX.with(|c| c.set(false));
        if !ctx.decls.is_empty() { continue; }
        // only when the declared value has no parameters does replacing the word keep the instruction's shape
        if !gen.params_of(kind, base).is_empty() { continue; }
        let Some(o) = inst.ops.iter_mut().find(|o| &o.k == kind) else { continue };
        o.w[0] = if matches!(&g.kinds[kind], KindG::BitEnum { .. }) { o.w[0] | bad } else { bad };
        for in_block in [false, true] {
            let mut ws: Vec<u32> = HEADER.to_vec();
            ws[3] = 4000;
            if in_block { ws.extend([(5 << 16) | 54, 9001, 9002, 0, 9003, (2 << 16) | 248, 9004]); }
            ws.extend(inst.encode());
            if in_block { ws.extend([(1 << 16) | 253, (1 << 16) | 56]); }
            out.ev(json!({"ev": "rawload", "tag": "raw-undeclared", "layout": !(in_block && is_structural(op)), "in_words": jws(&ws), "in_version": jw(ws[1]), "in_bound": jw(ws[3]),
                          "words": load_words_event(&ws)}));
        }
    }
}

/// Context-dependent literals of every declared width with boundary bit patterns (high bits set above a narrow
/// type's width, sign bits, all ones): OpConstant / OpSpecConstant after their type, OpSwitch on typed selectors.
/// Layout-ordered, so the round trip must be word-identical.
fn suite_literals(out: &mut Out, rng: &mut Rng) {
    let pats32 = [0u32, 1, 0x7f, 0x80, 0xff, 0x100, 0x7fff, 0x8000, 0xffff, 0x0001_0000, 0x0001_00ff, 0xffff_8000, 0xffff_ff80, 0x7fff_ffff, 0x8000_0000, 0xffff_ffff, 0x3f80_0000];
    for &(is_int, w, signed) in &[(true, 8u32, 0u32), (true, 8, 1), (true, 16, 0), (true, 16, 1), (true, 32, 0), (true, 32, 1), (true, 64, 0), (true, 64, 1), (false, 16, 0), (false, 32, 0), (false, 64, 0)] {
        let mut insts = vec![];
        let t = 1u32;
        insts.push(if is_int { SInst { op: 21, rt: None, rid: Some(t), ops: vec![SOp::one("LiteralBit32", w), SOp::one("LiteralBit32", signed)] } }
                   else { SInst { op: 22, rt: None, rid: Some(t), ops: vec![SOp::one("LiteralBit32", w)] } });
        let mut id = 2u32;
        let lit = |p: u32, rng: &mut Rng| if w == 64 { SOp { k: "LiteralBit64".into(), w: vec![p, if p & 1 == 0 { p ^ 0xffff_0000 } else { rng.word() }], s: None } } else { SOp::one("LiteralBit32", p) };
        for &p in &pats32 {
            insts.push(SInst { op: if id % 2 == 0 { 43 } else { 50 }, rt: Some(t), rid: Some(id), ops: vec![lit(p, rng)] });
            id += 1;
        }
        // a function whose block switches on a value of that type (selector = an OpUndef defined in the block)
        let (tv, tf, f, l, u) = (id, id + 1, id + 2, id + 3, id + 4);
        insts.push(SInst { op: 19, rt: None, rid: Some(tv), ops: vec![] });
        insts.push(SInst { op: 33, rt: None, rid: Some(tf), ops: vec![SOp::one("IdRef", tv)] });
        insts.push(SInst { op: 54, rt: Some(tv), rid: Some(f), ops: vec![SOp::one("FunctionControl", 0), SOp::one("IdRef", tf)] });
        insts.push(SInst { op: 248, rt: None, rid: Some(l), ops: vec![] });
        insts.push(SInst { op: 1, rt: Some(t), rid: Some(u), ops: vec![] });
        let mut sw = vec![SOp::one("IdRef", u), SOp::one("IdRef", l)];
        for &p in &[0x80u32, 0xffff_8000, 0xffff_ffff, 0x0001_00ff] { sw.push(lit(p, rng)); sw.push(SOp::one("IdRef", l)); }
        insts.push(SInst { op: 251, rt: None, rid: None, ops: sw });
        insts.push(SInst { op: 56, rt: None, rid: None, ops: vec![] });
        out.ev(load_event(&insts, 0x0001_0500, 200, "literals", true));
    }
}

pub fn drive(args: &[String]) {
    let g = Gram::load(arg(args, "--grammar").expect("--grammar"));
    let mut out = Out::create(arg(args, "--out").expect("--out"));
    let mut rng = Rng::new(arg_num(args, "--seed", 1));
    let n = arg_num(args, "--n", 100) as usize;
    match arg(args, "--suite").unwrap_or("random") {
        "classes" => suite_classes(&g, &mut out, &mut rng, arg(args, "--histories").expect("--histories"), arg_num(args, "--reps", 1) as usize),
        "sweep" => suite_sweep(&g, &mut out, &mut rng),
        "random" => suite_random(&g, &mut out, &mut rng, n),
        "raw" => { suite_undeclared(&g, &mut out, &mut rng); suite_raw(&g, &mut out, &mut rng, n) }
        "enums" => suite_enums(&g, &mut out, &mut rng),
        "literals" => suite_literals(&mut out, &mut rng),
        "replay" => {
            let f = std::io::BufReader::new(std::fs::File::open(arg(args, "--histories").expect("--histories")).unwrap());
            for line in f.lines() {
                let line = line.unwrap();
                if line.trim().is_empty() { continue; }
                let v: Value = serde_json::from_str(&line).unwrap();
                let insts: Vec<SInst> = v["insts"].as_array().unwrap().iter().map(SInst::from_json).collect();
                out.ev(load_event(&insts, unw(&v["in_version"]), unw(&v["in_bound"]), "replay", v["layout"].as_bool().unwrap_or(false)));
            }
        }
        other => panic!("vh: unknown loader suite {}", other),
    }
    let events = out.finish();
    println!("{}", json!({"events": events}));
}
