//! vh: the Rust side of the /verif conformance machinery.
//! Drives the real rspirv code through its public API, records NDJSON events
//! (panics are data), and replays TLC-generated histories.
#![allow(clippy::all)]
#![allow(non_snake_case)]
#![allow(dead_code)]
#![allow(unused_imports)]
mod util;
mod gen {
    pub mod enums;
    pub mod operands;
    pub mod decode;
    pub mod builder;
    pub mod reflect;
    pub mod errors;
}
mod proj;
mod dump;
mod decoder;
mod ggen;
mod parser;
mod loader;
mod module;
mod bdrive;
mod preds;
mod storage;
mod tables;
mod disasm;
mod cli;
mod lift;
mod bextra;

fn main() {
    util::install_panic_hook();
    let args: Vec<String> = std::env::args().collect();
    if args.len() < 2 {
        eprintln!("usage: vh <subcommand> ...");
        std::process::exit(2);
    }
    let rest = &args[2..];
    match args[1].as_str() {
        "dump-grammar" => dump::dump_grammar(rest),
        "drive-decoder" => decoder::drive(rest),
        "drive-parser" => parser::drive(rest),
        "drive-loader" => loader::drive(rest),
        "drive-module" => module::drive(rest),
        "drive-builder" => bdrive::drive(rest),
        "drive-preds" => preds::drive(rest),
        "drive-storage" => storage::drive(rest),
        "drive-tables" => tables::drive(rest),
        "drive-disasm" => disasm::drive(rest),
        "drive-cli" => cli::drive(rest),
        "lib-result" => cli::lib_result_cmd(rest),
        "drive-lift" => lift::drive(rest),
        "drive-builder-extra" => bextra::drive(rest),
        "dump-disasm-names" => disasm::dump_names(rest),
        other => {
            eprintln!("vh: unknown subcommand {}", other);
            std::process::exit(2);
        }
    }
}
