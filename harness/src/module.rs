//! Module traversal driver (C15): dr::Module values of every shape (present / absent optional
//! parts, section sizes 0..2) with uniquely tagged instructions; all six traversals + assemble.
use crate::proj::*;
use crate::util::*;
use rspirv::binary::Assemble;
use rspirv::dr;
use serde_json::{json, Value};

fn tagged(tag: &mut u32) -> dr::Instruction {
    *tag += 1;
    // mostly OpUndef %tag %tag (three words, unique); now and then an instruction without ids that occurs several times
    // in a module: OpNop, one and the same OpLine (twice with another instruction in between), OpNoLine - a traversal or
    // the assembler must not treat any opcode, or a repetition, specially
    match *tag % 13 {
        4 => dr::Instruction::new(spirv::Op::Nop, None, None, vec![]),
        7 | 9 => dr::Instruction::new(spirv::Op::Line, None, None, vec![dr::Operand::IdRef(7), dr::Operand::LiteralBit32(3), dr::Operand::LiteralBit32(1)]),
        11 => dr::Instruction::new(spirv::Op::NoLine, None, None, vec![]),
        _ => dr::Instruction::new(spirv::Op::Undef, Some(*tag), Some(*tag), vec![]),
    }
}

/// shape: sizes of the 10 vector sections, header?, memory_model?, functions: (def?, end?, nparams, blocks: (label?, ninsts))
pub struct Shape {
    pub sections: [usize; 10],
    pub header: bool,
    pub mm: bool,
    pub fns: Vec<(bool, bool, usize, Vec<(bool, usize)>)>,
}

pub fn build(shape: &Shape) -> dr::Module {
    let mut tag = 0u32;
    let mut m = dr::Module::new();
    if shape.header {
        let mut h = dr::ModuleHeader::new(77);
        h.set_version(1, 3);
        // the five header words are emitted verbatim, whatever they hold: vary them with the shape
        let k = shape.sections.iter().sum::<usize>() + shape.fns.len();
        match k % 5 {
            1 => { h.version = 0x0001_0601; h.generator = 0xffff_0001; }
            2 => { h.version = 0xffff_ffff; h.bound = 0; h.reserved_word = 7; }
            3 => { h.version = 0x0100_0000; h.magic_number = 0x0302_2307; h.generator = 0; }
            4 => { h.version = 0x0001_0000; h.bound = u32::MAX; h.reserved_word = u32::MAX; }
            _ => {}
        }
        m.header = Some(h);
    }
    let mut fill = |v: &mut Vec<dr::Instruction>, n: usize, tag: &mut u32| for _ in 0..n { v.push(tagged(tag)); };
    fill(&mut m.capabilities, shape.sections[0], &mut tag);
    fill(&mut m.extensions, shape.sections[1], &mut tag);
    fill(&mut m.ext_inst_imports, shape.sections[2], &mut tag);
    if shape.mm { m.memory_model = Some(tagged(&mut tag)); }
    fill(&mut m.entry_points, shape.sections[3], &mut tag);
    fill(&mut m.execution_modes, shape.sections[4], &mut tag);
    fill(&mut m.debug_string_source, shape.sections[5], &mut tag);
    fill(&mut m.debug_names, shape.sections[6], &mut tag);
    fill(&mut m.debug_module_processed, shape.sections[7], &mut tag);
    fill(&mut m.annotations, shape.sections[8], &mut tag);
    fill(&mut m.types_global_values, shape.sections[9], &mut tag);
    for (def, end, np, blocks) in &shape.fns {
        let mut f = dr::Function::new();
        if *def { f.def = Some(tagged(&mut tag)); }
        for _ in 0..*np { f.parameters.push(tagged(&mut tag)); }
        for (label, ni) in blocks {
            let mut b = dr::Block::new();
            if *label { b.label = Some(tagged(&mut tag)); }
            for _ in 0..*ni { b.instructions.push(tagged(&mut tag)); }
            f.blocks.push(b);
        }
        if *end { f.end = Some(tagged(&mut tag)); }
        m.functions.push(f);
    }
    m
}

pub fn event(shape: &Shape) -> Value {
    let mut m = build(shape);
    let jm = j_module(&m);
    let r = catch(|| {
        let global = j_insts(m.global_inst_iter());
        let all = j_insts(m.all_inst_iter());
        let fns: Vec<Value> = m.functions.iter().map(|f| j_insts(f.all_inst_iter())).collect();
        let words = jws(&m.assemble());
        // mutable traversals: record what they yield, and mark every instruction they reach
        let mut global_mut = vec![];
        for i in m.global_inst_iter_mut() { global_mut.push(j_inst(i)); i.result_type = i.result_type.map(|t| t + 1000); }
        let mut all_mut = vec![];
        for i in m.all_inst_iter_mut() { all_mut.push(j_inst(i)); i.result_id = i.result_id.map(|t| t + 2000); }
        let mut fns_mut = vec![];
        for f in m.functions.iter_mut() {
            let mut v = vec![];
            for i in f.all_inst_iter_mut() { v.push(j_inst(i)); i.operands.push(dr::Operand::IdRef(5)); }
            fns_mut.push(Value::Array(v));
        }
        let after = j_insts(m.all_inst_iter());
        json!({"st": "ok", "global": global, "all": all, "fns": fns, "words": words,
               "global_mut": global_mut, "all_mut": all_mut, "fns_mut": fns_mut, "after": after})
    });
    match r {
        Ok(mut v) => { v["ev"] = json!("module"); v["m"] = jm; v }
        Err(p) => json!({"ev": "module", "st": "panic", "m": jm, "panic": jpanic(&p)}),
    }
}

fn random_fns(rng: &mut Rng) -> Vec<(bool, bool, usize, Vec<(bool, usize)>)> {
    (0..rng.count_mod(3)).map(|_| (rng.chance(3, 4), rng.chance(3, 4), rng.count_mod(3),
        (0..rng.count_mod(3)).map(|_| (rng.chance(3, 4), rng.count_mod(3))).collect())).collect()
}

/// ModuleHeader accessors (specification growth beyond the listed properties): version(), generator(), set_version
fn header_events(out: &mut Out, rng: &mut Rng, n: usize) {
    for k in 0..n {
        let vw = if k < 64 { ((k as u32 % 8) << 16) | ((k as u32 / 8) << 8) } else { rng.word() };
        let gw = if k < 40 { ((k as u32 % 20) << 16) | (k as u32 * 37) } else { rng.word() };
        let (ma, mi) = ((rng.below(256)) as u8, (rng.below(256)) as u8);
        let r = catch(|| {
            let mut h = dr::ModuleHeader::new(rng.word());
            h.version = vw;
            h.generator = gw;
            let v = h.version();
            let (gn, gv) = { let g = h.generator(); (g.0.to_string(), g.1) };
            h.set_version(ma, mi);
            (v, gn, gv, h.version, h.generator, h.magic_number, h.reserved_word)
        });
        match r {
            Ok((v, gn, gv, after, gen_after, magic, reserved)) => out.ev(json!({"ev": "hdr", "st": "ok", "vw": jw(vw), "gw": jw(gw), "version": [v.0, v.1], "gen_name": gn, "gen_ver": gv,
                "set": [ma, mi], "after_set": jw(after), "gen_after": jw(gen_after), "magic": jw(magic), "reserved": jw(reserved)})),
            Err(p) => out.ev(json!({"ev": "hdr", "st": "panic", "vw": jw(vw), "gw": jw(gw), "panic": jpanic(&p)})),
        }
    }
}

pub fn drive(args: &[String]) {
    let mut out = Out::create(arg(args, "--out").expect("--out"));
    let mut rng = Rng::new(arg_num(args, "--seed", 1));
    if args.iter().any(|a| a == "--header-api") {
        header_events(&mut out, &mut rng, arg_num(args, "--n", 300) as usize);
        let events = out.finish();
        println!("{}", json!({"events": events}));
        return;
    }
    let mode = arg(args, "--mode").unwrap_or("quick");
    let mut shapes = 0usize;
    let mut emit = |s: &Shape, out: &mut Out| { out.ev(event(s)); };
    // all present/absent combinations of the optional parts on a fixed body
    for bits in 0..32u32 {
        let s = Shape { sections: [1; 10], header: bits & 1 != 0, mm: bits & 2 != 0,
            fns: vec![(bits & 4 != 0, bits & 8 != 0, 1, vec![(bits & 16 != 0, 1), (true, 0)])] };
        emit(&s, &mut out); shapes += 1;
    }
    // nothing but the optional parts: no instruction at all (header only / nothing), hollow functions (no definition, no
    // end, no blocks; blocks without label and without instructions)
    for header in [true, false] {
        for mm in [false, true] {
            for fns in [vec![], vec![(false, false, 0, vec![])], vec![(false, false, 0, vec![(false, 0)]), (false, false, 0, vec![])], vec![(true, false, 0, vec![(true, 0)])]] {
                emit(&Shape { sections: [0; 10], header, mm, fns }, &mut out); shapes += 1;
            }
        }
    }
    // exactly one non-empty section / exactly one empty section
    for i in 0..10 {
        for n in 1..3 {
            let mut sec = [0usize; 10]; sec[i] = n;
            emit(&Shape { sections: sec, header: true, mm: false, fns: vec![] }, &mut out);
            let mut sec = [2usize; 10]; sec[i] = 0;
            emit(&Shape { sections: sec, header: false, mm: true, fns: random_fns(&mut rng) }, &mut out);
            shapes += 2;
        }
    }
    if mode == "thorough" {
        // every combination of section sizes 0..2 (3^10) x header x memory model, random function parts
        let total = 3usize.pow(10);
        for code in 0..total {
            let mut c = code;
            let mut sec = [0usize; 10];
            for s in sec.iter_mut() { *s = c % 3; c /= 3; }
            let s = Shape { sections: sec, header: code % 2 == 0, mm: (code / 2) % 2 == 0, fns: if code % 5 == 0 { random_fns(&mut rng) } else { vec![] } };
            emit(&s, &mut out); shapes += 1;
        }
    }
    // far beyond the small shapes: one dimension at a time at a power of two and its neighbours (a section, the number of
    // functions, of parameters, of blocks, of instructions in a block)
    let mut bigs = vec![8usize, 16, 17, 32, 33, 64, 65];
    if mode == "thorough" { bigs.extend([127, 128, 129, 255, 256, 257, 300]); }
    for &n in &bigs {
        for i in 0..10 { if (i + n) % 3 == 0 { let mut sec = [1usize; 10]; sec[i] = n; emit(&Shape { sections: sec, header: true, mm: true, fns: random_fns(&mut rng) }, &mut out); shapes += 1; } }
        emit(&Shape { sections: [1; 10], header: true, mm: true, fns: (0..n).map(|k| (true, k % 5 != 4, k % 3, vec![(true, k % 2), (k % 4 != 3, 1)])).collect() }, &mut out);
        emit(&Shape { sections: [0; 10], header: n % 2 == 0, mm: false, fns: vec![(true, true, n, vec![(true, 1)]), (true, true, 1, (0..n).map(|k| (k % 7 != 6, k % 3)).collect())] }, &mut out);
        emit(&Shape { sections: [2; 10], header: true, mm: true, fns: vec![(true, true, 0, vec![(true, n), (true, 2)]), (false, true, 0, vec![(false, n)])] }, &mut out);
        shapes += 3;
    }
    let n = arg_num(args, "--random", 1500) as usize;
    for _ in 0..n {
        scale_reset_mod();
        let mut sec = [0usize; 10];
        for s in sec.iter_mut() { *s = rng.count_mod(3); }
        let s = Shape { sections: sec, header: rng.chance(1, 2), mm: rng.chance(1, 2), fns: random_fns(&mut rng) };
        emit(&s, &mut out); shapes += 1;
    }
    let events = out.finish();
    println!("{}", json!({"events": events, "shapes": shapes}));
}
