//! Parser / assembler driver (C02, C03, C04, C10, C14): real parses with a scripted,
//! logging consumer; real assemble + parse of conforming instructions.
use crate::decoder::j_decode_err;
use crate::ggen::*;
use crate::proj::*;
use crate::util::*;
use rspirv::binary::{self, Assemble, Consumer, ParseAction, ParseState};
use rspirv::dr;
use serde_json::{json, Value};
use std::io::BufRead;

#[derive(Debug)]
struct TokenError(usize);
impl std::fmt::Display for TokenError {
    fn fmt(&self, f: &mut std::fmt::Formatter) -> std::fmt::Result {
        write!(f, "vh-token-{}", self.0)
    }
}
impl std::error::Error for TokenError {}

/// A consumer that logs every callback and answers from a script ("C", "S", "E").
pub struct Scripted {
    pub script: Vec<String>,
    pub pos: usize,
    pub calls: Vec<Value>,
    pub insts: Vec<dr::Instruction>,
}
impl Scripted {
    pub fn new(script: Vec<String>) -> Scripted {
        Scripted { script, pos: 0, calls: vec![], insts: vec![] }
    }
    fn answer(&mut self) -> ParseAction {
        self.pos += 1;
        match self.script.get(self.pos - 1).map(|s| s.as_str()) {
            Some("S") => ParseAction::Stop,
            Some("E") => ParseAction::Error(Box::new(TokenError(self.pos))),
            // the consumer's own error value may be of ANY type, e.g. one of the library's own
            Some("F") => ParseAction::Error(Box::new(ParseState::Complete)),
            Some("G") => ParseAction::Error(Box::new(dr::Error::NestedFunction)),
            Some("H") => ParseAction::Error(Box::new(ParseState::ConsumerStopRequested)),
            _ => ParseAction::Continue,
        }
    }
}
impl Consumer for Scripted {
    fn initialize(&mut self) -> ParseAction {
        self.calls.push(json!({"n": "initialize"}));
        self.answer()
    }
    fn finalize(&mut self) -> ParseAction {
        self.calls.push(json!({"n": "finalize"}));
        self.answer()
    }
    fn consume_header(&mut self, h: dr::ModuleHeader) -> ParseAction {
        let (major, minor) = h.version();
        self.calls.push(json!({"n": "header", "version": [major, minor], "bound": jw(h.bound)}));
        self.answer()
    }
    fn consume_instruction(&mut self, inst: dr::Instruction) -> ParseAction {
        self.calls.push(json!({"n": "inst", "inst": j_inst(&inst)}));
        self.insts.push(inst);
        self.answer()
    }
}

/// like j_state, but a ConsumerError is identified against the answer the scripted consumer gave:
/// token = position of that answer iff the returned boxed error is the very value it handed out
pub fn j_state_scripted(r: &Result<(), ParseState>, c: &Scripted) -> Value {
    if let Err(ParseState::ConsumerError(e)) = r {
        let pos = c.pos; // the last callback answered
        let given = c.script.get(pos.wrapping_sub(1)).map(|s| s.as_str()).unwrap_or("");
        let same = match given {
            "E" => e.downcast_ref::<TokenError>().map(|t| t.0 == pos).unwrap_or(false),
            "F" => matches!(e.downcast_ref::<ParseState>(), Some(ParseState::Complete)),
            "H" => matches!(e.downcast_ref::<ParseState>(), Some(ParseState::ConsumerStopRequested)),
            "G" => matches!(e.downcast_ref::<dr::Error>(), Some(dr::Error::NestedFunction)),
            _ => false,
        };
        return json!(["Err", "ConsumerError", if same { pos as i64 } else { -1 }]);
    }
    j_state(r)
}

pub fn j_state(r: &Result<(), ParseState>) -> Value {
    match r {
        Ok(()) => json!(["Ok"]),
        Err(s) => match s {
            ParseState::Complete => json!(["Err", "Complete"]),
            ParseState::ConsumerStopRequested => json!(["Err", "ConsumerStopRequested"]),
            ParseState::ConsumerError(e) => {
                let t = e.to_string();
                let tok: i64 = t.strip_prefix("vh-token-").and_then(|x| x.parse().ok()).unwrap_or(-1);
                json!(["Err", "ConsumerError", tok])
            }
            ParseState::HeaderIncomplete(d) => {
                let dj = j_decode_err(d);
                json!(["Err", "HeaderIncomplete", dj[1], dj[2]])
            }
            ParseState::HeaderIncorrect => json!(["Err", "HeaderIncorrect"]),
            ParseState::EndiannessUnsupported => json!(["Err", "EndiannessUnsupported"]),
            ParseState::WordCountZero(o, i) => json!(["Err", "WordCountZero", jn(*o), jn(*i)]),
            ParseState::OpcodeUnknown(o, i, op) => json!(["Err", "OpcodeUnknown", jn(*o), jn(*i), op]),
            ParseState::OperandExpected(o, i) => json!(["Err", "OperandExpected", jn(*o), jn(*i)]),
            ParseState::OperandExceeded(o, i) => json!(["Err", "OperandExceeded", jn(*o), jn(*i)]),
            ParseState::TypeUnsupported(o, i) => json!(["Err", "TypeUnsupported", jn(*o), jn(*i)]),
            ParseState::SpecConstantOpIntegerIncorrect(o, i) => json!(["Err", "SpecConstantOpIntegerIncorrect", jn(*o), jn(*i)]),
            ParseState::OperandError(d) => {
                let dj = j_decode_err(d);
                let a = dj.as_array().unwrap();
                let mut v = vec![json!("Err"), json!("OperandError")];
                v.extend(a[1..].iter().cloned());
                Value::Array(v)
            }
            // a variant this harness does not know (added to the tree later)
            #[allow(unreachable_patterns)]
            _ => json!(["Err", "Other", 0, 0]),
        },
    }
}

pub fn words_to_bytes(ws: &[u32]) -> Vec<u8> {
    ws.iter().flat_map(|w| w.to_le_bytes()).collect()
}

/// One real parse; `tail` are 0..3 extra bytes after the last whole word.
pub fn parse_event(ws: &[u32], tail: &[u8], script: &[String], use_words_api: bool, tag: &str) -> Value {
    let mut c = Scripted::new(script.to_vec());
    let res = if use_words_api && tail.is_empty() {
        catch(|| binary::parse_words(ws, &mut c))
    } else {
        let mut bytes = words_to_bytes(ws);
        bytes.extend_from_slice(tail);
        catch(|| binary::parse_bytes(&bytes, &mut c))
    };
    let result = match &res {
        Ok(r) => j_state_scripted(r, &c),
        Err(p) => jpanic(p),
    };
    json!({"ev": "parse", "tag": tag, "api": if use_words_api && tail.is_empty() { "words" } else { "bytes" },
           "words": jws(ws), "tail": tail.len(), "script": script, "calls": c.calls, "result": result})
}

pub const HEADER: [u32; 5] = [0x0723_0203, 0x0001_0600, 0x000f_0000, 100, 0];

/// assemble() of a conforming instruction, then a real parse of header + ctx + those words.
/// Fields keep one type each: wst/pst are status strings, words a word list (empty unless ok),
/// parsed a list with the one parsed instruction (empty unless ok), err the error / panic.
pub fn asm_event(inst: &SInst, ctx: &[SInst], tag: &str) -> Value {
    let base = |wst: &str, words: Value, pst: &str, parsed: Value, err: Value| {
        json!({"ev": "asm", "tag": tag, "inst": inst.to_json(), "ctx": Value::Array(ctx.iter().map(|c| c.to_json()).collect()),
               "wst": wst, "words": words, "pst": pst, "parsed": parsed, "err": err})
    };
    let di = match inst.to_dr() {
        Some(d) => d,
        None => return base("unbuildable", json!([]), "none", json!([]), json!(["Err", "vh: cannot construct the instruction through the public API"])),
    };
    match catch(|| di.assemble()) {
        Err(p) => base("panic", json!([]), "none", json!([]), jpanic(&p)),
        Ok(ws) => {
            let mut bin: Vec<u32> = HEADER.to_vec();
            // (declarations count wherever they stand: every third binary with declarations opens a function first)
            thread_local! { static ASM_F: std::cell::Cell<u64> = std::cell::Cell::new(0); }
            // and every third one has a COMPLETE function (OpFunction .. OpFunctionEnd) between the declarations and the
            // instruction that depends on them: what was declared at module level still counts in later functions
            let phase = if ctx.is_empty() { 1 } else { ASM_F.with(|n| { n.set(n.get() + 1); n.get() % 3 }) };
            let mut lead = if phase == 0 { bin.extend([(5 << 16) | 54, 9001, 9002, 0, 9003]); 1 } else { 0 };
            for c in ctx { bin.extend(c.encode()); }
            if phase == 2 { bin.extend([(5 << 16) | 54, 9001, 9002, 0, 9003, (2 << 16) | 248, 9004, (1 << 16) | 253, (1 << 16) | 56, (5 << 16) | 54, 9001, 9005, 0, 9003, (2 << 16) | 248, 9006]); lead += 6; }
            bin.extend(ws.iter());
            let mut c = Scripted::new(vec![]);
            // alternately through parse_words and parse_bytes: the two entry points must agree (the instruction under test
            // is the LAST of the binary, so whatever an entry point does to the end of its input shows here)
            thread_local! { static ASM_N: std::cell::Cell<u64> = std::cell::Cell::new(0); }
            let via_bytes = ASM_N.with(|n| { n.set(n.get() + 1); n.get() % 2 == 0 });
            match catch(|| if via_bytes { binary::parse_bytes(words_to_bytes(&bin), &mut c) } else { binary::parse_words(&bin, &mut c) }) {
                Err(p) => base("ok", jws(&ws), "panic", json!([]), jpanic(&p)),
                Ok(Ok(())) if c.insts.len() == lead + ctx.len() + 1 => base("ok", jws(&ws), "ok", json!([j_inst(&c.insts[lead + ctx.len()])]), json!([])),
                Ok(other) => base("ok", jws(&ws), "err", json!([]), j_state(&other)),
            }
        }
    }
}

/// lossless run-length encoding of a word list: [[word, count] ...]
fn rle_words(ws: &[u32]) -> Value {
    let mut out: Vec<(u32, u64)> = vec![];
    for w in ws { match out.last_mut() { Some(r) if r.0 == *w => r.1 += 1, _ => out.push((*w, 1)) } }
    Value::Array(out.iter().map(|(w, n)| json!([jw(*w), n])).collect())
}
/// The maximal word count: OpTypeStruct %rid with n members (all %member), n + 2 words in all - assembled by the real
/// assembler and parsed back; words and parsed operands are recorded run-length encoded (ParserTrace!BigCode).
pub fn asm_big_event(n: usize, rid: u32, member: u32) -> Value {
    let inst = dr::Instruction::new(spirv::Op::TypeStruct, None, Some(rid), vec![dr::Operand::IdRef(member); n]);
    let base = |wst: &str, words: Value, pst: &str, parsed: Value, err: Value| json!({"ev": "asmbig", "tag": "c02-maxwc", "op": 30, "rid": jw(rid), "member": jw(member), "n": n,
        "wst": wst, "words_rle": words, "pst": pst, "parsed": parsed, "err": err});
    match catch(|| inst.assemble()) {
        Err(p) => base("panic", json!([]), "none", json!([]), jpanic(&p)),
        Ok(ws) => {
            let mut bin: Vec<u32> = HEADER.to_vec();
            bin.extend(ws.iter());
            let mut c = Scripted::new(vec![]);
            match catch(|| binary::parse_words(&bin, &mut c)) {
                Err(p) => base("ok", rle_words(&ws), "panic", json!([]), jpanic(&p)),
                Ok(Ok(())) if c.insts.len() == 1 => {
                    let i = &c.insts[0];
                    let ops: Vec<u32> = i.operands.iter().map(|o| match o { dr::Operand::IdRef(x) => *x, _ => 0xdead_beef }).collect();
                    let all_ids = i.operands.iter().all(|o| matches!(o, dr::Operand::IdRef(_)));
                    base("ok", rle_words(&ws), "ok", json!([{"op": i.class.opcode as u32, "rt": jopt_w(i.result_type), "rid": jopt_w(i.result_id), "all_idref": all_ids, "ops_rle": rle_words(&ops)}]), json!([]))
                }
                Ok(other) => base("ok", rle_words(&ws), "err", json!([]), j_state(&other)),
            }
        }
    }
}

// ---------------------------------------------------------------------------------------------
// suites

fn all_continue() -> Vec<String> {
    vec![]
}

/// C02: every opcode, every enumerant of every enum operand, every mask bit, optional / variadic counts.
fn suite_c02(g: &Gram, out: &mut Out, rng: &mut Rng, thorough: bool) {
    let gen = Gen { g };
    let reps = if thorough { 12 } else { 2 };
    let mut seen_enum: std::collections::HashSet<(String, u32)> = Default::default();
    for (&op, ig) in &g.insts {
        // random plans
        for _ in 0..reps {
            let mut ctx = Ctx::new();
            let i = gen.inst(op, rng, &mut ctx, &Plan::random());
            out.ev(asm_event(&i, &ctx.decls, "c02-random"));
        }
        // optional / variadic sweeps
        let n_opt = ig.ops.iter().filter(|o| o.q == "ZeroOrOne").count();
        let has_var = ig.ops.iter().any(|o| o.q == "ZeroOrMore");
        for k in 0..=n_opt {
            let vars: Vec<usize> = if has_var && k == n_opt { vec![0, 1, 2, 3] } else { vec![0] };
            for v in vars {
                let mut ctx = Ctx::new();
                let i = gen.inst(op, rng, &mut ctx, &Plan { optionals: Some(k), variadic: Some(v), forced: Default::default() });
                out.ev(asm_event(&i, &ctx.decls, "c02-counts"));
            }
        }
        // enumerant / bit sweeps on every enum-kinded logical operand
        for (idx, lo) in ig.ops.iter().enumerate() {
            let values: Vec<u32> = match g.kinds.get(&lo.k) {
                Some(KindG::ValueEnum { values }) => values.iter().map(|v| v.0).collect(),
                Some(KindG::BitEnum { all, bits }) => {
                    let mut v: Vec<u32> = vec![0, *all];
                    v.extend(bits.iter().map(|b| b.0));
                    if thorough {
                        for a in bits { for b in bits { if a.0 < b.0 { v.push(a.0 | b.0); } } }
                    }
                    v
                }
                _ => continue,
            };
            for v in values {
                // quick tier: each (kind, value) once; thorough: in every opcode that takes the kind
                if !thorough && !seen_enum.insert((lo.k.clone(), v)) { continue; }
                let mut ctx = Ctx::new();
                let mut forced = std::collections::HashMap::new();
                forced.insert(idx, v);
                // all optionals present so that the operand exists
                let n_opt_all = ig.ops.iter().filter(|o| o.q == "ZeroOrOne").count();
                let i = gen.inst(op, rng, &mut ctx, &Plan { optionals: Some(n_opt_all), variadic: Some(1), forced });
                out.ev(asm_event(&i, &ctx.decls, "c02-enum"));
            }
        }
    }
    // kinds that occur only as PARAMETERS of enumerants (BuiltIn, FPFastMathMode, LinkageType ...): every value of each
    {
        let mut seen: std::collections::HashSet<(String, u32)> = Default::default();
        for (k, v, pk) in param_kind_sites(g) {
            let Some((op, idx)) = site_of_kind(g, &k) else { continue };
            for pv in sweep_values(g, &pk) {
                if !seen.insert((pk.clone(), pv)) { continue; }
                let mut ctx = Ctx::new();
                let mut forced = std::collections::HashMap::new();
                forced.insert(idx, v);
                let n_opt_all = g.insts[&op].ops.iter().filter(|o| o.q == "ZeroOrOne").count();
                FORCE_PARAM.with(|f| *f.borrow_mut() = Some((pk.clone(), pv)));
                let i = gen.inst(op, rng, &mut ctx, &Plan { optionals: Some(n_opt_all), variadic: Some(1), forced });
                FORCE_PARAM.with(|f| *f.borrow_mut() = None);
                out.ev(asm_event(&i, &ctx.decls, "c02-param-enum"));
            }
        }
    }
    // enumerants with a parameter that may occur any number of times (Decoration BankBitsINTEL): 0..3 occurrences, in
    // every opcode that takes the kind
    for (k, v) in variadic_param_sites(g) {
        for (&op, ig) in &g.insts {
            let Some(idx) = ig.ops.iter().position(|o| o.k == k) else { continue };
            if g.has_context_kind(op) { continue; }
            for reps in 0..4usize {
                let mut ctx = Ctx::new();
                let mut forced = std::collections::HashMap::new();
                forced.insert(idx, v);
                FORCE_REPS.with(|f| f.set(Some(reps)));
                let i = gen.inst(op, rng, &mut ctx, &Plan { optionals: Some(ig.ops.iter().filter(|o| o.q == "ZeroOrOne").count()), variadic: Some(1), forced });
                FORCE_REPS.with(|f| f.set(None));
                out.ev(asm_event(&i, &ctx.decls, "c02-param-variadic"));
            }
        }
    }
    // context-dependent literals: OpConstant / OpSpecConstant / OpSwitch under every supported width
    for &(is_int, width) in &[(true, 8u32), (true, 16), (true, 32), (true, 64), (false, 16), (false, 32), (false, 64)] {
        for _ in 0..(if thorough { 12 } else { 3 }) {
            let words = if width == 64 { 2 } else { 1 };
            let ty = if is_int { SInst { op: 21, rt: None, rid: Some(1), ops: vec![SOp::one("LiteralBit32", width), SOp::one("LiteralBit32", rng.below(2) as u32)] } }
                     else { SInst { op: 22, rt: None, rid: Some(1), ops: vec![SOp::one("LiteralBit32", width)] } };
            let val = SInst { op: 1, rt: Some(1), rid: Some(2), ops: vec![] };
            let lit = |rng: &mut Rng| if words == 2 { SOp { k: "LiteralBit64".into(), w: vec![rng.word(), rng.word()], s: None } } else { SOp::one("LiteralBit32", rng.word()) };
            for op in [43u32, 50] {
                out.ev(asm_event(&SInst { op, rt: Some(1), rid: Some(9), ops: vec![lit(rng)] }, &[ty.clone()], "c02-literal"));
            }
            for cases in 0..4 {
                let mut ops = vec![SOp::one("IdRef", 2), SOp::one("IdRef", 50)];
                for c in 0..cases { ops.push(lit(rng)); ops.push(SOp::one("IdRef", 60 + c)); }
                out.ev(asm_event(&SInst { op: 251, rt: None, rid: None, ops }, &[ty.clone(), val.clone()], "c02-literal"));
            }
        }
    }
    // OpSpecConstantOp embedding every opcode that can be embedded, with the embedded
    // opcode's own optional / variadic counts
    for (&op, ig) in &g.insts {
        if g.has_context_kind(op) { continue; }
        let n_opt = ig.ops.iter().filter(|o| o.q == "ZeroOrOne").count();
        let has_var = ig.ops.iter().any(|o| o.q == "ZeroOrMore");
        let mut plans: Vec<(usize, usize)> = vec![(n_opt, if has_var { 2 } else { 0 })];
        if n_opt > 0 { plans.push((0, 0)); }
        if has_var { plans.push((n_opt, 0)); plans.push((n_opt, 3)); }
        if !thorough { plans.truncate(2); }
        for (k, v) in plans {
            let mut ctx = Ctx::new();
            let mut ops = vec![SOp::one("LiteralSpecConstantOpInteger", op)];
            let sig: Vec<LOp> = ig.ops.iter().filter(|o| o.k != "IdResultType" && o.k != "IdResult").cloned().collect();
            gen.signature(&sig, rng, &mut ctx, &Plan { optionals: Some(k), variadic: Some(v), forced: Default::default() }, 0, 1, 1, &mut ops);
            out.ev(asm_event(&SInst { op: 52, rt: Some(1001), rid: Some(2001), ops }, &[], "c02-specop"));
        }
    }
    // parameter enums that never occur as a logical operand of an instruction (e.g. BuiltIn via Decoration)
    // are covered through their parents; parents with every parameter value:
    for parent in ["Decoration", "ExecutionMode"] {
        if let Some(KindG::ValueEnum { values }) = g.kinds.get(parent) {
            for (v, params) in values {
                for p in params {
                    let pvals: Vec<u32> = match g.kinds.get(p) {
                        Some(KindG::ValueEnum { values }) => values.iter().map(|x| x.0).collect(),
                        Some(KindG::BitEnum { all, bits }) => { let mut x = vec![0, *all]; x.extend(bits.iter().map(|b| b.0)); x }
                        _ => continue,
                    };
                    for pv in pvals {
                        // build "OpDecorate %t <parent v> <param pv>" / "OpExecutionMode %e <mode> <param>" by hand
                        let (op, first) = if parent == "Decoration" { (71u32, "IdRef") } else { (16u32, "IdRef") };
                        let mut ops = vec![SOp::one(first, 7), SOp::one(parent, *v)];
                        let mut ctx = Ctx::new();
                        for q in params {
                            if q == p { ops.push(SOp::one(p, pv)); for pp in gen.params_of(p, pv) { gen.operand(&pp, rng, &mut ctx, None, 1, 1, &mut ops); } }
                            else { gen.operand(q, rng, &mut ctx, None, 1, 1, &mut ops); }
                        }
                        out.ev(asm_event(&SInst { op, rt: None, rid: None, ops }, &[], "c02-param"));
                    }
                }
            }
        }
    }
    // the maximal word count (65535 words) and its neighbour; a small one as a control of the encoding of the event
    for n in [65533usize, 65532, 3] { out.ev(asm_big_event(n, 1, 7)); }
}

/// A random well-formed word stream: header + n conforming instructions (type declarations the
/// literals depend on are emitted before their users).  Returns (words, instruction starts).
pub fn random_module(g: &Gram, rng: &mut Rng, max_insts: usize) -> (Vec<u32>, Vec<usize>) {
    let gen = Gen { g };
    let ops: Vec<u32> = g.insts.keys().cloned().collect();
    let mut ctx = Ctx::new();
    let mut ws: Vec<u32> = HEADER.to_vec();
    ws[1] = *rng.pick(&[0x0001_0000u32, 0x0001_0300, 0x0001_0600, 0x0002_0100]);
    ws[3] = rng.below(5000) as u32;
    let mut starts = vec![];
    // now and then far more instructions than the short streams have (a count at a power of two and its neighbours)
    scale_reset_mod();
    let n = 1 + rng.count_mod(max_insts);
    let mut emitted = 0;
    for _ in 0..n {
        let op = match rng.below(10) {
            0 => 43, 1 => 50, 2 => 251, 3 => 52, // Constant, SpecConstant, Switch, SpecConstantOp
            4 => *rng.pick(&[17u32, 10, 11, 71, 72, 15, 16, 3, 5, 6, 7, 8]), // string / parameter heavy
            _ => *rng.pick(&ops),
        };
        let i = gen.inst(op, rng, &mut ctx, &Plan::random());
        for d in &ctx.decls[emitted..] {
            starts.push(ws.len());
            ws.extend(d.encode());
        }
        emitted = ctx.decls.len();
        starts.push(ws.len());
        ws.extend(i.encode());
    }
    (ws, starts)
}

const ODD_OPCODES: &[u32] = &[9, 13, 18, 40, 47, 53, 58, 76, 85, 108, 125, 140, 153, 170, 173, 183, 193, 216, 226, 231, 235, 244,
    258, 273, 290, 303, 399, 401, 1000, 4159, 4400, 4999, 5000, 5300, 6000, 6430, 7000, 32768, 65535];

/// One single-fault mutation of a well-formed stream.
pub fn mutate(ws: &[u32], starts: &[usize], rng: &mut Rng) -> (Vec<u32>, Vec<u8>, &'static str) {
    let mut w = ws.to_vec();
    let kind = rng.below(12);
    let si = *rng.pick(starts);
    match kind {
        0 => { // truncation at any byte
            let bytes = words_to_bytes(ws);
            let cut = rng.below(bytes.len() + 1);
            let nw = cut / 4;
            (ws[..nw].to_vec(), bytes[nw * 4..cut].to_vec(), "truncate")
        }
        1 => { // word count corruption
            let wc = w[si] >> 16;
            let new = match rng.below(6) { 0 => 0, 1 => wc.wrapping_sub(1) & 0xffff, 2 => (wc + 1) & 0xffff, 3 => 0xffff, 4 => (wc + 2) & 0xffff, _ => rng.below(12) as u32 };
            w[si] = (new << 16) | (w[si] & 0xffff);
            (w, vec![], "wordcount")
        }
        2 => { // opcode substitution
            let new = match rng.below(3) { 0 => *rng.pick(ODD_OPCODES), 1 => rng.below(65536) as u32, _ => rng.below(420) as u32 };
            w[si] = (w[si] & 0xffff_0000) | new;
            (w, vec![], "opcode")
        }
        3 | 4 => { // substitute one operand word
            let j = 5 + rng.below(w.len() - 5);
            w[j] = match rng.below(6) { 0 => 0, 1 => 0xffff_ffff, 2 => w[j] ^ (1 << rng.below(32)), 3 => rng.word(), 4 => 0x6161_6161, _ => rng.below(40) as u32 };
            (w, vec![], "substitute")
        }
        5 => { let j = 5 + rng.below(w.len() - 5); w.remove(j); (w, vec![], "delete-word") }
        6 => { let j = 5 + rng.below(w.len() - 4); let v = if rng.chance(1, 2) { rng.below(10) as u32 } else { rng.word() }; w.insert(j, v); (w, vec![], "insert-word") }
        7 => { // header faults
            match rng.below(4) {
                0 => { w[0] = 0x0302_2307; }
                1 => { w[0] = rng.word(); }
                2 => { let n = rng.below(5); w.truncate(n); }
                _ => { w[0] ^= 1 << rng.below(32); }
            }
            (w, vec![], "header")
        }
        8 => { // drop a whole instruction's tail: set wc larger than the rest of the stream
            let rest = (w.len() - si) as u32;
            w[si] = ((rest + 1 + rng.below(3) as u32) << 16) | (w[si] & 0xffff);
            (w, vec![], "extent-past-end")
        }
        9 => { // trailing garbage bytes / words
            let t: Vec<u8> = (0..rng.below(4)).map(|_| rng.next() as u8).collect();
            if rng.chance(1, 2) { w.push(rng.word()); }
            (w, t, "trailing")
        }
        10 => { // swap two adjacent words
            let j = 5 + rng.below(w.len() - 5);
            if j + 1 < w.len() { w.swap(j, j + 1); }
            (w, vec![], "swap")
        }
        _ => { // duplicate one instruction's first word somewhere
            let j = 5 + rng.below(w.len() - 4);
            w.insert(j, ws[si]);
            (w, vec![], "dup-first-word")
        }
    }
}

fn random_script(rng: &mut Rng, callbacks: usize) -> Vec<String> {
    if rng.chance(3, 4) { return vec![]; }
    let k = rng.below(callbacks + 2);
    let mut s: Vec<String> = (0..k).map(|_| "C".to_string()).collect();
    s.push(rng.pick(&["S", "S", "E", "E", "F", "G", "H"]).to_string());
    // answers after the first non-continue one must never be consulted; put noise there
    for _ in 0..rng.below(3) { s.push(rng.pick(&["C", "S", "E"]).to_string()); }
    s
}

fn suite_c03(g: &Gram, out: &mut Out, rng: &mut Rng, n_modules: usize, mutants_per: usize) {
    for _ in 0..n_modules {
        let (ws, starts) = random_module(g, rng, 8);
        out.ev(parse_event(&ws, &[], &all_continue(), rng.chance(1, 2), "wellformed"));
        for _ in 0..mutants_per {
            let (mw, tail, what) = mutate(&ws, &starts, rng);
            let script = if rng.chance(1, 8) { random_script(rng, starts.len() + 3) } else { vec![] };
            out.ev(parse_event(&mw, &tail, &script, rng.chance(1, 2), what));
        }
    }
}

/// OpSpecConstantOp embedding every opcode number (and a few non-opcodes), with 0..4 operand words.
fn suite_specop(g: &Gram, out: &mut Out, rng: &mut Rng) {
    let mut nums: Vec<u32> = g.insts.keys().cloned().collect();
    nums.extend(ODD_OPCODES.iter());
    nums.extend([0x0001_003du32, 0x8000_0080, 0xffff_ffff]); // low half is a real opcode, high half is not zero
    for n in nums {
        for extra in 0..5usize {
            let mut ws: Vec<u32> = HEADER.to_vec();
            let mut body = vec![1u32, 2, n];
            for _ in 0..extra { body.push(if rng.chance(1, 2) { rng.below(8) as u32 } else { rng.word() }); }
            ws.push((((body.len() + 1) as u32) << 16) | 52);
            ws.extend(body);
            out.ev(parse_event(&ws, &[], &all_continue(), false, "specop"));
        }
    }
}

/// C14: every callback position x {stop, error} on small well-formed and faulty binaries.
fn suite_c14(g: &Gram, out: &mut Out, rng: &mut Rng, n_modules: usize) {
    // "finalize only if the whole binary was parsed without error": for every enumeration / mask kind that some
    // instruction takes directly, that instruction with an undeclared enumerant / an undeclared bit, between two OpNop
    {
        let gen = Gen { g };
        crate::ggen::NO_CTX.with(|c| c.set(true));
        let mut kinds: Vec<&String> = g.kinds.keys().collect();
        kinds.sort();
        for kind in kinds {
            let bad: Vec<u32> = match &g.kinds[kind] {
                KindG::ValueEnum { values } => { let mx = values.iter().map(|v| v.0).max().unwrap_or(0); vec![mx + 1, 0x7fff_fff0] }
                KindG::BitEnum { all, .. } => { let free = !*all; if free == 0 { vec![] } else { vec![free & free.wrapping_neg(), 0x8000_0000 & free, (free & free.wrapping_neg()) | (*all & all.wrapping_neg())] } }
                KindG::Other => vec![],
            };
            let Some((op, idx)) = site_of_kind(g, kind) else { continue };
            for v in bad {
                if v == 0 { continue; }
                let mut ctx = Ctx::new();
                let mut plan = Plan { optionals: Some(usize::MAX), variadic: Some(1), forced: Default::default() };
                plan.forced.insert(idx, v);
                let inst = gen.inst(op, rng, &mut ctx, &plan);
                let mut ws: Vec<u32> = HEADER.to_vec();
                ws.push(1 << 16);
                ws.extend(inst.encode());
                ws.push(1 << 16);
                out.ev(parse_event(&ws, &[], &[], rng.chance(1, 2), "c14-badvalue"));
            }
        }
        crate::ggen::NO_CTX.with(|c| c.set(false));
    }
    // "one call per instruction in stream order, then finalize" for EVERY opcode: the fullest form (all optional
    // operands, two repetitions of a variadic one) and a random form, between two OpNop, parsed to the end and stopped
    // right after the instruction
    {
        let gen = Gen { g };
        for (&op, _) in &g.insts {
            for full in [true, false] {
                let mut ctx = Ctx::new();
                let plan = if full { Plan { optionals: Some(usize::MAX), variadic: Some(2), forced: Default::default() } } else { Plan::random() };
                let inst = gen.inst(op, rng, &mut ctx, &plan);
                let mut ws: Vec<u32> = HEADER.to_vec();
                for d in &ctx.decls { ws.extend(d.encode()); }
                let pos = 2 + ctx.decls.len() + 1;   // initialize, header, declarations, OpNop come before the instruction's callback
                ws.push(1 << 16);
                ws.extend(inst.encode());
                if !full { ws.extend(inst.encode()); }   // "one call per instruction": also for the identical instruction repeated
                ws.push(1 << 16);
                out.ev(parse_event(&ws, &[], &[], rng.chance(1, 2), "c14-sweep"));
                if full {
                    let mut s: Vec<String> = (0..pos + 1).map(|_| "C".to_string()).collect();
                    s.push(rng.pick(&["S", "E"]).to_string());
                    out.ev(parse_event(&ws, &[], &s, rng.chance(1, 2), "c14-sweep"));
                }
            }
        }
    }
    // "one call per instruction in stream order, then finalize" around the context-dependent literals of every declared
    // width: a type, a value of it, OpConstant / OpSpecConstant / OpSwitch with 0..3 cases, then further instructions
    for &(is_int, width) in &[(true, 8u32), (true, 16), (true, 32), (true, 64), (false, 16), (false, 32), (false, 64)] {
        let words = if width == 64 { 2 } else { 1 };
        let ty = if is_int { SInst { op: 21, rt: None, rid: Some(1), ops: vec![SOp::one("LiteralBit32", width), SOp::one("LiteralBit32", rng.below(2) as u32)] } }
                 else { SInst { op: 22, rt: None, rid: Some(1), ops: vec![SOp::one("LiteralBit32", width)] } };
        let val = SInst { op: 1, rt: Some(1), rid: Some(2), ops: vec![] };
        let lit = |rng: &mut Rng| if words == 2 { SOp { k: "LiteralBit64".into(), w: vec![rng.word(), rng.word()], s: None } } else { SOp::one("LiteralBit32", rng.word()) };
        for cases in 0..4u32 {
            let mut ops = vec![SOp::one("IdRef", 2), SOp::one("IdRef", 50)];
            for c in 0..cases { ops.push(lit(rng)); ops.push(SOp::one("IdRef", 60 + c)); }
            let sw = SInst { op: 251, rt: None, rid: None, ops };
            let k1 = SInst { op: 43, rt: Some(1), rid: Some(9), ops: vec![lit(rng)] };
            let k2 = SInst { op: 50, rt: Some(1), rid: Some(10), ops: vec![lit(rng)] };
            let mut ws: Vec<u32> = HEADER.to_vec();
            for i in [&ty, &val, &k1, &sw, &k2] { ws.extend(i.encode()); }
            ws.push(1 << 16);
            ws.extend(sw.encode());
            ws.push(1 << 16);
            ws.extend(k1.encode());
            out.ev(parse_event(&ws, &[], &[], cases % 2 == 0, "c14-widths"));
        }
    }
    for _ in 0..n_modules {
        let (ws, starts) = random_module(g, rng, 3);
        let variants: Vec<(Vec<u32>, Vec<u8>, &str)> = {
            let mut v = vec![(ws.clone(), vec![], "wellformed")];
            for _ in 0..3 { v.push(mutate(&ws, &starts, rng)); }
            v
        };
        for (mw, tail, what) in variants {
            let callbacks = starts.len() + 3;
            out.ev(parse_event(&mw, &tail, &[], false, what));
            for k in 0..callbacks {
                for a in ["S", "E", "F", "G", "H"] {
                    let mut s: Vec<String> = (0..k).map(|_| "C".to_string()).collect();
                    s.push(a.to_string());
                    s.push(rng.pick(&["C", "S", "E"]).to_string());
                    out.ev(parse_event(&mw, &tail, &s, rng.chance(1, 2), what));
                }
            }
        }
    }
}

/// C10: histories from MC_Tracker (or random ones): binaries whose literals have the number of
/// words the specification prescribes (n; 0 = unsupported width), plus +-1 word variants, plus a
/// second parse of the consumer alone (the tracker must not survive a parse).
fn c10_inst(step: &Value, fresh: &mut u32, delta: i64, rng: &mut Rng) -> Vec<u32> {
    let a = step["a"].as_str().unwrap();
    let num = |k: &str| step[k].as_u64().unwrap() as u32;
    let lit = |n: i64, rng: &mut Rng| -> Vec<u32> { (0..n.max(0)).map(|_| rng.below(1000) as u32).collect() };
    let mk = |op: u32, body: Vec<u32>| { let mut v = vec![(((body.len() + 1) as u32) << 16) | op]; v.extend(body); v };
    match a {
        "TInt" => mk(21, vec![num("id"), num("w"), 0]),
        "TFloat" => mk(22, vec![num("id"), num("w")]),
        "Def" => mk(1, vec![num("rt"), num("rid")]),
        "Const" | "SpecConst" => {
            *fresh += 1;
            let n = (step["n"].as_i64().unwrap()).max(1) + delta;
            let mut body = vec![num("id"), *fresh];
            body.extend(lit(n, rng));
            mk(if a == "Const" { 43 } else { 50 }, body)
        }
        "Switch" => {
            let n = (step["n"].as_i64().unwrap()).max(1) + delta;
            let mut body = vec![num("id"), 77];
            let cases = if delta == 0 { 1 + rng.below(2) } else { 1 };
            for _ in 0..cases { body.extend(lit(n, rng)); body.push(78); }
            mk(251, body)
        }
        other => panic!("vh: unknown c10 step {}", other),
    }
}
fn c10_history(out: &mut Out, steps: &[Value], rng: &mut Rng) {
    let last_is_consumer = steps.last().map(|s| s.get("n").is_some()).unwrap_or(false);
    let deltas: &[i64] = if last_is_consumer { &[0, 1, -1] } else { &[0] };
    for &d in deltas {
        let mut ws: Vec<u32> = HEADER.to_vec();
        let mut fresh = 100;
        for (i, st) in steps.iter().enumerate() {
            let delta = if i + 1 == steps.len() { d } else { 0 };
            ws.extend(c10_inst(st, &mut fresh, delta, rng));
        }
        out.ev(parse_event(&ws, &[], &[], rng.chance(1, 2), if d == 0 { "c10-exact" } else if d > 0 { "c10-plus" } else { "c10-minus" }));
    }
    if last_is_consumer {
        // the consumer alone, parsed right after the defining binary: the type must be unknown again
        let mut ws: Vec<u32> = HEADER.to_vec();
        let mut fresh = 100;
        let mut alone = steps.last().unwrap().clone();
        alone["n"] = json!(1);
        ws.extend(c10_inst(&alone, &mut fresh, 0, rng));
        out.ev(parse_event(&ws, &[], &[], false, "c10-alone"));
    }
}
fn c10_random(out: &mut Out, rng: &mut Rng, n: usize) {
    // mirrors Parser!Track / LiteralWords only to choose literal sizes that make well-formed inputs;
    // the verdict is TLC's, so a wrong mirror shows up as rejected-by-both, not as a false alarm
    for _ in 0..n {
        let len = 2 + rng.below(40);
        let mut types: std::collections::HashMap<u32, (bool, u32)> = Default::default();
        let mut defined: Vec<u32> = vec![];
        let mut ws: Vec<u32> = HEADER.to_vec();
        let mut fresh = 100u32;
        for _ in 0..len {
            let id = rng.below(21) as u32;   // 0 too: "ids defined once", not "ids above zero"
            let undefined = !defined.contains(&id);
            let widths = [7u32, 8, 16, 32, 64, 128, 0, 65];
            let words = |t: Option<&(bool, u32)>| -> i64 { match t { None => 1, Some((true, w)) => match w { 8 | 16 | 32 => 1, 64 => 2, _ => 0 }, Some((false, w)) => match w { 16 | 32 => 1, 64 => 2, _ => 0 } } };
            let step = match rng.below(7) {
                0 if undefined => { let w = *rng.pick(&widths); types.insert(id, (true, w)); defined.push(id); json!({"a": "TInt", "id": id, "w": w}) }
                1 if undefined => { let w = *rng.pick(&widths); types.insert(id, (false, w)); defined.push(id); json!({"a": "TFloat", "id": id, "w": w}) }
                2 if undefined => { let rt = 1 + rng.below(20) as u32; if rt == id { continue; } if let Some(t) = types.get(&rt).cloned() { types.insert(id, t); } defined.push(id); json!({"a": "Def", "rid": id, "rt": rt}) }
                3 | 4 => json!({"a": if rng.chance(1, 2) { "Const" } else { "SpecConst" }, "id": id, "n": words(types.get(&id))}),
                5 | 6 => json!({"a": "Switch", "id": id, "n": words(types.get(&id))}),
                _ => continue,
            };
            let unsupported = step.get("n").and_then(|n| n.as_i64()) == Some(0);
            ws.extend(c10_inst(&step, &mut fresh, 0, rng));
            if unsupported { break; }
        }
        out.ev(parse_event(&ws, &[], &[], rng.chance(1, 2), "c10-random"));
    }
}

/// C10: "as propagated from the defining instruction's result type" -- for EVERY opcode of the pinned grammar that has a
/// result type and a result id: a 64-bit / 16-bit / 128-bit integer type, a value defined by that opcode, and an OpSwitch
/// on it whose case literals have the number of words the specification prescribes.
fn c10_defops(g: &Gram, out: &mut Out, rng: &mut Rng) {
    let gen = Gen { g };
    crate::ggen::NO_CTX.with(|c| c.set(true));
    for (&op, ig) in &g.insts {
        if !(ig.ops.len() >= 2 && ig.ops[0].k == "IdResultType" && ig.ops[1].k == "IdResult") || g.has_context_kind(op) { continue; }
        for (w, n) in [(64u32, 2i64), (16, 1), (128, 0)] {
            let mut ctx = Ctx::new();
            let mut inst = gen.inst(op, rng, &mut ctx, &Plan::random());
            inst.rt = Some(1);
            inst.rid = Some(2);
            let mut ws: Vec<u32> = HEADER.to_vec();
            let mut fresh = 100;
            if w == 64 && op % 2 == 0 { ws.extend([(5 << 16) | 54, 90, 91, 0, 92]); }     // OpFunction %90 %91 None %92 first
            ws.extend(c10_inst(&json!({"a": "TInt", "id": 1, "w": w}), &mut fresh, 0, rng));
            if w == 64 && op % 4 == 1 { ws.extend([(5 << 16) | 54, 90, 91, 0, 92]); }     // ... or between type and definition
            ws.extend(inst.encode());
            let mut body = vec![2u32, 77];
            for _ in 0..2 { for _ in 0..n.max(1) { body.push(rng.below(1000) as u32); } body.push(78); }
            ws.push((((body.len() + 1) as u32) << 16) | 251);
            ws.extend(body);
            out.ev(parse_event(&ws, &[], &[], rng.chance(1, 2), "c10-defop"));
        }
    }
    crate::ggen::NO_CTX.with(|c| c.set(false));
}
/// C10: "and the assembler emits the same number of words": OpConstant / OpSpecConstant / OpSwitch (0..3 cases) built as
/// data under each declared width, assembled by the real assembler and parsed back after the declarations.
fn c10_asm(out: &mut Out, rng: &mut Rng) {
    for (is_int, w) in [(true, 8u32), (true, 16), (true, 32), (true, 64), (false, 16), (false, 32), (false, 64)] {
        let ty = if is_int { SInst { op: 21, rt: None, rid: Some(1), ops: vec![SOp::one("LiteralBit32", w), SOp::one("LiteralBit32", rng.below(2) as u32)] } }
                 else { SInst { op: 22, rt: None, rid: Some(1), ops: vec![SOp::one("LiteralBit32", w)] } };
        let def = SInst { op: 1, rt: Some(1), rid: Some(2), ops: vec![] };
        let lit = |rng: &mut Rng| if w == 64 { SOp { k: "LiteralBit64".into(), w: vec![rng.below(100000) as u32, rng.below(100000) as u32], s: None } } else { SOp::one("LiteralBit32", rng.below(100000) as u32) };
        for op in [43u32, 50] {
            let inst = SInst { op, rt: Some(1), rid: Some(3), ops: vec![lit(rng)] };
            out.ev(asm_event(&inst, &[ty.clone()], "c10-asm"));
        }
        for cases in 0..4 {
            let mut ops = vec![SOp::one("IdRef", 2), SOp::one("IdRef", 77)];
            for _ in 0..cases { ops.push(lit(rng)); ops.push(SOp::one("IdRef", 78 + rng.below(5) as u32)); }
            let inst = SInst { op: 251, rt: None, rid: None, ops };
            out.ev(asm_event(&inst, &[ty.clone(), def.clone()], "c10-asm"));
        }
    }
}

/// C14 behaviours from MC_Protocol: {n, fault, answers} -> concrete binaries + scripted consumer.
fn c14_behaviour(g: &Gram, out: &mut Out, rng: &mut Rng, b: &Value, reps: usize) {
    let gen = Gen { g };
    let ops: Vec<u32> = g.insts.keys().cloned().collect();
    let n = b["n"].as_u64().unwrap() as usize;
    let fault = b["fault"].as_str().unwrap();
    let script0: Vec<String> = b["answers"].as_array().unwrap().iter().map(|a| a.as_str().unwrap().to_string()).collect();
    for rep in 0..reps {
        let script: Vec<String> = script0.iter().map(|a| if a == "E" { ["E", "F", "G", "H"][rep % 4].to_string() } else { a.clone() }).collect();
        let mut ctx = Ctx::new();
        let mut ws: Vec<u32> = HEADER.to_vec();
        let mut emitted = 0;
        let mut count = 0;
        while count < n {
            // instructions that need no extra declarations, so that exactly n are delivered
            // OpSpecConstantOp (its embedded operands need no declarations) appears often: it is the one
            // instruction with its own operand loop, and the instructions AFTER it must still be delivered
            let op = if rng.chance(1, 5) { 52 } else { *rng.pick(&ops) };
            if op != 52 && g.has_context_kind(op) { continue; }
            let i = gen.inst(op, rng, &mut ctx, &Plan::random());
            for d in &ctx.decls[emitted..] { ws.extend(d.encode()); count += 1; }
            emitted = ctx.decls.len();
            if count >= n { break; }
            ws.extend(i.encode());
            count += 1;
        }
        match fault {
            "short-header" => { ws.truncate(rng.below(5)); }
            "bad-magic" => { ws[0] = if rng.chance(1, 2) { 0x0723_0204 } else { rng.word() | 1 }; if ws[0] == 0x0302_2307 || ws[0] == 0x0723_0203 { ws[0] = 5; } }
            "swapped-magic" => { ws[0] = 0x0302_2307; }
            "malformed" => {
                match rng.below(6) {
                    0 => ws.push(0x0000_0000 | 17),                       // word count 0
                    1 => ws.push((1 << 16) | *rng.pick(ODD_OPCODES)),    // unknown opcode
                    2 => ws.push((1 << 16) | 17),                         // OpCapability without operand
                    3 => { ws.push((3 << 16) | 17); ws.push(1); ws.push(2); } // surplus operand
                    4 => { ws.push((4 << 16) | 61); ws.push(1); }         // extent past the end
                    _ => { ws.push((2 << 16) | 17); ws.push(0xdead_beef); } // unknown enumerant
                }
                // anything after the malformed instruction must never be looked at
                if rng.chance(1, 2) { ws.push((1 << 16) | 0); }
            }
            _ => {}
        }
        out.ev(parse_event(&ws, &[], &script, rng.chance(1, 2), "c14-model"));
    }
}

pub fn drive(args: &[String]) {
    let g = Gram::load(arg(args, "--grammar").expect("--grammar"));
    let mut out = Out::create(arg(args, "--out").expect("--out"));
    let mut rng = Rng::new(arg_num(args, "--seed", 1));
    let suite = arg(args, "--suite").unwrap_or("c03");
    let n = arg_num(args, "--n", 100) as usize;
    let thorough = args.iter().any(|a| a == "--thorough");
    match suite {
        "c02" => suite_c02(&g, &mut out, &mut rng, thorough),
        "c03" => { suite_c03(&g, &mut out, &mut rng, n, arg_num(args, "--mutants", 8) as usize); }
        "specop" => suite_specop(&g, &mut out, &mut rng),
        "c14" => {
            if let Some(h) = arg(args, "--histories") {
                let f = std::io::BufReader::new(std::fs::File::open(h).unwrap());
                for line in f.lines() {
                    let line = line.unwrap();
                    if line.trim().is_empty() { continue; }
                    let v: Value = serde_json::from_str(&line).unwrap();
                    c14_behaviour(&g, &mut out, &mut rng, &v, arg_num(args, "--reps", 3) as usize);
                }
            }
            suite_c14(&g, &mut out, &mut rng, n)
        }
        "words" => {
            // replay: NDJSON lines {"words":[[hi,lo]..],"tail":[bytes],"script":[..]}
            let f = std::io::BufReader::new(std::fs::File::open(arg(args, "--histories").expect("--histories")).unwrap());
            for line in f.lines() {
                let line = line.unwrap();
                if line.trim().is_empty() { continue; }
                let v: Value = serde_json::from_str(&line).unwrap();
                let ws: Vec<u32> = v["words"].as_array().unwrap().iter().map(unw).collect();
                let tail = v.get("tail").map(|t| if t.is_array() { unbytes(t) } else { vec![0u8; t.as_u64().unwrap_or(0) as usize] }).unwrap_or_default();
                let script: Vec<String> = v.get("script").and_then(|s| s.as_array()).map(|a| a.iter().map(|x| x.as_str().unwrap().to_string()).collect()).unwrap_or_default();
                out.ev(parse_event(&ws, &tail, &script, v.get("api").and_then(|a| a.as_str()) == Some("words"), "replay"));
            }
        }
        "c10" => {
            if let Some(h) = arg(args, "--histories") {
                let f = std::io::BufReader::new(std::fs::File::open(h).unwrap());
                for line in f.lines() {
                    let line = line.unwrap();
                    if line.trim().is_empty() { continue; }
                    let v: Value = serde_json::from_str(&line).unwrap();
                    c10_history(&mut out, v["steps"].as_array().unwrap(), &mut rng);
                }
            }
            c10_random(&mut out, &mut rng, n);
            c10_defops(&g, &mut out, &mut rng);
            c10_asm(&mut out, &mut rng);
        }
        "big-replay" => {
            let f = std::io::BufReader::new(std::fs::File::open(arg(args, "--histories").expect("--histories")).unwrap());
            for line in f.lines() {
                let line = line.unwrap();
                if line.trim().is_empty() { continue; }
                let v: Value = serde_json::from_str(&line).unwrap();
                out.ev(asm_big_event(v["big"]["n"].as_u64().unwrap() as usize, unw(&v["big"]["rid"]), unw(&v["big"]["member"])));
            }
        }
        "asm-replay" => {
            let f = std::io::BufReader::new(std::fs::File::open(arg(args, "--histories").expect("--histories")).unwrap());
            for line in f.lines() {
                let line = line.unwrap();
                if line.trim().is_empty() { continue; }
                let v: Value = serde_json::from_str(&line).unwrap();
                let inst = SInst::from_json(&v["inst"]);
                let ctx: Vec<SInst> = v["ctx"].as_array().map(|a| a.iter().map(SInst::from_json).collect()).unwrap_or_default();
                out.ev(asm_event(&inst, &ctx, "replay"));
            }
        }
        other => panic!("vh: unknown parser suite {}", other),
    }
    let events = out.finish();
    println!("{}", json!({"events": events}));
}
