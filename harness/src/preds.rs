//! C16: every predicate of grammar::reflect on every declared opcode.
use crate::util::*;
use rspirv::grammar::reflect as r;
use serde_json::json;

pub fn drive(args: &[String]) {
    let mut out = Out::create(arg(args, "--out").expect("--out"));
    let mut n = 0;
    for code in 0..=65535u32 {
        if let Some(op) = spirv::Op::from_u32(code) {
            let flags = catch(|| json!({
                "is_location_debug": r::is_location_debug(op), "is_nonlocation_debug": r::is_nonlocation_debug(op), "is_debug": r::is_debug(op),
                "is_annotation": r::is_annotation(op), "is_type": r::is_type(op), "is_constant": r::is_constant(op), "is_variable": r::is_variable(op),
                "is_return": r::is_return(op), "is_abort": r::is_abort(op), "is_return_or_abort": r::is_return_or_abort(op),
                "is_branch": r::is_branch(op), "is_block_terminator": r::is_block_terminator(op),
            }));
            match flags {
                Ok(f) => out.ev(json!({"ev": "pred", "op": code, "st": "ok", "flags": f})),
                Err(p) => out.ev(json!({"ev": "pred", "op": code, "st": "panic", "flags": {}, "panic": jpanic(&p)})),
            }
            n += 1;
        }
    }
    out.finish();
    println!("{}", json!({"events": n, "predicates": 12}));
}
