//! Projection of dr values to the JSON shapes the TLA+ specifications read, and back.
use crate::gen::operands::{operand_make, operand_parts};
use crate::util::*;
use rspirv::dr;
use serde_json::{json, Value};

pub fn j_operand(op: &dr::Operand) -> Value {
    let (k, w, s) = operand_parts(op);
    json!({"k": k, "w": jws(&w), "s": s.map(|s| jbytes(s.as_bytes())).unwrap_or(json!([]))})
}
pub fn j_inst(i: &dr::Instruction) -> Value {
    json!({
        "op": i.class.opcode as u32,
        "rt": jopt_w(i.result_type),
        "rid": jopt_w(i.result_id),
        "ops": Value::Array(i.operands.iter().map(j_operand).collect()),
    })
}
pub fn j_insts<'a>(it: impl Iterator<Item = &'a dr::Instruction>) -> Value {
    Value::Array(it.map(j_inst).collect())
}
pub fn j_opt_inst(i: &Option<dr::Instruction>) -> Value {
    match i {
        Some(i) => json!([j_inst(i)]),
        None => json!([]),
    }
}
pub fn j_header(h: &Option<dr::ModuleHeader>) -> Value {
    match h {
        Some(h) => json!([{ "magic": jw(h.magic_number), "version": jw(h.version), "generator": jw(h.generator),
                            "bound": jw(h.bound), "reserved": jw(h.reserved_word) }]),
        None => json!([]),
    }
}
pub fn j_block(b: &dr::Block) -> Value {
    json!({"label": j_opt_inst(&b.label), "insts": j_insts(b.instructions.iter())})
}
pub fn j_function(f: &dr::Function) -> Value {
    json!({
        "def": j_opt_inst(&f.def),
        "params": j_insts(f.parameters.iter()),
        "blocks": Value::Array(f.blocks.iter().map(j_block).collect()),
        "end": j_opt_inst(&f.end),
    })
}
pub fn j_module(m: &dr::Module) -> Value {
    json!({
        "header": j_header(&m.header),
        "capabilities": j_insts(m.capabilities.iter()),
        "extensions": j_insts(m.extensions.iter()),
        "ext_inst_imports": j_insts(m.ext_inst_imports.iter()),
        "memory_model": j_opt_inst(&m.memory_model),
        "entry_points": j_insts(m.entry_points.iter()),
        "execution_modes": j_insts(m.execution_modes.iter()),
        "debug_string_source": j_insts(m.debug_string_source.iter()),
        "debug_names": j_insts(m.debug_names.iter()),
        "debug_module_processed": j_insts(m.debug_module_processed.iter()),
        "annotations": j_insts(m.annotations.iter()),
        "types_global_values": j_insts(m.types_global_values.iter()),
        "functions": Value::Array(m.functions.iter().map(j_function).collect()),
    })
}

pub fn un_operand(v: &Value) -> Option<dr::Operand> {
    let k = v["k"].as_str()?;
    let w: Vec<u32> = v["w"].as_array()?.iter().map(unw).collect();
    let s_bytes = unbytes(&v["s"]);
    let s = String::from_utf8(s_bytes).ok()?;
    operand_make(k, &w, Some(&s))
}
pub fn un_opt_w(v: &Value) -> Option<u32> {
    v.as_array().and_then(|a| a.first()).map(unw)
}
pub fn un_inst(v: &Value) -> Option<dr::Instruction> {
    let op = spirv::Op::from_u32(v["op"].as_u64()? as u32)?;
    let mut ops = vec![];
    for o in v["ops"].as_array()? {
        ops.push(un_operand(o)?);
    }
    Some(dr::Instruction::new(op, un_opt_w(&v["rt"]), un_opt_w(&v["rid"]), ops))
}
