//! Storage driver (C19): append / fetch_or_append histories on Storage<f64> (with +0.0 / -0.0, which
//! are equal but distinguishable, and NaN) and on Storage<KeyTag> (an arbitrary non-reflexive
//! equality: same key and different tag) and Storage<Near> (non-transitive: distance <= 1); after every operation, lookups through ALL tokens handed out.
use crate::util::*;
use rspirv::sr::storage::{Storage, Token};
use serde_json::{json, Value};
use std::io::BufRead;

trait Elem: PartialEq + Sized { fn of(v: &Value) -> Self; fn label(&self) -> Value; }
impl Elem for f64 {
    fn of(v: &Value) -> f64 {
        match (v["k"].as_str().unwrap(), v["t"].as_i64().unwrap()) { ("zero", 0) => 0.0, ("zero", _) => -0.0, ("one", _) => 1.0, ("nan", _) => f64::NAN, ("o1", _) => 3.0, ("o2", _) => 4.0, _ => 5.0 }
    }
    fn label(&self) -> Value {
        if self.is_nan() { json!({"k": "nan", "t": 0, "m": "nan"}) }
        else if *self == 0.0 { json!({"k": "zero", "t": if self.is_sign_negative() { 1 } else { 0 }, "m": "std"}) }
        else if *self == 1.0 { json!({"k": "one", "t": 0, "m": "std"}) }
        else if *self == 3.0 { json!({"k": "o1", "t": 0, "m": "std"}) }
        else if *self == 4.0 { json!({"k": "o2", "t": 0, "m": "std"}) }
        else { json!({"k": "other", "t": 0, "m": "std"}) }
    }
}
#[derive(Debug)]
struct KeyTag(String, i64);
impl PartialEq for KeyTag { fn eq(&self, o: &KeyTag) -> bool { self.0 == o.0 && self.1 != o.1 } }
impl Elem for KeyTag {
    fn of(v: &Value) -> KeyTag { KeyTag(v["k"].as_str().unwrap().to_string(), v["t"].as_i64().unwrap()) }
    fn label(&self) -> Value { json!({"k": self.0, "t": self.1, "m": "difftag"}) }
}

/// a reflexive, symmetric, non-transitive equality: numbers at distance <= 1
#[derive(Debug)]
struct Near(i64);
impl PartialEq for Near { fn eq(&self, o: &Near) -> bool { (self.0 - o.0).abs() <= 1 } }
impl Elem for Near {
    fn of(v: &Value) -> Near { Near(v["t"].as_i64().unwrap()) }
    fn label(&self) -> Value { json!({"k": "n", "t": self.0, "m": "near"}) }
}

fn run<T: Elem>(out: &mut Out, ty: &str, ops: &[(String, Value)]) {
    out.ev(json!({"ev": "snew", "ty": ty}));
    let mut s: Storage<T> = Storage::new();
    let mut toks: Vec<Token<T>> = vec![];
    for (op, v) in ops {
        let r = catch(|| {
            let t = if op == "append" { s.append(T::of(v)) } else { s.fetch_or_append(T::of(v)) };
            toks.push(t);
            let lookups: Vec<Value> = toks.iter().map(|t| s[*t].label()).collect();
            (t.index(), lookups)
        });
        match r {
            Ok((tok, lookups)) => out.ev(json!({"ev": "scall", "st": "ok", "op": op, "v": v, "tok": tok, "lookups": lookups})),
            Err(p) => out.ev(json!({"ev": "scall", "st": "panic", "op": op, "v": v, "tok": -1, "lookups": [], "panic": jpanic(&p)})),
        }
    }
}
fn run_any(out: &mut Out, ops: &[(String, Value)]) {
    match ops.first().and_then(|o| o.1["m"].as_str()) {
        Some("difftag") => run::<KeyTag>(out, "keytag", ops),
        Some("near") => run::<Near>(out, "near", ops),
        _ => run::<f64>(out, "f64", ops),
    }
}

/// lossless run-length encoding: maximal runs [length, first] of consecutive numbers
fn rle(xs: impl Iterator<Item = u32>) -> Vec<[u64; 2]> {
    let mut out: Vec<[u64; 2]> = vec![];
    for x in xs {
        match out.last_mut() { Some(r) if r[1] + r[0] == x as u64 => r[0] += 1, _ => out.push([1, x as u64]) }
    }
    out
}
/// C19 at scale (spec/StorageBulk.tla): one Storage<u32> receiving the numbers 0, 1, 2, ... in runs of append /
/// fetch_or_append; after every run the indices of the returned tokens and lookups through ALL tokens handed out.
fn bulk(out: &mut Out, total: u32) {
    out.ev(json!({"ev": "bnew", "ty": "u32"}));
    let mut s: Storage<u32> = Storage::new();
    let mut toks: Vec<Token<u32>> = vec![];
    let n = total;
    let runs: Vec<(&str, u32, u32)> = vec![("append", 0, 1000.min(n)), ("fetch_or_append", 1000.min(n), 65530.min(n)), ("append", 65530.min(n), 65540.min(n)), ("append", 65540.min(n), n),
        ("fetch_or_append", 0, 5.min(n)), ("fetch_or_append", 65530.min(n), 65545.min(n)), ("fetch_or_append", n.saturating_sub(3), n),
        ("fetch_or_append", n, n + 3), ("append", n + 3, n + 5), ("fetch_or_append", 65535.min(n), 65538.min(n))];
    for (op, from, to) in runs {
        let r = catch(|| {
            let mut got = vec![];
            for v in from..to {
                let t = if op == "append" { s.append(v) } else { s.fetch_or_append(v) };
                #[allow(clippy::unnecessary_cast)]
                got.push(t.index() as u32);
                toks.push(t);
            }
            (rle(got.into_iter()), rle(toks.iter().map(|t| s[*t])))
        });
        match r {
            Ok((t, l)) => out.ev(json!({"ev": "brun", "st": "ok", "op": op, "from": from, "to": to, "toks": t, "lookups": l})),
            Err(p) => out.ev(json!({"ev": "brun", "st": "panic", "op": op, "from": from, "to": to, "toks": [], "lookups": [], "panic": jpanic(&p)})),
        }
    }
}

pub fn drive(args: &[String]) {
    let mut out = Out::create(arg(args, "--out").expect("--out"));
    let mut histories = 0;
    if let Some(n) = arg(args, "--bulk") {
        bulk(&mut out, n.parse().expect("--bulk N"));
        let events = out.finish();
        println!("{}", json!({"events": events, "histories": 1}));
        return;
    }
    for h in args.iter().enumerate().filter(|(_, a)| *a == "--histories").map(|(i, _)| args[i + 1].clone()) {
        let f = std::io::BufReader::new(std::fs::File::open(h).expect("histories"));
        for line in f.lines() {
            let line = line.unwrap();
            if line.trim().is_empty() { continue; }
            let v: Value = serde_json::from_str(&line).unwrap();
            let ops: Vec<(String, Value)> = v["ops"].as_array().unwrap().iter().map(|o| (o[0].as_str().unwrap().to_string(), o[1].clone())).collect();
            run_any(&mut out, &ops);
            histories += 1;
        }
    }
    let mut rng = Rng::new(arg_num(args, "--seed", 1));
    let fvals = [json!({"k": "zero", "t": 0, "m": "std"}), json!({"k": "zero", "t": 1, "m": "std"}), json!({"k": "one", "t": 0, "m": "std"}), json!({"k": "nan", "t": 0, "m": "nan"}),
                 json!({"k": "o1", "t": 0, "m": "std"}), json!({"k": "o2", "t": 0, "m": "std"})];
    let kvals: Vec<Value> = (0..3).flat_map(|k| (0..3).map(move |t| json!({"k": format!("k{}", k), "t": t, "m": "difftag"}))).collect();
    let nvals: Vec<Value> = (0..9).map(|t| json!({"k": "n", "t": 10 + t, "m": "near"})).collect();
    for k in 0..arg_num(args, "--random", 0) {
        let n = 1 + rng.below(if k % 10 == 0 { 150 } else { 40 });
        let pool: &[Value] = match k % 3 { 0 => &fvals, 1 => &kvals, _ => &nvals };
        let ops: Vec<(String, Value)> = (0..n).map(|_| (rng.pick(&["append", "fetch_or_append", "fetch_or_append"]).to_string(), rng.pick(pool).clone())).collect();
        run_any(&mut out, &ops);
        histories += 1;
    }
    let events = out.finish();
    println!("{}", json!({"events": events, "histories": histories}));
}
