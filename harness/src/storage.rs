//! Storage driver (C19): append / fetch_or_append histories on Storage<f64> and Storage<String>;
//! after every operation, lookups through ALL tokens handed out so far.
use crate::util::*;
use rspirv::sr::storage::{Storage, Token};
use serde_json::{json, Value};
use std::io::BufRead;

trait Elem: PartialEq + Sized { fn of(label: &str) -> Self; fn label(&self) -> String; }
impl Elem for f64 {
    fn of(l: &str) -> f64 { match l { "a" => 1.0, "b" => 2.5, "nan" => f64::NAN, "c" => 3.5, "dd" => 4.5, "eee" => 5.5, _ => -1.0 } }
    fn label(&self) -> String {
        if self.is_nan() { return "nan".into(); }
        for (v, l) in [(1.0, "a"), (2.5, "b"), (3.5, "c"), (4.5, "dd"), (5.5, "eee")] { if *self == v { return l.into(); } }
        format!("{}", self)
    }
}
/// a String-like element type whose "nan" value is unequal to itself
#[derive(Debug)]
struct Odd(String);
impl PartialEq for Odd { fn eq(&self, o: &Odd) -> bool { self.0 != "nan" && self.0 == o.0 } }
impl Elem for Odd { fn of(l: &str) -> Odd { Odd(l.to_string()) } fn label(&self) -> String { self.0.clone() } }

fn run<T: Elem>(out: &mut Out, ty: &str, ops: &[(String, String)]) {
    out.ev(json!({"ev": "snew", "ty": ty}));
    let mut s: Storage<T> = Storage::new();
    let mut toks: Vec<Token<T>> = vec![];
    for (op, v) in ops {
        let r = catch(|| {
            let t = if op == "append" { s.append(T::of(v)) } else { s.fetch_or_append(T::of(v)) };
            toks.push(t);
            let lookups: Vec<String> = toks.iter().map(|t| s[*t].label()).collect();
            (t.index(), lookups)
        });
        match r {
            Ok((tok, lookups)) => out.ev(json!({"ev": "scall", "st": "ok", "op": op, "v": v, "tok": tok, "lookups": lookups})),
            Err(p) => out.ev(json!({"ev": "scall", "st": "panic", "op": op, "v": v, "tok": -1, "lookups": [], "panic": jpanic(&p)})),
        }
    }
}

pub fn drive(args: &[String]) {
    let mut out = Out::create(arg(args, "--out").expect("--out"));
    let mut histories = 0;
    if let Some(h) = arg(args, "--histories") {
        let f = std::io::BufReader::new(std::fs::File::open(h).expect("histories"));
        for line in f.lines() {
            let line = line.unwrap();
            if line.trim().is_empty() { continue; }
            let v: Value = serde_json::from_str(&line).unwrap();
            let ops: Vec<(String, String)> = v["ops"].as_array().unwrap().iter().map(|o| (o[0].as_str().unwrap().to_string(), o[1].as_str().unwrap().to_string())).collect();
            run::<f64>(&mut out, "f64", &ops);
            run::<Odd>(&mut out, "string", &ops);
            histories += 2;
        }
    }
    let mut rng = Rng::new(arg_num(args, "--seed", 1));
    for k in 0..arg_num(args, "--random", 0) {
        let n = 1 + rng.below(if k % 10 == 0 { 150 } else { 40 });
        let ops: Vec<(String, String)> = (0..n).map(|_| (rng.pick(&["append", "fetch_or_append", "fetch_or_append"]).to_string(),
            rng.pick(&["a", "b", "nan", "c", "dd", "eee"]).to_string())).collect();
        if k % 2 == 0 { run::<f64>(&mut out, "f64", &ops) } else { run::<Odd>(&mut out, "string", &ops) }
        histories += 1;
    }
    let events = out.finish();
    println!("{}", json!({"events": events, "histories": histories}));
}
