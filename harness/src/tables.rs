//! Tables driver (C08, C09, C17): enum / mask conversions over the whole 32-bit range, names and
//! aliases, the grammar tables, operand reflection.
use crate::dump;
use crate::gen::enums::*;
use crate::gen::operands::*;
use crate::gen::reflect::from_unwrap;
use crate::proj::*;
use crate::util::*;
use rspirv::binary::Assemble;
use rspirv::dr;
use rspirv::grammar;
use serde_json::{json, Value};

/// accepted intervals of `f` over the probe set (sorted, deduplicated); `all`: the full 2^32 range
fn sweep_enum(kind: &str, probes: Option<&[u32]>, threads: usize) -> (Vec<(u32, u32)>, Vec<u32>, u64) {
    let f = enum_from_u32_fn(kind);
    match probes {
        Some(ps) => {
            // intervals over consecutive probe VALUES only (n and n+1 both probed and accepted)
            let mut iv: Vec<(u32, u32)> = vec![];
            let mut bad = vec![];
            for &n in ps {
                if let Some(back) = f(n) {
                    if back != n && bad.len() < 5 { bad.push(n); }
                    match iv.last_mut() {
                        Some(l) if l.1 != u32::MAX && l.1 + 1 == n => l.1 = n,
                        _ => iv.push((n, n)),
                    }
                }
            }
            (iv, bad, ps.len() as u64)
        }
        None => {
            let chunk = (1u64 << 32) / threads as u64;
            let parts: Vec<(Vec<(u32, u32)>, Vec<u32>)> = std::thread::scope(|sc| {
                let hs: Vec<_> = (0..threads).map(|t| {
                    sc.spawn(move || {
                        let lo = t as u64 * chunk;
                        let hi = if t == threads - 1 { 1u64 << 32 } else { lo + chunk };
                        let mut iv: Vec<(u32, u32)> = vec![];
                        let mut bad = vec![];
                        let mut n = lo;
                        while n < hi {
                            let x = n as u32;
                            if let Some(back) = f(x) {
                                if back != x && bad.len() < 5 { bad.push(x); }
                                match iv.last_mut() {
                                    Some(l) if l.1 != u32::MAX && l.1 + 1 == x => l.1 = x,
                                    _ => iv.push((x, x)),
                                }
                            }
                            n += 1;
                        }
                        (iv, bad)
                    })
                }).collect();
                hs.into_iter().map(|h| h.join().unwrap()).collect()
            });
            let mut iv: Vec<(u32, u32)> = vec![];
            let mut bad = vec![];
            for (piv, pb) in parts {
                for i in piv {
                    match iv.last_mut() {
                        Some(l) if l.1 != u32::MAX && l.1 + 1 == i.0 => l.1 = i.1,
                        _ => iv.push(i),
                    }
                }
                bad.extend(pb);
            }
            (iv, bad, 1u64 << 32)
        }
    }
}

/// mask conversion over probes / the whole range: OR of accepted values, first accepted value with a
/// bit outside `all`, first rejected value inside `all`
fn sweep_mask(kind: &str, probes: Option<&[u32]>, threads: usize) -> (u32, Option<u32>, Option<u32>, Option<u32>, u64) {
    let f = mask_from_bits_fn(kind);
    let all = mask_all(kind);
    let run = |it: &mut dyn Iterator<Item = u32>| {
        let (mut or, mut bad_acc, mut bad_rej, mut bad_back) = (0u32, None, None, None);
        for n in it {
            match f(n) {
                Some(b) => { or |= n; if n & !all != 0 && bad_acc.is_none() { bad_acc = Some(n); } if b != n && bad_back.is_none() { bad_back = Some(n); } }
                None => if n & !all == 0 && bad_rej.is_none() { bad_rej = Some(n); }
            }
        }
        (or, bad_acc, bad_rej, bad_back)
    };
    match probes {
        Some(ps) => { let r = run(&mut ps.iter().cloned()); (r.0, r.1, r.2, r.3, ps.len() as u64) }
        None => {
            let chunk = (1u64 << 32) / threads as u64;
            let parts: Vec<_> = std::thread::scope(|sc| {
                let hs: Vec<_> = (0..threads).map(|t| sc.spawn(move || {
                    let lo = t as u64 * chunk;
                    let hi = if t == threads - 1 { 1u64 << 32 } else { lo + chunk };
                    run(&mut (lo..hi).map(|n| n as u32))
                })).collect();
                hs.into_iter().map(|h| h.join().unwrap()).collect()
            });
            let mut r = (0u32, None, None, None);
            for p in parts { r.0 |= p.0; r.1 = r.1.or(p.1); r.2 = r.2.or(p.2); r.3 = r.3.or(p.3); }
            (r.0, r.1, r.2, r.3, 1u64 << 32)
        }
    }
}

fn jo(o: Option<u32>) -> Value { match o { Some(w) => json!([jw(w)]), None => json!([]) } }

fn boundary_probes(decl: &Value, kind: &str, rng: &mut Rng, is_mask: bool) -> Vec<u32> {
    let mut v: Vec<u32> = (0..(1u32 << 20)).collect();
    v.extend([u32::MAX, u32::MAX - 1, 0x7fff_ffff, 0x8000_0000, 0x7fff_fffe]);
    for b in 0..32 { let x = 1u32 << b; v.extend([x, x.wrapping_sub(1), x + 1]); }
    let vals = if is_mask { decl["masks"][kind].as_array() } else { decl["enums"][kind]["values"].as_array() };
    if let Some(vals) = vals {
        for d in vals { let n = d[1].as_u64().unwrap() as u32; v.extend([n, n.wrapping_add(1), n.wrapping_sub(1), n | 0x8000_0000, n.wrapping_add(1 << 16)]); }
    }
    if let Some(rs) = decl["enums"][kind]["ranges"].as_array() {
        for r in rs { for e in [r[0].as_u64().unwrap() as u32, r[1].as_u64().unwrap() as u32] { v.extend([e, e.wrapping_add(1), e.wrapping_sub(1)]); } }
    }
    for _ in 0..1_000_000 { v.push(rng.word()); }
    v.sort(); v.dedup();
    v
}

fn c08(out: &mut Out, decl: &Value, exhaustive: bool, seed: u64) {
    let threads = 16;
    let mut rng = Rng::new(seed);
    for kind in ENUM_NAMES {
        let probes = if exhaustive { None } else { Some(boundary_probes(decl, kind, &mut rng, false)) };
        let (iv, bad, n) = sweep_enum(kind, probes.as_deref(), threads);
        out.ev(json!({"ev": "sweep", "kind": kind, "exhaustive": exhaustive, "probes": if n > (1 << 31) { json!("2^32") } else { json!(n) },
            "intervals": iv.iter().map(|i| json!([jw(i.0), jw(i.1)])).collect::<Vec<_>>(),
            "back_bad": bad.iter().map(|b| jw(*b)).collect::<Vec<_>>()}));
        // names: Debug of every accepted value parses back; aliases parse to their target
        for i in &iv {
            if i.1 - i.0 > 100_000 { continue; } // an absurd interval is reported by the sweep event itself
            for n in i.0..=i.1 {
                // an accepted number that is not a declared discriminant is an undefined-behaviour value:
                // never format it (the sweep event already reports it)
                let declared = decl["enums"][*kind]["values"].as_array().map(|vs| vs.iter().any(|v| v[1].as_u64() == Some(n as u64))).unwrap_or(false);
                if !declared {
                    out.ev(json!({"ev": "name", "kind": kind, "value": jw(n), "debug": "<undeclared discriminant>", "has_fromstr": false, "parsed": [], "variant_value": []}));
                    continue;
                }
                let name = enum_debug(kind, n).unwrap_or_default();
                let parsed = if enum_has_fromstr(kind) { enum_from_str(kind, &name) } else { None };
                out.ev(json!({"ev": "name", "kind": kind, "value": jw(n), "debug": name, "has_fromstr": enum_has_fromstr(kind), "parsed": jo(parsed),
                    "variant_value": jo(enum_variant_value(kind, &enum_debug(kind, n).unwrap_or_default()))}));
            }
        }
        if let Some(al) = decl["enums"][*kind]["aliases"].as_array() {
            for a in al {
                let an = a[0].as_str().unwrap();
                out.ev(json!({"ev": "alias", "kind": kind, "alias": an, "target": a[1], "value": jo(enum_alias_value(kind, an)),
                    "has_fromstr": enum_has_fromstr(kind), "parsed": jo(enum_from_str(kind, an))}));
            }
        }
        if enum_has_fromstr(kind) {
            let first = decl["enums"][*kind]["values"][0][0].as_str().unwrap_or("X").to_string();
            for miss in [String::new(), first.to_lowercase() + "_", format!("{}_zz", first), format!(" {}", first), "Op".to_string() + &first, "\u{0}".to_string()] {
                out.ev(json!({"ev": "nearmiss", "kind": kind, "name": miss, "parsed": jo(enum_from_str(kind, &miss))}));
            }
        }
    }
    for kind in MASK_NAMES {
        let probes = if exhaustive { None } else { Some(boundary_probes(decl, kind, &mut rng, true)) };
        let (or, ba, br, bb, n) = sweep_mask(kind, probes.as_deref(), threads);
        let consts: Vec<Value> = decl["masks"][*kind].as_array().map(|cs| cs.iter().map(|c| {
            let name = c[0].as_str().unwrap();
            json!({"name": name, "decl": jw(c[1].as_u64().unwrap() as u32), "value": jo(mask_const_value(kind, name))})
        }).collect()).unwrap_or_default();
        // the printed name of every declared bit (and of the empty mask): "declared ... names agree with the Khronos grammar"
        let all = mask_all(kind);
        let disas: Vec<Value> = (0..32u32).map(|b| 1u32 << b).filter(|bit| all & bit != 0)
            .map(|bit| json!({"bit": jw(bit), "text": catch(|| mask_disas(kind, bit).unwrap_or_default()).unwrap_or_else(|_| "<panic>".to_string())})).collect();
        let disas_zero = catch(|| mask_disas(kind, 0).unwrap_or_default()).unwrap_or_else(|_| "<panic>".to_string());
        out.ev(json!({"ev": "mask", "kind": kind, "exhaustive": exhaustive, "disas": disas, "disas_zero": disas_zero, "probes": if n > (1 << 31) { json!("2^32") } else { json!(n) },
            "all": jw(mask_all(kind)), "accepted_or": jw(or), "bad_accept": jo(ba), "bad_reject": jo(br), "bad_back": jo(bb), "consts": consts}));
    }
}

fn c09(out: &mut Out, decl: &Value) {
    // the live projection of the tables, entry by entry
    let live = dump::grammar_value(decl);
    // core: all 65536 numbers
    let mut found = vec![];
    let mut wrong = vec![];
    for n in 0..=65535u32 {
        match catch(|| grammar::CoreInstructionTable::lookup_opcode(n as u16).map(|e| (e.opcode as u32, e.opname.to_string()))) {
            Ok(Some((op, _))) => { found.push(n); if op != n { wrong.push(n); } }
            Ok(None) => {}
            Err(_) => wrong.push(n),
        }
    }
    out.ev(json!({"ev": "lookup", "table": "insts", "range": 65536, "found": found, "wrong": wrong}));
    // get(op) for every declared Op, and Op <-> name
    for n in found.iter().cloned() {
        let op = spirv::Op::from_u32(n);
        let g = match op { Some(op) => catch(|| { let e = grammar::CoreInstructionTable::get(op); (e.opcode as u32, e.opname.to_string()) }).ok(), None => None };
        out.ev(json!({"ev": "get", "table": "insts", "n": n, "from_u32": op.is_some(), "op_debug": op.map(|o| format!("{:?}", o)).unwrap_or_default(),
            "get": match g { Some((o, name)) => json!([o, name]), None => json!([]) }}));
    }
    for (table, list) in [("insts", "inst_list"), ("glsl", "glsl_list"), ("opencl", "opencl_list")] {
        let entries = live[list].as_array().unwrap();
        out.ev(json!({"ev": "iter", "table": table, "opcodes": entries.iter().map(|e| e["opcode"].clone()).collect::<Vec<_>>()}));
        for e in entries {
            out.ev(json!({"ev": "entry", "table": table, "entry": e}));
        }
    }
    // interleaved lookups across the three tables (a lookup must not depend on earlier lookups)
    {
        let mut mism = vec![];
        let mut rng = Rng::new(77);
        // a panicking lookup is the answer "<panic>", which is never an entry
        let first = |t: usize, n: u32| -> Option<(u32, String)> { catch(|| match t {
            0 => grammar::CoreInstructionTable::lookup_opcode(n as u16).map(|e| (e.opcode as u32, e.opname.to_string())),
            1 => grammar::GlslStd450InstructionTable::lookup_opcode(n).map(|e| (e.opcode, e.opname.to_string())),
            _ => grammar::OpenCLStd100InstructionTable::lookup_opcode(n).map(|e| (e.opcode, e.opname.to_string())) }).unwrap_or(Some((u32::MAX, "<panic>".to_string()))) };
        // reference answers, each table swept on its own
        let refs: Vec<Vec<Option<(u32, String)>>> = (0..3).map(|t| (0..256u32).map(|n| first(t, n)).collect()).collect();
        for t in 0..3 { for n in 0..256usize { if matches!(&refs[t][n], Some((_, s)) if s == "<panic>") && mism.len() < 5 { mism.push(json!([t, n, "<panic>", "an entry or None"])); } } }
        for round in 0..6000 {
            let n = if round < 768 { (round / 3) as u32 } else { rng.below(256) as u32 };
            let t = if round < 768 { round % 3 } else { rng.below(3) };
            let got = first(t, n);
            if got != refs[t][n as usize] && mism.len() < 5 { mism.push(json!([t, n, format!("{:?}", got), format!("{:?}", refs[t][n as usize])])); }
        }
        out.ev(json!({"ev": "interleaved", "lookups": 6000, "mismatches": mism}));
    }
    // extended instruction tables: lookups over 0..4096 plus far numbers
    for (table, is_gl) in [("glsl", true), ("opencl", false)] {
        let mut found = vec![];
        let mut wrong = vec![];
        let probe: Vec<u32> = (0..4096u32).chain([65535, 65536, 1 << 20, u32::MAX]).collect();
        for n in probe {
            let r = catch(|| if is_gl { grammar::GlslStd450InstructionTable::lookup_opcode(n).map(|e| e.opcode) } else { grammar::OpenCLStd100InstructionTable::lookup_opcode(n).map(|e| e.opcode) });
            match r { Ok(Some(op)) => { found.push(n); if op != n { wrong.push(n); } } Ok(None) => {} Err(_) => wrong.push(n) } // a panic is a wrong answer
        }
        out.ev(json!({"ev": "lookup", "table": table, "range": 4096, "found": found, "wrong": wrong}));
        // get(GLOp / CLOp) for every declared extended opcode, names agree with the enum
        let kind = if is_gl { "GLOp" } else { "CLOp" };
        for n in 0..4096u32 {
            if enum_from_u32(kind, n).is_some() {
                let declared = decl["enums"][kind]["values"].as_array().map(|vs| vs.iter().any(|v| v[1].as_u64() == Some(n as u64))).unwrap_or(false);
                if !declared { out.ev(json!({"ev": "get", "table": table, "n": n, "from_u32": true, "op_debug": "<undeclared discriminant>", "get": []})); continue; }
                let name = enum_debug(kind, n).unwrap_or_default();
                let g = catch(|| if is_gl { let e = grammar::GlslStd450InstructionTable::get(spirv::GLOp::from_u32(n).unwrap()); (e.opcode, e.opname.to_string()) }
                                 else { let e = grammar::OpenCLStd100InstructionTable::get(spirv::CLOp::from_u32(n).unwrap()); (e.opcode, e.opname.to_string()) }).ok();
                out.ev(json!({"ev": "get", "table": table, "n": n, "from_u32": true, "op_debug": name, "get": match g { Some((o, nm)) => json!([o, nm]), None => json!([]) }}));
            }
        }
    }
}

fn c17(out: &mut Out, decl: &Value, seed: u64) {
    let live = dump::grammar_value(decl);
    let mut rng = Rng::new(seed);
    // (1) reflection of every enumerant / bit (params, caps, exts): the live projection per value
    for (kind, kv) in live["kinds"].as_object().unwrap() {
        if !OPERAND_VARIANTS.contains(&kind.as_str()) { continue; }
        if let Some(vals) = kv["values"].as_object() {
            for (key, v) in vals {
                out.ev(json!({"ev": "reflect", "kind": kind, "key": key, "cat": "ValueEnum", "params": v["params"], "caps": v["caps"], "exts": v["exts"]}));
            }
        }
        if let Some(bits) = kv["bits"].as_array() {
            // single bits come from the dump; combinations: none, all, pairs, random
            let all = unw(&kv["all"]);
            let singles: Vec<u32> = bits.iter().map(|b| unw(&b["bit"])).collect();
            let mut combos: Vec<u32> = vec![0, all];
            combos.extend(singles.iter());
            for a in &singles { for b in &singles { if a < b { combos.push(a | b); } } }
            for _ in 0..40 { combos.push(rng.word() & all); }
            combos.sort(); combos.dedup();
            for c in combos {
                let op = match operand_make(kind, &[c], None) { Some(o) => o, None => continue };
                let r = catch(|| (op.additional_operands(), op.required_capabilities(), op.required_extensions()));
                match r {
                    Ok((p, caps, exts)) => out.ev(json!({"ev": "reflect", "kind": kind, "key": dump::key_of(c), "value": jw(c), "cat": "BitEnum",
                        "params": p.iter().map(|o| json!({"k": format!("{:?}", o.kind), "q": format!("{:?}", o.quantifier)})).collect::<Vec<_>>(),
                        "caps": caps.iter().map(|c| format!("{:?}", c)).collect::<Vec<_>>(), "exts": exts})),
                    Err(p) => out.ev(json!({"ev": "reflect", "kind": kind, "key": dump::key_of(c), "value": jw(c), "cat": "BitEnum", "params": ["panic"], "caps": [], "exts": [], "panic": jpanic(&p)})),
                }
            }
        }
    }
    // (1b) the same questions asked in ANOTHER ORDER: one word after the other, each put to every mask kind in turn (and a
    // value-enum operand in between): the answer for (kind, word) must not depend on what was asked before
    let mask_kinds: Vec<(String, u32)> = live["kinds"].as_object().unwrap().iter()
        .filter(|(k, kv)| OPERAND_VARIANTS.contains(&k.as_str()) && kv["bits"].is_array()).map(|(k, kv)| (k.clone(), unw(&kv["all"]))).collect();
    let mut words: Vec<u32> = (0..=17u32).collect();
    words.extend((5..20).map(|b| 1u32 << b));
    for round in 0..2 {
        for &w in &words {
            let order: Vec<&(String, u32)> = if round == 0 { mask_kinds.iter().collect() } else { mask_kinds.iter().rev().collect() };
            for (kind, all) in order {
                if w & all != w { continue; }
                let op = match operand_make(kind, &[w], None) { Some(o) => o, None => continue };
                let between = dr::Operand::Decoration(spirv::Decoration::SpecId);
                let r = catch(|| { let x = (op.additional_operands(), op.required_capabilities(), op.required_extensions()); let _ = between.additional_operands(); x });
                match r {
                    Ok((p, caps, exts)) => out.ev(json!({"ev": "reflect", "kind": kind, "key": dump::key_of(w), "value": jw(w), "cat": "BitEnum",
                        "params": p.iter().map(|o| json!({"k": format!("{:?}", o.kind), "q": format!("{:?}", o.quantifier)})).collect::<Vec<_>>(),
                        "caps": caps.iter().map(|c| format!("{:?}", c)).collect::<Vec<_>>(), "exts": exts})),
                    Err(p) => out.ev(json!({"ev": "reflect", "kind": kind, "key": dump::key_of(w), "value": jw(w), "cat": "BitEnum", "params": ["panic"], "caps": [], "exts": [], "panic": jpanic(&p)})),
                }
            }
        }
    }
    // (2) id_ref_any / id_ref_any_mut / From / unwrap for every operand variant
    let id_payloads: [u32; 5] = [0x00ab_cdef, 0, 1, u32::MAX, 0x8000_0000];
    for (variant, round) in OPERAND_VARIANTS.iter().flat_map(|v| (0..5usize).map(move |r| (v, r))) {
        let is_id = matches!(*variant, "IdRef" | "IdScope" | "IdMemorySemantics");
        // payloads: boundary words for the plain-word variants, strings with NULs / blanks / non-ASCII at either end,
        // full / empty / lowest-bit masks, several enumerants
        let strs = ["str\u{e9}", "", "main\0", "\0", " a\0b \n"];
        let (w, s): (Vec<u32>, &str) = match *variant {
            _ if is_id => (vec![id_payloads[round]], ""),
            "LiteralString" => (vec![], strs[round]),
            "LiteralBit64" => (vec![[0x1111_2222u32, 0, u32::MAX, 0, 0x8000_0000][round], [0x3333_4444u32, 0, u32::MAX, 1, 0][round]], ""),
            "LiteralSpecConstantOpInteger" => (vec![[128u32, 0, 1, 124, 79][round]], ""),
            v if MASK_NAMES.contains(&v) => (vec![match round { 0 => mask_all(v), 1 => 0, 2 => mask_all(v) & mask_all(v).wrapping_neg(), 3 => mask_all(v) & 0x5555_5555, _ => mask_all(v) & 0xaaaa_aaaa }], ""),
            v if ENUM_NAMES.contains(&v) => {
                let mut x = 0; for n in 0..70000u32 { if enum_from_u32(v, n).is_some() { x = n; if rng.chance(1, 3) { break; } } }
                if enum_from_u32(v, x).is_none() { x = 0x7fff_ffff; }
                (vec![x], "")
            }
            _ => (vec![id_payloads[round]], ""),
        };
        let op = match operand_make(variant, &w, Some(s)) { Some(o) => o, None => { out.ev(json!({"ev": "operand", "variant": variant, "st": "unmakeable"})); continue; } };
        let r = catch(|| {
            let any = op.id_ref_any();
            // rewriting the id through id_ref_any_mut inside an instruction: which words of assemble() change?
            let mut inst = dr::Instruction::new(spirv::Op::Nop, Some(7), Some(8), vec![dr::Operand::LiteralBit32(1), op.clone(), dr::Operand::LiteralBit32(2)]);
            let before = inst.assemble();
            let mut changed: Vec<usize> = vec![];
            let had_mut = if let Some(r) = inst.operands[1].id_ref_any_mut() { *r = 0x0055_5555; true } else { false };
            let after = inst.assemble();
            if before.len() == after.len() { for i in 0..before.len() { if before[i] != after[i] { changed.push(i); } } } else { changed.push(usize::MAX); }
            let fu = from_unwrap(variant, &w, s);
            (any, had_mut, changed, after, fu)
        });
        match r {
            Ok((any, had_mut, changed, after, fu)) => out.ev(json!({"ev": "operand", "variant": variant, "st": "ok", "payload": jws(&w),
                "id_ref_any": jo(any), "id_ref_any_mut": had_mut, "changed_words": changed, "after": jws(&after),
                "from_ok": fu.map(|f| f.0), "unwrap_ok": fu.map(|f| f.1)})),
            Err(p) => out.ev(json!({"ev": "operand", "variant": variant, "st": "panic", "panic": jpanic(&p)})),
        }
    }
}

pub fn drive(args: &[String]) {
    let decl: Value = serde_json::from_reader(std::fs::File::open(arg(args, "--decl").expect("--decl")).expect("decl")).expect("decl json");
    let mut out = Out::create(arg(args, "--out").expect("--out"));
    let seed = arg_num(args, "--seed", 1);
    match arg(args, "--suite").unwrap_or("c08") {
        "c08" => c08(&mut out, &decl, args.iter().any(|a| a == "--exhaustive"), seed),
        "c09" => c09(&mut out, &decl),
        "c17" => c17(&mut out, &decl, seed),
        other => panic!("vh: unknown tables suite {}", other),
    }
    let events = out.finish();
    println!("{}", json!({"events": events}));
}
