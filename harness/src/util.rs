//! Shared helpers: JSON encodings, panic capture, deterministic RNG, NDJSON writer.
use serde_json::{json, Value};
use std::cell::RefCell;
use std::io::Write;
use std::panic::{self, AssertUnwindSafe};

/// A 32-bit word as [hi16, lo16] (TLC integers are 32-bit signed).
pub fn jw(w: u32) -> Value {
    json!([w >> 16, w & 0xffff])
}
pub fn jws(ws: &[u32]) -> Value {
    Value::Array(ws.iter().map(|w| jw(*w)).collect())
}
pub fn jbytes(bs: &[u8]) -> Value {
    Value::Array(bs.iter().map(|b| json!(*b)).collect())
}
pub fn unw(v: &Value) -> u32 {
    let a = v.as_array().expect("word must be [hi,lo]");
    ((a[0].as_u64().unwrap() as u32) << 16) | (a[1].as_u64().unwrap() as u32)
}
pub fn unbytes(v: &Value) -> Vec<u8> {
    v.as_array().expect("bytes").iter().map(|b| b.as_u64().unwrap() as u8).collect()
}
pub fn jopt_w(o: Option<u32>) -> Value {
    match o {
        Some(w) => json!([jw(w)]),
        None => json!([]),
    }
}
/// usize that can exceed 2^31: small values as numbers, big ones as "big"
pub fn jn(n: usize) -> Value {
    if n < (1usize << 30) {
        json!(n)
    } else {
        json!(-3) // "Huge": beyond anything a buffer offset can legitimately be
    }
}

thread_local! {
    static LAST_PANIC: RefCell<Option<(String, String)>> = RefCell::new(None);
    /// nesting depth of catch(): a panic outside any catch() is the harness's own and is reported on stderr
    static CATCH_DEPTH: std::cell::Cell<u32> = std::cell::Cell::new(0);
}

pub fn install_panic_hook() {
    panic::set_hook(Box::new(|info| {
        let msg = if let Some(s) = info.payload().downcast_ref::<&str>() {
            s.to_string()
        } else if let Some(s) = info.payload().downcast_ref::<String>() {
            s.clone()
        } else {
            "<non-string panic>".to_string()
        };
        let loc = info.location().map(|l| l.file().to_string()).unwrap_or_default();
        if CATCH_DEPTH.with(|d| d.get()) == 0 {
            eprintln!("vh: panic outside the code under observation: {} ({}:{})", msg, loc, info.location().map(|l| l.line()).unwrap_or(0));
        }
        LAST_PANIC.with(|p| *p.borrow_mut() = Some((msg, loc)));
    }));
}

/// Runs `f`, turning a panic of the code under test into data.
pub fn catch<T>(f: impl FnOnce() -> T) -> Result<T, (String, String)> {
    LAST_PANIC.with(|p| *p.borrow_mut() = None);
    CATCH_DEPTH.with(|d| d.set(d.get() + 1));
    let r = panic::catch_unwind(AssertUnwindSafe(f));
    CATCH_DEPTH.with(|d| d.set(d.get() - 1));
    match r {
        Ok(v) => Ok(v),
        Err(_) => Err(LAST_PANIC.with(|p| p.borrow_mut().take()).unwrap_or(("<unknown>".into(), "".into()))),
    }
}
pub fn jpanic(p: &(String, String)) -> Value {
    // file path made relative to the repository so that the witness is stable
    let f = p.1.strip_prefix("/repo/").unwrap_or(&p.1).to_string();
    let m: String = p.0.chars().take(120).collect();
    json!(["Panic", m, f])
}

/// SplitMix64: deterministic, seedable, no dependencies.
pub struct Rng(pub u64);
impl Rng {
    pub fn new(seed: u64) -> Rng {
        // hash the seed so that consecutive seeds give unrelated streams
        let mut z = seed.wrapping_add(0x1234_5678_9abc_def1);
        z = (z ^ (z >> 30)).wrapping_mul(0xBF58476D1CE4E5B9);
        z = (z ^ (z >> 27)).wrapping_mul(0x94D049BB133111EB);
        Rng(z ^ (z >> 31))
    }
    pub fn next(&mut self) -> u64 {
        self.0 = self.0.wrapping_add(0x9E3779B97F4A7C15);
        let mut z = self.0;
        z = (z ^ (z >> 30)).wrapping_mul(0xBF58476D1CE4E5B9);
        z = (z ^ (z >> 27)).wrapping_mul(0x94D049BB133111EB);
        z ^ (z >> 31)
    }
    pub fn below(&mut self, n: usize) -> usize {
        if n == 0 { 0 } else { (self.next() % (n as u64)) as usize }
    }
    pub fn pick<'a, T>(&mut self, xs: &'a [T]) -> &'a T {
        &xs[self.below(xs.len())]
    }
    pub fn chance(&mut self, num: usize, den: usize) -> bool {
        self.below(den) < num
    }
    pub fn word(&mut self) -> u32 {
        self.next() as u32
    }
    /// A count that is usually small (`below(small)`) and now and then far beyond what small examples reach
    /// (thresholds: 8, 16, 32, 64, 128, 256 and their neighbours).  Instruction level (operand repetitions): at most
    /// one big draw per generated instruction (`scale_reset_inst`), so that nested counts cannot multiply.
    pub fn count(&mut self, small: usize) -> usize {
        if INST_BIG_LEFT.with(|b| b.get()) > 0 && self.chance(1, 24) {
            INST_BIG_LEFT.with(|b| b.set(b.get() - 1));
            *self.pick(BIG_COUNTS)
        } else {
            self.below(small)
        }
    }
    /// The same at module level (elements of a section, functions, parameters, blocks, instructions of a block): at
    /// most one big draw per generated module / history (`scale_reset_mod`).
    pub fn count_mod(&mut self, small: usize) -> usize {
        if MOD_BIG_LEFT.with(|b| b.get()) > 0 && self.chance(1, 40) {
            MOD_BIG_LEFT.with(|b| b.set(b.get() - 1));
            // trace validation of a module is more than linear in its size: the quick tier stops at 65 elements, the
            // thorough tier (VH_SCALE_MAX=300) goes on to the 8-bit boundary
            let max = std::env::var("VH_SCALE_MAX").ok().and_then(|v| v.parse::<usize>().ok()).unwrap_or(65);
            let cands: Vec<usize> = BIG_COUNTS.iter().cloned().filter(|c| *c <= max).collect();
            *self.pick(&cands)
        } else {
            self.below(small)
        }
    }
}
pub const BIG_COUNTS: &[usize] = &[8, 9, 15, 16, 17, 31, 32, 33, 40, 63, 64, 65, 100, 127, 128, 129, 255, 256, 257, 300];
thread_local! {
    static INST_BIG_LEFT: std::cell::Cell<u32> = std::cell::Cell::new(0);
    static MOD_BIG_LEFT: std::cell::Cell<u32> = std::cell::Cell::new(0);
}
pub fn scale_reset_inst() { INST_BIG_LEFT.with(|b| b.set(1)); }
pub fn scale_reset_mod() { MOD_BIG_LEFT.with(|b| b.set(1)); }
/// A string of exactly `n` bytes (ASCII letters; every 7th a two-byte character when `n` allows it).
pub fn long_string(n: usize) -> String {
    let mut s = String::with_capacity(n);
    let mut k = 0usize;
    while s.len() < n {
        if k % 7 == 6 && s.len() + 2 <= n { s.push('\u{e9}'); } else { s.push((b'a' + (k % 26) as u8) as char); }
        k += 1;
    }
    s
}
pub const LONG_LENGTHS: &[usize] = &[15, 16, 17, 31, 32, 33, 59, 60, 61, 62, 63, 64, 65, 66, 67, 68, 127, 128, 129, 252, 253, 254, 255, 256, 257, 511, 512, 1020, 1023, 1024, 1025];

pub struct Out {
    w: std::io::BufWriter<std::fs::File>,
    pub n: usize,
}
impl Out {
    pub fn create(path: &str) -> Out {
        if let Some(p) = std::path::Path::new(path).parent() {
            let _ = std::fs::create_dir_all(p);
        }
        Out { w: std::io::BufWriter::new(std::fs::File::create(path).expect("create trace")), n: 0 }
    }
    pub fn ev(&mut self, v: Value) {
        serde_json::to_writer(&mut self.w, &v).unwrap();
        self.w.write_all(b"\n").unwrap();
        self.n += 1;
    }
    pub fn finish(mut self) -> usize {
        self.w.flush().unwrap();
        self.n
    }
}

pub fn arg<'a>(args: &'a [String], name: &str) -> Option<&'a str> {
    args.iter().position(|a| a == name).and_then(|i| args.get(i + 1)).map(|s| s.as_str())
}
pub fn arg_num(args: &[String], name: &str, default: u64) -> u64 {
    arg(args, name).map(|s| s.parse().expect("numeric argument")).unwrap_or(default)
}
