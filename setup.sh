#!/bin/sh
# Builds the framework from files on disk only (offline): generated glue + Rust harness.
set -e
cd "$(dirname "$0")"
export CARGO_NET_OFFLINE=true
mkdir -p build evidence replays
[ -f harness/Cargo.lock ] || cp /repo/Cargo.lock harness/Cargo.lock
python3 harness/gen.py
(cd harness && cargo build --release --offline)
echo "setup ok"
