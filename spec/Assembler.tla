------------------------------ MODULE Assembler ------------------------------
(***************************************************************************)
(* Specification of rspirv::binary::Assemble (C02, C15): the encoding the  *)
(* SPIR-V specification prescribes for operands, instructions, headers and *)
(* modules.  Instructions are records [op, rt, rid, ops] with operands     *)
(* [k, w, s] (variant, payload words, string bytes).                       *)
(***************************************************************************)
EXTENDS Integers, Sequences, FiniteSets, Words

\* enumerants as their numeric value, masks as their bits, ids and 32-bit literals as one
\* word, 64-bit literals low word first, strings NUL-terminated and zero-padded
EncodeOperand(o) == IF o.k = "LiteralString" THEN PackString(o.s) ELSE o.w

RECURSIVE EncodeOperands(_, _)
EncodeOperands(ops, i) == IF i > Len(ops) THEN <<>> ELSE EncodeOperand(ops[i]) \o EncodeOperands(ops, i + 1)

EncodeInst(i) ==
  LET body == i.rt \o i.rid \o EncodeOperands(i.ops, 1)
  IN  <<FirstWord(Len(body) + 1, i.op)>> \o body       \* word count = number of words emitted

RECURSIVE EncodeInsts(_, _)
EncodeInsts(is, j) == IF j > Len(is) THEN <<>> ELSE EncodeInst(is[j]) \o EncodeInsts(is, j + 1)

EncodeHeader(h) == <<h.magic, h.version, h.generator, h.bound, h.reserved>>
=============================================================================
