------------------------------- MODULE Builder -------------------------------
(***************************************************************************)
(* Specification of rspirv::dr::Builder (properties C12, C13; the building *)
(* half of C06; the Builder clause of C16).                                *)
(*                                                                         *)
(* State: the module under construction (shape of Module.tla), the         *)
(* selected function / block (<<>> or <<index>>, 0-based like the API),    *)
(* and the next id.  Every public call is classified by its KIND:          *)
(*   global | type | type_id | const | block | insert_block | term |       *)
(*   insert_term | var_undef | line | begin_function | end_function |      *)
(*   param | begin_block | begin_block_no_label | select_function |        *)
(*   select_block | pop | id                                               *)
(* The operators below give, for a call in a state, the outcome the        *)
(* properties REQUIRE (Ok / Err, where the emitted instruction goes, the   *)
(* selection afterwards, what happens to the id counter), with named       *)
(* freedoms where the properties are silent.                               *)
(***************************************************************************)
EXTENDS Integers, Sequences, FiniteSets, Module

None == <<>>
Some(x) == <<x>>
IsSome(o) == o # <<>>
Val(o) == o[1]

NFuncs(m) == Len(m.functions)
Fn(m, f) == m.functions[f + 1]                      \* 0-based index
NBlocks(m, f) == Len(Fn(m, f).blocks)
Blk(m, f, b) == Fn(m, f).blocks[b + 1]

\* C12: "the function/block selection always designates an existing function and block or nothing"
SelectionValid(m, selF, selB) ==
  /\ (IsSome(selF) => Val(selF) >= 0 /\ Val(selF) < NFuncs(m))
  /\ (IsSome(selB) => IsSome(selF) /\ Val(selB) >= 0 /\ Val(selB) < NBlocks(m, Val(selF)))

\* insertion index (0-based position of the new instruction) for an insert point in a block of n instructions
InsertIndex(ip, n) ==
  CASE ip[1] = "End" -> n
    [] ip[1] = "Begin" -> 0
    [] ip[1] = "FromBegin" -> ip[2]
    [] ip[1] = "FromEnd" -> n - ip[2]
InsertSeq(s, k, x) == SubSeq(s, 1, k) \o <<x>> \o SubSeq(s, k + 1, Len(s))
RemoveAt(s, k) == SubSeq(s, 1, k) \o SubSeq(s, k + 2, Len(s))      \* k 0-based

\* module with instruction x inserted at 0-based position k of block (f, b)
WithBlockInst(m, f, b, k, x) ==
  [m EXCEPT !.functions[f + 1].blocks[b + 1].insts = InsertSeq(@, k, x)]
WithSection(m, sec, x) ==
  IF sec = "memory_model" THEN [m EXCEPT !.memory_model = <<x>>] ELSE [m EXCEPT ![sec] = Append(@, x)]

---------------------------------------------------------------------------
(* Whether the call must succeed.  C12: "Beginning a function fails iff one is open, beginning a
   block fails iff no function is open or a block is open, appending a block instruction or
   terminator fails iff no block is selected, and declaring a parameter or ending a function fails
   iff no function is open".  Module-level calls, type / constant requests, variables, lines and
   id() cannot fail (they return no Result). *)
\* (a selection that designates nothing -- already a violation of C12 when it arose -- counts as
\*  "nothing selected" here, so that the rest of a recorded history can still be judged)
BlockSelected(m, selF, selB) == IsSome(selF) /\ IsSome(selB) /\ SelectionValid(m, selF, selB)
MustFail(kind, m, selF, selB, idx) ==
  CASE kind = "begin_function" -> IsSome(selF)
    [] kind \in {"begin_block", "begin_block_no_label"} -> ~IsSome(selF) \/ IsSome(selB) \/ ~SelectionValid(m, selF, None)
    [] kind \in {"block", "insert_block", "term", "insert_term"} -> ~BlockSelected(m, selF, selB)
    [] kind \in {"param", "end_function"} -> ~IsSome(selF) \/ ~SelectionValid(m, selF, None)
    \* selections: an index that designates nothing must be refused (else the selection is invalid)
    [] kind = "select_function" -> IsSome(idx) /\ ~(Val(idx) < NFuncs(m))
    [] kind = "select_block" -> IsSome(idx) /\ (~IsSome(selF) \/ ~SelectionValid(m, selF, None) \/ ~(Val(idx) < NBlocks(m, Val(selF))))
    [] kind = "pop" -> ~BlockSelected(m, selF, selB) \/ Len(Blk(m, Val(selF), Val(selB)).insts) = 0
    [] OTHER -> FALSE

\* selection after a successful call: set of admissible <<selF', selB'>>
SelectionAfter(kind, m2, selF, selB, idx) ==
  CASE kind = "begin_function" -> {<<Some(NFuncs(m2) - 1), selB>>}
    \* "ending a function closes the function" (and nothing stays selected inside it)
    [] kind = "end_function" -> {<<None, None>>}
    [] kind \in {"begin_block", "begin_block_no_label"} -> {<<selF, Some(NBlocks(m2, Val(selF)) - 1)>>}
    \* "a terminator closes the block"
    [] kind \in {"term", "insert_term"} -> {<<selF, None>>}
    [] kind = "select_function" ->
         IF ~IsSome(idx) THEN {<<None, None>>}
         \* freedom: a block selection may be kept only if it is valid for the newly selected function
         ELSE {<<idx, None>>} \cup (IF IsSome(selB) /\ Val(selB) < NBlocks(m2, Val(idx)) THEN {<<idx, selB>>} ELSE {})
    [] kind = "select_block" -> {<<selF, idx>>}
    [] OTHER -> {<<selF, selB>>}

---------------------------------------------------------------------------
(* Completeness of a built module (C06): every function has its definition and end, every block
   its label and exactly one terminator, which is last.  IsTerm(i): block-termination opcode. *)
Complete(m, IsTerm(_)) ==
  \A f \in 1..Len(m.functions) :
    /\ Len(m.functions[f].def) = 1 /\ Len(m.functions[f].end) = 1
    /\ \A b \in 1..Len(m.functions[f].blocks) :
         LET blk == m.functions[f].blocks[b] IN
         /\ Len(blk.label) = 1 /\ Len(blk.insts) >= 1
         /\ IsTerm(blk.insts[Len(blk.insts)])
         /\ \A x \in 1..(Len(blk.insts) - 1) : ~IsTerm(blk.insts[x])

\* every result id an instruction of the module carries
RECURSIVE RidsOf(_, _)
RidsOf(is, j) == IF j > Len(is) THEN {} ELSE (IF is[j].rid = <<>> THEN {} ELSE {is[j].rid[1]}) \cup RidsOf(is, j + 1)
=============================================================================
