------------------------- MODULE BuilderExtraTrace -------------------------
(***************************************************************************)
(* Specification growth beyond the listed properties: further Builder      *)
(* behaviours, each with its meaning as a TLA+ operator and a trace check: *)
(*   select_function_by_name, find_return_block_indices,                   *)
(*   insert_types_global_values, dedup_insert_type, version / set_version. *)
(* Rejections here are reported as EXTRA observations, never as            *)
(* violations of a listed property.                                        *)
(***************************************************************************)
EXTENDS Integers, Sequences, FiniteSets, TLC, Json, IOUtils, SpecFacts, Builder

Rec == ndJsonDeserialize(IOEnv.TRACE)
VARIABLES l, bad
vars == <<l, bad>>

\* select_function_by_name(name): the first OpName entry (in debug_names order) whose string is `name' and whose
\* target is the result id of some function definition selects the first such function; otherwise an error
\* and the selection is unchanged.
NameHits(m, name) == { j \in 1..Len(m.debug_names) :
                        /\ OpName(m.debug_names[j].op) = "Name" /\ Len(m.debug_names[j].ops) = 2
                        /\ m.debug_names[j].ops[2].s = name
                        /\ \E f \in 1..Len(m.functions) : m.functions[f].def[1].rid = <<m.debug_names[j].ops[1].w[1]>> }
ByName(m, name) == LET h == NameHits(m, name) IN
  IF h = {} THEN -1
  ELSE LET j == CHOOSE j \in h : \A x \in h : j <= x
           fs == { f \in 1..Len(m.functions) : m.functions[f].def[1].rid = <<m.debug_names[j].ops[1].w[1]>> }
       IN (CHOOSE f \in fs : \A x \in fs : f <= x) - 1
SelectByNameOK(e) ==
  LET m == e.module[1]  idx == ByName(m, e.name) IN
  IF idx < 0 THEN e.res = <<"Err">> /\ e.post = e.pre
  ELSE /\ e.res = <<"Ok">>
       /\ <<e.post[1], e.post[2]>> \in SelectionAfter("select_function", m, e.pre[1], e.pre[2], <<idx>>)
       /\ SelectionValid(m, e.post[1], e.post[2])

\* find_return_block_indices(): indices of the selected function's blocks whose last instruction is a return
ReturnBlocksOK(e) ==
  LET m == e.module[1] IN
  IF e.selF = <<>> THEN e.res = <<"Ok", <<>>>>
  ELSE LET f == m.functions[e.selF[1] + 1]
           want == SelectSeq([b \in 1..Len(f.blocks) |-> b - 1],
                             LAMBDA b : Len(f.blocks[b + 1].insts) >= 1 /\ OpName(f.blocks[b + 1].insts[Len(f.blocks[b + 1].insts)].op) \in ReturnNames)
       IN e.res = <<"Ok", want>>

InsertGlobalOK(e) == e.st = "ok" /\ e.after = InsertSeq(e.before, InsertIndex(e.ip, Len(e.before)), e.inst)

\* dedup_insert_type(inst): the id of the first declaration with the same opcode and operands that has an id
DedupOK(e) ==
  LET hits == { j \in 1..Len(e.types) : e.types[j].op = e.probe.op /\ e.types[j].ops = e.probe.ops /\ e.types[j].rid # <<>> } IN
  IF hits = {} THEN e.res = <<"Ok">>
  ELSE e.res = <<"Ok", e.types[CHOOSE j \in hits : \A x \in hits : j <= x].rid[1]>>

VersionOK(e) == e.before = <<>> /\ e.after = e.set

OK(e) == CASE e.what = "select_by_name" -> SelectByNameOK(e)
           [] e.what = "return_blocks" -> ReturnBlocksOK(e)
           [] e.what = "insert_global" -> InsertGlobalOK(e)
           [] e.what = "dedup" -> DedupOK(e)
           [] e.what = "version" -> VersionOK(e)
           [] OTHER -> TRUE
IsPanic(e) == ("res" \in DOMAIN e /\ e.res[1] = "Panic") \/ ("st" \in DOMAIN e /\ e.st = "panic")
Init == l = 1 /\ bad = <<>>
Next == /\ l <= Len(Rec)
        \* code 16 (+1): after select_function_by_name the selection designates nothing that exists - the one sentence of a
        \* LISTED property (C12: "the function/block selection always designates an existing function and block or
        \* nothing", for every sequence of Builder calls) that these calls fall under; 5: the call panicked (C12 too)
        /\ LET e == Rec[l]
               c == IF IsPanic(e) THEN 5
                    ELSE IF e.what = "select_by_name" /\ ~SelectionValid(e.module[1], e.post[1], e.post[2]) THEN 17
                    ELSE IF OK(e) THEN 0 ELSE 1
           IN bad' = IF c = 0 THEN bad ELSE (IF Len(bad) >= 5000 THEN bad ELSE Append(bad, <<l, c>>))
        /\ l' = l + 1
Spec == Init /\ [][Next]_vars
Done == l = Len(Rec) + 1
Report == Done => PrintT(<<"TRACE-RESULT", Len(Rec), bad>>)
=============================================================================
