SPECIFICATION Spec
INVARIANT Report
INVARIANT NamesExist
CHECK_DEADLOCK FALSE
