---------------------------- MODULE BuilderTrace ----------------------------
(***************************************************************************)
(* Trace validation for the Builder (C12, C13, C06, Builder clause of C16).*)
(* Events: bnew (a new builder), bcall (one public call with its           *)
(* arguments in call order, result, selection and module afterwards),      *)
(* bfinish (module(), assemble, load).                                     *)
(* The id counter is not observable; the trace state carries the SET of    *)
(* values it may have (a failing call may burn one id).                    *)
(* Rejected events are reported as <<index, code>>, code bits:             *)
(*   1  structure / selection / failed-call-changes-nothing (C12)          *)
(*   2  id discipline, type deduplication, bound (C13)                     *)
(*   4  panic (C12)                                                        *)
(*   8  emitted instruction: opcode, argument order, conformance, section; *)
(*      assemble-then-load round trip (C06)                                *)
(*   16 terminator-ness of the method disagrees with the specification     *)
(*      (C16: "the Builder ends a block for exactly the opcodes ...")      *)
(***************************************************************************)
EXTENDS Integers, Sequences, FiniteSets, TLC, Json, IOUtils, SpecFacts, Parser, Builder

Rec == ndJsonDeserialize(IOEnv.TRACE)
Methods == JsonDeserialize(IOEnv.METHODS)

VARIABLES l, bad, pm, selF, selB, next, alloc
vars == <<l, bad, pm, selF, selB, next, alloc>>

NameToKey == [n \in DeclaredNames |-> CHOOSE k \in DOMAIN G.insts : G.insts[k].name = n]
OpNum(name) == G.insts[NameToKey[name]].opcode
IsTermInst(i) == OpName(i.op) \in TerminatorNames

\* the kind of a method: the pinned table, with the block / terminator distinction taken from the
\* SPECIFICATION (SpecFacts!TerminatorNames), not from the tree
KindOf(mname) ==
  LET k == Methods[mname].kind  o == Methods[mname].op IN
  IF k \in {"block", "term"} THEN (IF o \in TerminatorNames THEN "term" ELSE "block")
  ELSE IF k \in {"insert_block", "insert_term"} THEN (IF o \in TerminatorNames THEN "insert_term" ELSE "insert_block")
  ELSE k

WordOfId(n) == <<0, n>>
IdOfWord(w) == w[2]         \* builder ids stay far below 2^16 in every history

\* operand payloads in order: one item per word, one item per string
RECURSIVE Flat(_, _)
Flat(ops, j) ==
  IF j > Len(ops) THEN <<>>
  ELSE (IF ops[j].k = "LiteralString" THEN <<[s |-> ops[j].s]>> ELSE [x \in 1..Len(ops[j].w) |-> [w |-> ops[j].w[x]]])
       \o Flat(ops, j + 1)

\* C06: the instruction conforms to the grammar of its opcode (context-dependent literals: a
\* 32- or 64-bit literal, whichever the caller chose)
Conforms(x) ==
  IF x.op \in {OpConstant, OpSpecConstant}
  THEN Len(x.ops) = 1 /\ x.ops[1].k \in {"LiteralBit32", "LiteralBit64"}
  ELSE IF x.op = OpSwitch
  THEN /\ Len(x.ops) >= 2 /\ Len(x.ops) % 2 = 0 /\ x.ops[1].k = "IdRef" /\ x.ops[2].k = "IdRef"
       /\ \A j \in 2..(Len(x.ops) \div 2) : x.ops[2 * j - 1].k \in {"LiteralBit32", "LiteralBit64"} /\ x.ops[2 * j].k = "IdRef"
       /\ \A j \in 2..(Len(x.ops) \div 2) : x.ops[2 * j - 1].k = x.ops[3].k
  ELSE LET enc == EncodeInst(x)  r == ParseInst(enc, 1, NoTypes) IN r.st = "ok" /\ r.inst = x

ReturnsId(e) == Len(e.res) = 2
Returned(e) == IdOfWord(e.res[2])

---------------------------------------------------------------------------
\* where the kind files the new instruction, given the state BEFORE the call:
\*   <<"section", name>> | <<"block", f, b, k>> | <<"newfn">> | <<"end", f>> | <<"param", f>> | <<"newblock", f, labelled>>
Place(kind, e, opnum) ==
  LET both == BlockSelected(pm, selF, selB)
      n == IF both THEN Len(Blk(pm, Val(selF), Val(selB)).insts) ELSE 0
  IN
  CASE kind = "global" -> <<"section", SectionOfClass(LoaderClass(opnum))>>
    [] kind \in {"type", "type_id", "const"} -> <<"section", "types_global_values">>
    [] kind \in {"block", "term"} -> <<"block", Val(selF), Val(selB), n>>
    [] kind \in {"insert_block", "insert_term"} -> <<"block", Val(selF), Val(selB), InsertIndex(e.ip, n)>>
    [] kind = "var_undef" -> IF both THEN <<"block", Val(selF), Val(selB), n>> ELSE <<"section", "types_global_values">>
    [] kind = "line" -> IF both THEN <<"block", Val(selF), Val(selB), n>> ELSE <<"section", "types_global_values">>
    [] kind = "begin_function" -> <<"newfn">>
    [] kind = "end_function" -> <<"end", Val(selF)>>
    [] kind = "param" -> <<"param", Val(selF)>>
    [] kind = "begin_block" -> <<"newblock", Val(selF), TRUE>>
    [] kind = "begin_block_no_label" -> <<"newblock", Val(selF), FALSE>>

\* the instruction found at that place in the logged module lm (<<>> if it is not there)
Found(p, lm) ==
  CASE p[1] = "section" ->
         IF p[2] = "memory_model" THEN lm.memory_model
         ELSE IF Len(lm[p[2]]) >= 1 THEN <<lm[p[2]][Len(lm[p[2]])]>> ELSE <<>>
    [] p[1] = "block" ->
         IF Len(lm.functions) > p[2] /\ Len(lm.functions[p[2] + 1].blocks) > p[3]
            /\ Len(lm.functions[p[2] + 1].blocks[p[3] + 1].insts) > p[4] /\ p[4] >= 0
         THEN <<lm.functions[p[2] + 1].blocks[p[3] + 1].insts[p[4] + 1]>> ELSE <<>>
    [] p[1] = "newfn" -> IF Len(lm.functions) >= 1 THEN lm.functions[Len(lm.functions)].def ELSE <<>>
    [] p[1] = "end" -> IF Len(lm.functions) > p[2] THEN lm.functions[p[2] + 1].end ELSE <<>>
    [] p[1] = "param" -> IF Len(lm.functions) > p[2] /\ Len(lm.functions[p[2] + 1].params) >= 1
                         THEN <<lm.functions[p[2] + 1].params[Len(lm.functions[p[2] + 1].params)]>> ELSE <<>>
    [] p[1] = "newblock" -> IF Len(lm.functions) > p[2] /\ Len(lm.functions[p[2] + 1].blocks) >= 1
                            THEN (IF p[3] THEN lm.functions[p[2] + 1].blocks[Len(lm.functions[p[2] + 1].blocks)].label ELSE <<>>) ELSE <<>>

\* the module the call must produce from pm when it files instruction x at place p
Filed(p, x) ==
  CASE p[1] = "section" -> WithSection(pm, p[2], x)
    [] p[1] = "block" -> WithBlockInst(pm, p[2], p[3], p[4], x)
    [] p[1] = "newfn" -> [pm EXCEPT !.functions = Append(@, [EmptyFunction EXCEPT !.def = <<x>>])]
    [] p[1] = "end" -> [pm EXCEPT !.functions[p[2] + 1].end = <<x>>]
    [] p[1] = "param" -> [pm EXCEPT !.functions[p[2] + 1].params = Append(@, x)]
    [] p[1] = "newblock" -> [pm EXCEPT !.functions[p[2] + 1].blocks = Append(@, [EmptyBlock EXCEPT !.label = IF p[3] THEN <<x>> ELSE <<>>])]

Sections == {"capabilities", "extensions", "ext_inst_imports", "memory_model", "entry_points", "execution_modes",
             "debug_string_source", "debug_names", "debug_module_processed", "annotations", "types_global_values", "functions"}
SameInsts(a, b) == \A s \in Sections : a[s] = b[s]

---------------------------------------------------------------------------
\* the checks of one call; each returns the set of violated aspects (code bits)
CallBits(e) ==
  LET mname == e.m
      kind == KindOf(mname)
      tabKind == Methods[mname].kind
      opname == Methods[mname].op
      lm == e.module[1]
      ok == e.res[1] = "Ok"
      mustFail == MustFail(kind, pm, selF, selB, e.idx)
      \* C16: the tree's notion of "this method ends the block" against the specification's
      termBit == IF tabKind \in {"block", "term", "insert_block", "insert_term"} /\ tabKind # kind THEN {16} ELSE {}
      nextFail == next \cup {n + 1 : n \in next}
  IN
  IF e.res[1] = "Panic" THEN [bits |-> {4} \cup termBit, next |-> nextFail, alloc |-> alloc]
  ELSE IF ~ok
  THEN \* a failing call: must be allowed to fail, changes no instruction and leaves the selection as it was
       \* (MC_Builder!Fail: which function / block is open is part of what a failed call must not change,
       \* otherwise the "fails iff ... is open" clauses would not hold for the next call)
       [bits |-> (IF mustFail THEN {} ELSE {1})
                 \cup (IF SameInsts(lm, pm) THEN {} ELSE {1})
                 \cup (IF SelectionValid(lm, e.selF, e.selB) /\ e.selF = selF /\ e.selB = selB THEN {} ELSE {1}) \cup termBit,
        next |-> nextFail, alloc |-> alloc]
  ELSE IF mustFail THEN [bits |-> {1} \cup termBit, next |-> next, alloc |-> alloc]
  ELSE
    LET selOK == <<e.selF, e.selB>> \in SelectionAfter(kind, lm, selF, selB, e.idx) /\ SelectionValid(lm, e.selF, e.selB)
        selBits == IF selOK THEN {} ELSE ({1} \cup (IF kind \in {"block", "insert_block", "term", "insert_term"} THEN {16} ELSE {}))
    IN
    IF kind \in {"select_function", "select_block"}
    THEN [bits |-> selBits \cup (IF SameInsts(lm, pm) THEN {} ELSE {1}), next |-> next, alloc |-> alloc]
    ELSE IF kind = "id"
    THEN [bits |-> (IF SameInsts(lm, pm) THEN {} ELSE {1}) \cup (IF ReturnsId(e) /\ Returned(e) \in next /\ Returned(e) \notin alloc THEN {} ELSE {2}) \cup selBits,
          next |-> IF ReturnsId(e) THEN {Returned(e) + 1} ELSE next, alloc |-> IF ReturnsId(e) THEN alloc \cup {Returned(e)} ELSE alloc]
    ELSE IF kind = "pop"
    THEN LET f == Val(selF)  b == Val(selB)  n == Len(Blk(pm, f, b).insts)
             m2 == [pm EXCEPT !.functions[f + 1].blocks[b + 1].insts = SubSeq(@, 1, n - 1)] IN
         [bits |-> (IF SameInsts(lm, m2) /\ Len(e.res) = 2 /\ e.res[2] = Blk(pm, f, b).insts[n] THEN {} ELSE {1}) \cup selBits,
          next |-> next, alloc |-> alloc]
    ELSE
      LET opnum == OpNum(opname)
          explicit == e.rid_param /\ e.rid_explicit # <<>>
          isType == kind \in {"type", "type_id"}
          \* C13: an earlier identical declaration (same opcode and operands) carrying an id
          same == IF isType /\ ~explicit
                  THEN {j \in 1..Len(pm.types_global_values) :
                          /\ pm.types_global_values[j].op = opnum
                          /\ pm.types_global_values[j].rid # <<>>
                          /\ Flat(pm.types_global_values[j].ops, 1) = e.flat}
                  ELSE {}
      IN
      IF same # {}
      THEN \* "returns the id of an earlier declaration ... and adds nothing to the module"
           \* (which one, when several earlier declarations are identical, the property does not say)
           [bits |-> (IF SameInsts(lm, pm) /\ ReturnsId(e) /\ \E j \in same : e.res[2] = pm.types_global_values[j].rid[1] THEN {} ELSE {2}) \cup selBits,
            next |-> next, alloc |-> alloc]
      ELSE
        LET p == Place(kind, e, opnum)
            found == Found(p, lm)
            noInst == kind = "begin_block_no_label"
            x == IF found = <<>> THEN [op |-> 0, rt |-> <<>>, rid |-> <<>>, ops |-> <<>>] ELSE found[1]
            m2 == Filed(p, x)
            structOK == (noInst \/ found # <<>>) /\ SameInsts(lm, m2)
            \* ids
            fresh == ReturnsId(e) /\ ~explicit
            idOK == IF explicit THEN ReturnsId(e) /\ e.res[2] = e.rid_explicit[1] /\ (noInst \/ x.rid = e.rid_explicit)
                    ELSE IF ReturnsId(e) THEN Returned(e) \in next /\ Returned(e) \notin alloc /\ e.res[2][1] = 0 /\ (noInst \/ x.rid = <<e.res[2]>>)
                    ELSE x.rid = <<>> \/ noInst
            \* content: "the emitted instruction has the method's opcode and carries the call's arguments in grammar order"
            contentOK == noInst \/ (/\ x.op = opnum /\ x.rt = e.rt /\ Flat(x.ops, 1) = e.flat /\ Conforms(x))
        \* (for a type request "appends exactly one declaration" / "always appends a declaration carrying that id" is C13's own clause)
        IN [bits |-> (IF structOK THEN {} ELSE {1, 8} \cup (IF isType THEN {2} ELSE {})) \cup (IF idOK THEN {} ELSE {2}) \cup (IF contentOK THEN {} ELSE {8}) \cup selBits \cup termBit,
            next |-> IF fresh THEN {Returned(e) + 1} ELSE next,
            alloc |-> IF fresh THEN alloc \cup {Returned(e)} ELSE alloc]

RECURSIVE SumBits(_)
SumBits(S) == IF S = {} THEN 0 ELSE LET x == CHOOSE x \in S : TRUE IN x + SumBits(S \ {x})

---------------------------------------------------------------------------
FinishBits(e) ==
  IF e.st = "panic" THEN {4}
  ELSE
    LET m == e.module[1]
        hdr == m.header
        \* C13: "the finished module's header bound equals the next id that would have been allocated"
        boundOK == Len(hdr) = 1 /\ hdr[1].bound[1] = 0 /\ hdr[1].bound[2] \in next
                   /\ \A a \in alloc : a < hdr[1].bound[2]
        versionOK == e.version = <<>> \/ (Len(hdr) = 1 /\ hdr[1].version = <<e.version[1], 256 * e.version[2]>>)
        complete == Complete(m, IsTermInst)
        \* C06: "assembles to a binary that the loader accepts, and the loaded module holds the same
        \* instructions ... in the same sections, functions and blocks ... with the version set on the
        \* builder and a bound above every id used"
        loadedOK == /\ Len(e.loaded) = 1 /\ SameInsts(e.loaded[1], m)
                    /\ Len(e.loaded[1].header) = 1 /\ e.loaded[1].header[1].version = hdr[1].version
                    /\ e.loaded[1].header[1].bound = hdr[1].bound
                    /\ e.loaded_b = e.loaded          \* through load_bytes just as through load_words
        wordsOK == e.words = AssembleModule(m)
        \* C06: "a bound above every id used": every result id of the finished module (ids taken from the builder)
        all == AllInsts(m)
        usedOK == Len(hdr) = 1 /\ hdr[1].bound[1] = 0 /\
                  \A j \in 1..Len(all) : (all[j].rid # <<>> /\ all[j].rid[1][1] = 0 /\ all[j].rid[1][2] \in alloc) => all[j].rid[1][2] < hdr[1].bound[2]
    IN (IF boundOK THEN {} ELSE {2}) \cup (IF usedOK THEN {} ELSE {8}) \cup (IF versionOK /\ SameInsts(m, pm) THEN {} ELSE {8})
       \cup (IF complete /\ ~(loadedOK /\ wordsOK) THEN {8} ELSE {})

Init == /\ l = 1 /\ bad = <<>> /\ pm = EmptyModule /\ selF = None /\ selB = None /\ next = {1} /\ alloc = {}

New == /\ l <= Len(Rec) /\ Rec[l].ev = "bnew"
       /\ pm' = EmptyModule /\ selF' = None /\ selB' = None
       \* C13: "starting at 1 for a new builder and at the header bound when continuing an existing module"
       /\ next' = {Rec[l].bound} /\ alloc' = {}
       /\ l' = l + 1 /\ UNCHANGED bad

Call == /\ l <= Len(Rec) /\ Rec[l].ev = "bcall"
        /\ LET e == Rec[l]  r == CallBits(e)  c == SumBits(r.bits) IN
           /\ bad' = IF c = 0 THEN bad ELSE (IF Len(bad) >= 5000 THEN bad ELSE Append(bad, <<l, c>>))
           \* resynchronise on the logged observables so that the rest of the history is still checked
           /\ pm' = [s \in DOMAIN EmptyModule |-> IF s = "header" THEN <<>> ELSE e.module[1][s]]
           /\ selF' = e.selF /\ selB' = e.selB
           /\ next' = r.next /\ alloc' = r.alloc
        /\ l' = l + 1

Finish == /\ l <= Len(Rec) /\ Rec[l].ev = "bfinish"
          /\ LET c == SumBits(FinishBits(Rec[l])) IN bad' = IF c = 0 THEN bad ELSE (IF Len(bad) >= 5000 THEN bad ELSE Append(bad, <<l, c>>))
          /\ l' = l + 1 /\ UNCHANGED <<pm, selF, selB, next, alloc>>

Next == New \/ Call \/ Finish
Spec == Init /\ [][Next]_vars
Done == l = Len(Rec) + 1
Report == Done => PrintT(<<"TRACE-RESULT", Len(Rec), bad>>)
NamesExist == AllNamesExist
=============================================================================
