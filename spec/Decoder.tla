------------------------------ MODULE Decoder ------------------------------
(***************************************************************************)
(* Specification of rspirv::binary::Decoder (property C11, totality C04).  *)
(*                                                                         *)
(* A decoder is a buffer of bytes, a byte offset and an optional remaining *)
(* word limit.  Every public request is one action.  The specification is  *)
(* the WEAKEST behaviour set compatible with the text of property C11: it  *)
(* is deterministic where the property is explicit (successful requests,   *)
(* failed raw-word requests) and nondeterministic (named disjuncts) where  *)
(* the property is silent.  No action has a "panic" outcome: the           *)
(* specification is total (see Total), which is what C04 asks of the code. *)
(*                                                                         *)
(* The step semantics is given as successor-SET operators Succ(s, call):   *)
(* the set of outcomes [off, lim, res] the property allows for `call' in   *)
(* state s.  The model (MC_Decoder) takes Next from them; the trace        *)
(* specification (DecoderTrace) checks recorded calls of the real decoder  *)
(* against them.                                                           *)
(***************************************************************************)
EXTENDS Integers, Sequences, FiniteSets, Words

CONSTANT Accepts(_, _)   \* Accepts(kind, w): the typed conversion of word w to `kind' succeeds

NoLimit == -1            \* lim = NoLimit: unlimited reading
AnyPos  == -2            \* an unknown positive limit (trace resynchronisation only)

IsLim(l) == l = NoLimit \/ l = AnyPos \/ l \in Nat

HasLimit(l)     == l # NoLimit
LimitReached(l) == l = 0

\* possible limits after charging k words (k >= 0) to limit l, assuming l allows it
Charge(l, k) ==
  IF l = NoLimit THEN {NoLimit}
  ELSE IF l = AnyPos THEN (IF k = 0 THEN {AnyPos} ELSE {AnyPos, 0})
  ELSE {l - k}
\* l allows k more words
Allows(l, k) == l = NoLimit \/ l = AnyPos \/ k <= l
\* limits reachable by charging between 0 and k words
ChargeUpTo(l, k) == UNION { Charge(l, j) : j \in {j \in 0..k : Allows(l, j)} }

Avail(s)   == Len(s.bytes) - s.off                    \* bytes left
WordAt(s, o) == WordOfBytes(SubSeq(s.bytes, o + 1, o + 4))

Ok(v)         == <<"Ok", v>>
Err(kind, o)  == <<"Err", kind, o>>
ErrW(kind, o, w) == <<"Err", kind, o, w>>

Out(o, l, r) == [off |-> o, lim |-> l, res |-> r]

---------------------------------------------------------------------------
(* raw word:  `word', and its synonyms `id', `bit32', `ext_inst_integer'   *)
WordSucc(s) ==
  LET exhausted == s.lim = 0
      short     == Avail(s) < 4
  IN
  \* "After a limit of n words is set, at most n further words can be consumed
  \*  before limit-reached errors are returned"; "a failed raw-word request
  \*  leaves the offset unchanged and reports that offset".
     { Out(s.off, s.lim, Err("LimitReached", s.off)) : x \in {1} \cap (IF exhausted THEN {1} ELSE {}) }
  \* end of buffer: the limit may or may not have been charged (property silent).
  \* When the limit is exhausted AND the buffer is at its end, either error is allowed.
  \cup { Out(s.off, l, Err("StreamExpected", s.off)) :
           l \in IF short THEN (IF exhausted THEN {0} ELSE ChargeUpTo(s.lim, 1)) ELSE {} }
  \cup { Out(s.off + 4, l, Ok(WordAt(s, s.off))) :
           l \in IF ~short /\ ~exhausted THEN Charge(s.lim, 1) ELSE {} }

(* n raw words, as the sequential composition of n `word' requests.  A     *)
(* failure after k < n words may keep the k words consumed (what the code  *)
(* does) -- then the error is the one of the (k+1)-th request -- or roll   *)
(* back (named disjunct RollBack; the property speaks of "a failed         *)
(* raw-word request" leaving the offset unchanged).                        *)
RECURSIVE WordsFrom(_, _, _, _)
\* set of outcomes of reading n more words from cursor c (a State) having read acc
WordsFrom(s0, c, n, acc) ==
  IF n = 0 THEN { Out(c.off, c.lim, Ok(acc)) }
  ELSE UNION { IF o.res[1] = "Ok"
               THEN WordsFrom(s0, [c EXCEPT !.off = o.off, !.lim = o.lim], n - 1, Append(acc, o.res[2]))
               ELSE { o }                                                   \* KeepPrefix
                    \cup { Out(s0.off, s0.lim, Err(o.res[2], s0.off)) }     \* RollBack
             : o \in WordSucc(c) }
WordsSucc(s, n) == WordsFrom(s, s, n, <<>>)

\* bit64: two words, low word first; the value is <<low, high>>
Bit64Succ(s) == WordsSucc(s, 2)

---------------------------------------------------------------------------
(* literal string *)
\* last byte (1-based index into bytes) the request may look at
Room(s) == IF s.lim = NoLimit \/ s.lim = AnyPos THEN Len(s.bytes)
           ELSE Min2(Len(s.bytes), s.off + 4 * s.lim)
\* with an unknown positive limit the window is unknown: every prefix window is possible
Rooms(s) == IF s.lim = AnyPos
            THEN { r \in (s.off + 4)..Len(s.bytes) : (r - s.off) % 4 = 0 } \cup {Len(s.bytes)}
            ELSE { Room(s) }

StringSuccRoom(s, room) ==
  LET nul == FirstNulFrom(s.bytes, s.off + 1, room)       \* 0 if no NUL in the window
      n   == nul - s.off - 1                              \* string length in bytes
      k   == StringWords(n)                               \* words incl. terminator
      complete == nul # 0 /\ s.off + 4 * k <= room        \* terminator word inside buffer AND limit
      valid == ValidUtf8(SubSeq(s.bytes, s.off + 1, s.off + n))
  IN
  IF complete /\ valid
  THEN \* "returns exactly the NUL-terminated UTF-8 string found at the current offset and
       \*  advances the offset by four bytes per word consumed"; "a string never extends
       \*  past the limit"
       { Out(s.off + 4 * k, l, Ok(SubSeq(s.bytes, s.off + 1, s.off + n))) : l \in Charge(s.lim, k) }
  ELSE \* failure: which error, and how many whole words were consumed, is not fixed by the
       \* property ("unsuccessful decoding may consume any number of bytes" says the code);
       \* what IS fixed: whole words, never beyond the buffer, never beyond the limit.
       LET kinds == IF complete /\ ~valid THEN {"DecodeStringFailed"}
                    ELSE {"LimitReached", "StreamExpected", "DecodeStringFailed"}
           maxw  == (room - s.off) \div 4
       IN { Out(s.off + 4 * j, l, Err(kd, 0)) :
              kd \in kinds, j \in 0..maxw, l \in ChargeUpTo(s.lim, maxw) }
StringSucc(s) == UNION { StringSuccRoom(s, r) : r \in Rooms(s) }
\* (the offset carried by a failed string request is not constrained: Err(kd, 0) is matched
\*  on the kind only, see ResAgrees)

---------------------------------------------------------------------------
(* typed request: one word converted to an enumeration / bit-mask value    *)
TypedSucc(s, kind) ==
  UNION { IF o.res[1] = "Ok"
          THEN IF Accepts(kind, o.res[2])
               THEN { o }
               \* unknown value: <Kind>Unknown(offset of the word, word).  Whether the
               \* word stays consumed is not fixed by the property (the code consumes it).
               ELSE { Out(o.off, o.lim, ErrW("Unknown", s.off, o.res[2])),
                      Out(s.off, s.lim, ErrW("Unknown", s.off, o.res[2])) }
          \* at the limit / end: either error kind (the generated code reports
          \* StreamExpected where raw requests report LimitReached), nothing consumed
          ELSE { Out(o.off, o.lim, Err(kd, s.off)) : kd \in {"LimitReached", "StreamExpected"} }
        : o \in WordSucc(s) }

---------------------------------------------------------------------------
Calls(maxWords, limits, kinds) ==
       { <<"word">>, <<"string">>, <<"bit64">>, <<"clear_limit">> }
  \cup { <<"words", n>> : n \in maxWords }
  \cup { <<"set_limit", n>> : n \in limits }
  \cup { <<"typed", k>> : k \in kinds }

Succ(s, call) ==
  CASE call[1] = "word"        -> WordSucc(s)
    [] call[1] = "words"       -> WordsSucc(s, call[2])
    [] call[1] = "bit64"       -> Bit64Succ(s)
    [] call[1] = "string"      -> StringSucc(s)
    [] call[1] = "typed"       -> TypedSucc(s, call[2])
    [] call[1] = "set_limit"   -> { Out(s.off, call[2], <<"Unit">>) }
    [] call[1] = "clear_limit" -> { Out(s.off, NoLimit, <<"Unit">>) }

\* C04 for the decoder: every request has an outcome in every state.
Total(s, call) == Succ(s, call) # {}

Apply(s, o) == [s EXCEPT !.off = o.off, !.lim = o.lim]

\* State invariants every reachable state satisfies (proved by TLC on MC_Decoder).
InBuffer(s) == s.off >= 0 /\ s.off <= Len(s.bytes)
=============================================================================
