--------------------------- MODULE DecoderTrace ---------------------------
(***************************************************************************)
(* Trace validation for Decoder: every recorded call of the real           *)
(* rspirv::binary::Decoder must be a step of Decoder.tla.                  *)
(* The remaining limit is not observable through the public API, so the    *)
(* trace state is the SET of specification states compatible with          *)
(* everything observed so far (has_limit / limit_reached / offset /        *)
(* result); a call is rejected when that set becomes empty.  After a       *)
(* rejection the state is resynchronised from the logged observables so    *)
(* that the rest of the trace is still checked; all rejected event indices *)
(* are reported.                                                           *)
(***************************************************************************)
EXTENDS Integers, Sequences, FiniteSets, TLC, Json, IOUtils, Grammar

D == INSTANCE Decoder WITH Accepts <- Accepts

Rec == ndJsonDeserialize(IOEnv.TRACE)

VARIABLES l,       \* next event (1-based)
          bytes,   \* buffer of the current history
          cands,   \* set of [off, lim] compatible with the observations
          bad      \* indices of rejected events
vars == <<l, bytes, cands, bad>>

Huge == -3   \* logged offsets beyond 2^30

\* the logged call in the vocabulary of Decoder!Succ
\* (a words(n) request with an astronomically large n -- logged as a negative marker -- behaves
\*  like a request for one word more than the buffer can ever supply)
SpecCall(c) ==
  IF c[1] \in {"id", "bit32", "ext_inst_integer"} THEN <<"word">>
  ELSE IF c[1] = "words" /\ c[2] < 0 THEN <<"words", (Len(bytes) \div 4) + 1>>
  ELSE IF c[1] = "set_limit" /\ c[2] < 0 THEN <<"set_limit", 100000>>   \* usize::MAX-ish: beyond any buffer
  ELSE c

\* does the logged result agree with a specification result?
ResAgrees(spec, log) ==
  /\ log[1] = spec[1]
  /\ CASE spec[1] = "Unit" -> TRUE
       [] spec[1] = "Ok"   -> log[2] = spec[2]
       [] spec[1] = "Err"  ->
            /\ log[2] = spec[2]
            /\ \/ spec[3] = 0 /\ Len(spec) = 3 /\ spec[2] \in {"LimitReached", "StreamExpected", "DecodeStringFailed"}
                  /\ log[2] = spec[2] /\ TRUE          \* offset checked below where the property fixes it
               \/ FALSE
            \/ /\ log[2] = spec[2] /\ log[3] = spec[3]
               /\ (Len(spec) = 4 => log[4] = spec[4])

\* Only for raw-word requests does the property fix the reported offset.
Agrees(call, o, e) ==
  /\ o.off = e.off
  /\ D!HasLimit(o.lim) = e.has_limit
  /\ (o.lim = 0) = e.limit_reached
  /\ e.res[1] = o.res[1]
  /\ CASE o.res[1] = "Unit" -> TRUE
       [] o.res[1] = "Ok"   -> e.res[2] = o.res[2]
       [] o.res[1] = "Err"  ->
            /\ e.res[2] = o.res[2]
            \* "a failed raw-word request ... reports that offset": only for raw-word requests does the property
            \* fix what a failure carries; the payload of a failed typed / words / bit64 / string request is free
            /\ (call[1] = "word" => e.res[3] = o.res[3])

State(c) == [bytes |-> bytes, off |-> c.off, lim |-> c.lim]

Post(e) == LET call == SpecCall(e.call) IN
  { [off |-> o.off, lim |-> o.lim] :
      o \in { o \in UNION { D!Succ(State(c), call) : c \in cands } : Agrees(call, o, e) } }

\* limits compatible with the logged flags
LimOf(e) == IF ~e.has_limit THEN D!NoLimit ELSE IF e.limit_reached THEN 0 ELSE D!AnyPos
Resync(e) == { [off |-> IF e.off = Huge THEN 0 ELSE e.off, lim |-> LimOf(e)] }

Init == /\ l = 1 /\ bytes = <<>> /\ cands = {} /\ bad = <<>>

New == /\ l <= Len(Rec) /\ Rec[l].ev = "new"
       /\ bytes' = Rec[l].bytes
       /\ cands' = { [off |-> 0, lim |-> D!NoLimit] }
       /\ l' = l + 1 /\ UNCHANGED bad

Call == /\ l <= Len(Rec) /\ Rec[l].ev = "call"
        /\ LET p == Post(Rec[l]) IN
           IF p # {} THEN cands' = p /\ bad' = bad
           ELSE cands' = Resync(Rec[l]) /\ bad' = (IF Len(bad) >= 5000 THEN bad ELSE Append(bad, <<l, IF Rec[l].res[1] = "Panic" THEN 5 ELSE 1>>))
        /\ l' = l + 1 /\ UNCHANGED bytes

Next == New \/ Call
Spec == Init /\ [][Next]_vars

\* every specification state we track stays inside the buffer (C11) -- checked at every step
InBuffer == \A c \in cands : c.off >= 0 /\ c.off <= Len(bytes)

Done == l = Len(Rec) + 1
Report == Done => PrintT(<<"TRACE-RESULT", Len(Rec), bad>>)
Accepted == TLCGet("stats").diameter = Len(Rec) + 1
=============================================================================
