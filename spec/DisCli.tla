------------------------------- MODULE DisCli -------------------------------
(***************************************************************************)
(* Specification of the rspirv-dis command line tool (property C20) as a   *)
(* three-step process: read the file, load it with the library, print.     *)
(* The only terminal state is "exit 0 with either the library's            *)
(* disassembly or the one-line message of the loading error on stdout";    *)
(* there is no crashed state.                                              *)
(***************************************************************************)
EXTENDS Integers, Sequences, TLC

VARIABLES pc, loaded, out, status
vars == <<pc, loaded, out, status>>
Init == pc = "start" /\ loaded = "none" /\ out = "none" /\ status = -1
Read == pc = "start" /\ pc' = "read" /\ UNCHANGED <<loaded, out, status>>
Load == pc = "read" /\ pc' = "loaded" /\ loaded' \in {"ok", "err"} /\ UNCHANGED <<out, status>>
PrintOut == pc = "loaded" /\ pc' = "done" /\ status' = 0
         /\ out' = (IF loaded = "ok" THEN "disassembly" ELSE "error-line") /\ UNCHANGED loaded
Next == Read \/ Load \/ PrintOut
Spec == Init /\ [][Next]_vars
\* "terminates with exit status 0 and prints either exactly the library's disassembly ... or the
\*  one-line message of the loading error"
ExitOK == pc = "done" => (status = 0 /\ out \in {"disassembly", "error-line"} /\ (out = "disassembly") = (loaded = "ok"))
NoOtherEnd == pc \in {"start", "read", "loaded", "done"}

\* what a finished run must look like, given the library's own result on the same bytes
RunOK(e) ==
  /\ e.st = "ran"                                                         \* "terminates" (not "timeout": no exit within the deadline)
  /\ e.status = <<0>> /\ e.signal = <<>> /\ ~e.stderr_panicked      \* "never aborts with a panic"
  /\ e.lib.st \in {"ok", "err"}
  /\ e.stdout = e.lib.text \o "\n"
  /\ (e.lib.st = "err" => e.lib.one_line)
=============================================================================
