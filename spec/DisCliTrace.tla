---------------------------- MODULE DisCliTrace ----------------------------
(* Trace validation for rspirv-dis (C20): every recorded run must be a behaviour of DisCli. *)
EXTENDS Integers, Sequences, TLC, Json, IOUtils
D == INSTANCE DisCli WITH pc <- "done", loaded <- "ok", out <- "disassembly", status <- 0
Rec == ndJsonDeserialize(IOEnv.TRACE)
VARIABLES l, bad
vars == <<l, bad>>
Init == l = 1 /\ bad = <<>>
Next == /\ l <= Len(Rec)
        /\ LET e == Rec[l]  c == IF D!RunOK(e) THEN 0 ELSE IF e.st = "ran" /\ (e.stderr_panicked \/ e.signal # <<>> \/ e.status # <<0>>) THEN 5 ELSE 1
           IN bad' = IF c = 0 THEN bad ELSE (IF Len(bad) >= 5000 THEN bad ELSE Append(bad, <<l, c>>))
        /\ l' = l + 1
Spec == Init /\ [][Next]_vars
Done == l = Len(Rec) + 1
Report == Done => PrintT(<<"TRACE-RESULT", Len(Rec), bad>>)
=============================================================================
