------------------------------- MODULE Disasm -------------------------------
(***************************************************************************)
(* Specification of rspirv::binary::Disassemble for modules (property      *)
(* C07): the header comment, one line per instruction in assembly order,   *)
(* and the token structure of each line.  Tokens whose spelling needs      *)
(* arithmetic TLC cannot do on 32-bit words (large decimals, floats) are   *)
(* wildcards here; their VALUE is decided by reading the text back (the    *)
(* harness's reader uses only the vocabulary: opcode / enumerant / mask    *)
(* bit names, decimal and Rust string syntax) and comparing the result     *)
(* with the module (DisasmTrace).                                          *)
(***************************************************************************)
EXTENDS Integers, Sequences, FiniteSets, TLC, Json, IOUtils, Parser, Module

MaskNames == JsonDeserialize(IOEnv.DISASMNAMES)

AnyTok == "<any>"     \* wildcard token (cannot be a token: contains no % and is not an opcode, name or number)
\* decimal spelling of a word, when TLC's integers can hold it
Dec(w) == IF w[1] < 32768 THEN ToString(w[1] * 65536 + w[2]) ELSE AnyTok
IdTok(w) == IF Dec(w) = AnyTok THEN AnyTok ELSE "%" \o Dec(w)

\* mask value: names of the set bits in ascending bit order joined by "|"; "None" for the empty mask
RECURSIVE MaskTok(_, _, _, _)
MaskTok(k, w, j, acc) ==
  IF j > Len(MaskNames[k].bits) THEN (IF acc = "" THEN MaskNames[k].zero ELSE acc)
  ELSE LET b == MaskNames[k].bits[j] IN
       MaskTok(k, w, j + 1, IF HasBit(w, b.bit) THEN (IF acc = "" THEN b.text ELSE acc \o "|" \o b.text) ELSE acc)

OperandTok(o, opcode) ==
  IF o.k \in {"IdRef", "IdScope", "IdMemorySemantics"} THEN IdTok(o.w[1])
  ELSE IF o.k = "LiteralString" THEN AnyTok                       \* quoted and escaped: value decided by the reader
  ELSE IF o.k = "LiteralBit32" THEN (IF opcode = 43 THEN AnyTok ELSE Dec(o.w[1]))   \* OpConstant: by declared type
  ELSE IF o.k \in {"LiteralBit64", "LiteralExtInstInteger"} THEN AnyTok
  ELSE IF o.k = "LiteralSpecConstantOpInteger" THEN Inst(o.w[1][2]).name
  ELSE IF o.k = "Dim" THEN AnyTok                                 \* specification names 1D, 2D ...: reader
  ELSE IF Cat(o.k) = "ValueEnum" THEN G.kinds[o.k].values[Key(o.w[1])].name
  ELSE IF Cat(o.k) = "BitEnum" THEN MaskTok(o.k, o.w[1], 1, "")
  ELSE AnyTok

\* "extended-instruction numbers by name when the imported set is GLSL.std.450 or OpenCL.std"
GlslName == <<71, 76, 83, 76, 46, 115, 116, 100, 46, 52, 53, 48>>          \* "GLSL.std.450"
OpenCLName == <<79, 112, 101, 110, 67, 76, 46, 115, 116, 100>>             \* "OpenCL.std"
\* the table an id was imported as ("glsl", "opencl" or "none"); the LAST import of an id wins, like a map insert
RECURSIVE SetOf(_, _, _, _)
SetOf(imports, id, j, acc) ==
  IF j > Len(imports) THEN acc
  ELSE LET im == imports[j]
           hit == im.op = 11 /\ im.rid = <<id>> /\ Len(im.ops) >= 1 /\ im.ops[1].k = "LiteralString" IN
       SetOf(imports, id, j + 1,
             IF hit /\ im.ops[1].s = GlslName THEN "glsl" ELSE IF hit /\ im.ops[1].s = OpenCLName THEN "opencl" ELSE acc)
ExtInstTok(i, imports) ==
  LET set == SetOf(imports, i.ops[1].w[1], 1, "none")  n == i.ops[2].w[1] IN
  IF set = "none" \/ n[1] # 0 \/ ToString(n[2]) \notin DOMAIN G[set] THEN Dec(n) ELSE G[set][ToString(n[2])].name

\* "OpConstant literals as signed or unsigned integers or floats according to the declared type": the type is
\* looked up among ALL type declarations of the module (wherever they stand)
RECURSIVE TrackSeq(_, _, _)
TrackSeq(types, is, j) == IF j > Len(is) THEN types ELSE TrackSeq(Track(types, is[j]), is, j + 1)
SignedDec(w) == IF w[1] >= 32768 THEN ToString((w[1] - 65536) * 65536 + w[2]) ELSE ToString(w[1] * 65536 + w[2])
\* (an id that several OpTypeInt / OpTypeFloat instructions declare has no single "declared type": any rendering)
ConstTok(i, types, multi) ==
  IF i.rt # <<>> /\ i.rt[1] \in multi THEN AnyTok
  ELSE IF i.rt # <<>> /\ Known(types, i.rt[1]) /\ i.ops[1].k = "LiteralBit32" /\ types[i.rt[1]].c = "Int"
  THEN (IF types[i.rt[1]].sg THEN SignedDec(i.ops[1].w[1]) ELSE Dec(i.ops[1].w[1]))
  ELSE IF i.rt # <<>> /\ Known(types, i.rt[1]) THEN AnyTok                 \* floats, 64-bit: decided by the reader
  ELSE IF i.ops[1].k = "LiteralBit32" THEN Dec(i.ops[1].w[1]) ELSE AnyTok  \* undeclared type: the raw bit pattern

\* expected tokens of the line of instruction i (imports: the module's OpExtInstImport instructions)
LineToksIn(i, imports) ==
  (IF i.rid # <<>> THEN <<IdTok(i.rid[1]), "=">> ELSE <<>>)
  \o <<"Op" \o Inst(i.op).name>>
  \o (IF i.rt # <<>> THEN <<IdTok(i.rt[1])>> ELSE <<>>)
  \o [j \in 1..Len(i.ops) |->
        IF i.op = 12 /\ j = 2 /\ Len(i.ops) >= 2 /\ i.ops[1].k = "IdRef" /\ i.ops[2].k = "LiteralExtInstInteger"
        THEN ExtInstTok(i, imports) ELSE OperandTok(i.ops[j], i.op)]
LineToksTyped(i, imports, types, global, multi) ==
  IF i.op = 43 /\ Len(i.ops) = 1 /\ global
  THEN LET base == LineToksIn(i, imports) IN [base EXCEPT ![Len(base)] = ConstTok(i, types, multi)]
  ELSE LineToksIn(i, imports)
\* ids declared as a scalar type by more than one instruction of the section
MultiDeclared(decls) ==
  LET scalar == { j \in 1..Len(decls) : decls[j].op \in {21, 22} /\ decls[j].rid # <<>> } IN
  { decls[j].rid[1] : j \in { j \in scalar : \E k \in scalar : k # j /\ decls[k].rid = decls[j].rid } }

LineToks(i) ==
  (IF i.rid # <<>> THEN <<IdTok(i.rid[1]), "=">> ELSE <<>>)
  \o <<"Op" \o Inst(i.op).name>>
  \o (IF i.rt # <<>> THEN <<IdTok(i.rt[1])>> ELSE <<>>)
  \o [j \in 1..Len(i.ops) |-> OperandTok(i.ops[j], i.op)]

TokensMatch(exp, got) == Len(exp) = Len(got) /\ \A j \in 1..Len(exp) : exp[j] = AnyTok \/ exp[j] = got[j]

\* "generator tool name": the tool registered under the id in the high half of the generator word
\* (SPIR-V registry spir-v.xml, ids 0..15; the rendering of unregistered ids is not constrained)
GeneratorNames == <<"The Khronos Group", "LunarG", "Valve", "Codeplay", "NVIDIA", "ARM", "LLVM/SPIR-V Translator",
                    "SPIR-V Tools Assembler", "Glslang", "Qualcomm", "AMD", "Intel", "Imagination", "Shaderc", "spiregg", "rspirv">>
\* the same names as token sequences (the header comment is judged on its tokens, not on its exact wording)
GeneratorNameToks == << <<"The", "Khronos", "Group">>, <<"LunarG">>, <<"Valve">>, <<"Codeplay">>, <<"NVIDIA">>, <<"ARM">>,
                        <<"LLVM/SPIR-V", "Translator">>, <<"SPIR-V", "Tools", "Assembler">>, <<"Glslang">>, <<"Qualcomm">>, <<"AMD">>,
                        <<"Intel">>, <<"Imagination">>, <<"Shaderc">>, <<"spiregg">>, <<"rspirv">> >>
RECURSIVE Concat(_, _, _)
Concat(tokss, j, n) == IF j > n THEN <<>> ELSE tokss[j] \o Concat(tokss, j + 1, n)
HasRun(toks, run) == \E i \in 1..(Len(toks) - Len(run) + 1) : SubSeq(toks, i, i + Len(run) - 1) = run
\* "the header comment (version major.minor, generator tool name, id bound)": the nh leading comment lines carry the
\* three facts as tokens; their wording, order and any further comment lines are free
HeaderTokensOK(h, tokss, nh) ==
  LET toks == Concat(tokss, 1, nh) IN
  /\ nh >= 1
  /\ HasRun(toks, <<ToString(h.version[1] % 256) \o "." \o ToString(h.version[2] \div 256)>>)
  /\ (h.generator[1] < 16 => HasRun(toks, GeneratorNameToks[h.generator[1] + 1]))
  /\ (Dec(h.bound) # AnyTok => HasRun(toks, <<Dec(h.bound)>>))
=============================================================================
