---------------------------- MODULE DisasmTrace ----------------------------
(* Trace validation for Module::disassemble (C07): header comment, exactly one line per
   instruction in assembly order, token structure of every line (Disasm!LineToks), and the
   text read back with the vocabulary reconstructs the instruction stream exactly.
   code 1 = mismatch, 5 = panic of disassemble, 4 = panic of the loader. *)
EXTENDS Integers, Sequences, FiniteSets, TLC, Disasm

Rec == ndJsonDeserialize(IOEnv.TRACE)
VARIABLES l, bad
vars == <<l, bad>>

\* "(NaN payloads excepted)": an OpConstant whose literal is a NaN bit pattern may read back as another NaN
NaN32(w) == (w[1] & 32640) = 32640 /\ ((w[1] & 127) # 0 \/ w[2] # 0)
NaN64(lo, hi) == (hi[1] & 32752) = 32752 /\ ((hi[1] & 15) # 0 \/ hi[2] # 0 \/ lo # Zero)
NaNLit(o) == IF o.k = "LiteralBit32" THEN NaN32(o.w[1]) ELSE IF o.k = "LiteralBit64" THEN NaN64(o.w[1], o.w[2]) ELSE FALSE
SameModuloNaN(a, b) ==
  \/ a = b
  \/ /\ a.op = 43 /\ b.op = 43 /\ a.rt = b.rt /\ a.rid = b.rid /\ Len(a.ops) = 1 /\ Len(b.ops) = 1
     /\ a.ops[1].k = b.ops[1].k /\ NaNLit(a.ops[1]) /\ NaNLit(b.ops[1])

OK(e) ==
  LET m == e.m
      all == AllInsts(m)
      nh == e.nh                                   \* number of leading comment lines (first token ";")
  IN
  /\ (m.header = <<>> => nh = 0)
  /\ (m.header # <<>> => HeaderTokensOK(m.header[1], e.tokens, nh))
  \* "followed by exactly one line per instruction in assembly order"
  /\ Len(e.lines) = nh + Len(all) \/ (Len(all) = 0 /\ nh = 0 /\ e.lines = <<"">>)
  \* (extended-instruction names apply to block instructions of functions; ids imported as a known set)
  /\ LET types == TrackSeq(NoTypes, m.types_global_values, 1)  ng == Len(GlobalInsts(m))  multi == MultiDeclared(m.types_global_values) IN
       \A j \in 1..Len(all) : TokensMatch(LineToksTyped(all[j], m.ext_inst_imports, types, j <= ng, multi), e.tokens[nh + j])
  \* "Reading the text back with the same vocabulary reconstructs the instruction stream exactly"
  \* (an OpConstant whose type id has conflicting declarations has no single "declared type": its literal is not judged)
  /\ e.reread_ok /\ Len(e.reread) = Len(all)
  /\ LET multi == MultiDeclared(m.types_global_values) IN
     \A j \in 1..Len(all) : \/ SameModuloNaN(all[j], e.reread[j])
                             \/ (all[j].op = 43 /\ all[j].rt # <<>> /\ all[j].rt[1] \in multi /\ e.reread[j].op = 43
                                 /\ e.reread[j].rt = all[j].rt /\ e.reread[j].rid = all[j].rid)

\* "loadpanic": the loader panicked before there was a module to print (code 4: a panic, but not one of disassemble)
Code(e) == IF e.st = "loadpanic" THEN 4 ELSE IF e.st = "panic" THEN 5 ELSE IF OK(e) THEN 0 ELSE 1
\* "generator tool name": a registered tool (pinned list) and a tool id outside the list never share a header comment
\* (what an unregistered id shows is free - "Unknown", or a name registered later - but it is not another tool's header)
PairCode(e) == IF e.g1 < 16 /\ e.g2 >= 16 /\ e.tok1 = e.tok2 THEN 1 ELSE 0
Init == l = 1 /\ bad = <<>>
Next == /\ l <= Len(Rec)
        /\ LET c == IF Rec[l].ev = "disasm" THEN Code(Rec[l]) ELSE IF Rec[l].ev = "hdrpair" THEN PairCode(Rec[l]) ELSE 0 IN bad' = IF c = 0 THEN bad ELSE (IF Len(bad) >= 5000 THEN bad ELSE Append(bad, <<l, c>>))
        /\ l' = l + 1
Spec == Init /\ [][Next]_vars
Done == l = Len(Rec) + 1
Report == Done => PrintT(<<"TRACE-RESULT", Len(Rec), bad>>)
=============================================================================
