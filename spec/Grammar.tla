------------------------------ MODULE Grammar ------------------------------
(***************************************************************************)
(* The SPIR-V grammar as data: the pinned projection GrammarData.json of   *)
(* SPIR-V grammar sdk-1.4.309.0 (see DESIGN.md section 3) and the          *)
(* operators every other module uses to consult it.                        *)
(***************************************************************************)
EXTENDS Integers, Sequences, FiniteSets, TLC, Json, IOUtils, Words

G == JsonDeserialize(IOEnv.GRAMMAR)

\* record key of a word: decimal below 2^16, "hi:lo" above
Key(w) == IF w[1] = 0 THEN ToString(w[2]) ELSE ToString(w[1]) \o ":" \o ToString(w[2])

Kinds == DOMAIN G.kinds
Cat(k) == G.kinds[k].cat           \* "ValueEnum" | "BitEnum" | "Id" | "Literal" | "Composite"

IsDeclaredValue(k, w) == Key(w) \in DOMAIN G.kinds[k].values
AllBits(k) == G.kinds[k].all
IsDeclaredMask(k, w) == SubMask(w, AllBits(k))

\* the typed conversion of word w to kind k succeeds
Accepts(k, w) == IF Cat(k) = "ValueEnum" THEN IsDeclaredValue(k, w)
                 ELSE IF Cat(k) = "BitEnum" THEN IsDeclaredMask(k, w)
                 ELSE TRUE

\* parameters (sequence of [k, q]) an enumerant requires
EnumParams(k, w) == G.kinds[k].values[Key(w)].params
\* parameters of a mask value: those of its set bits in ascending bit order
RECURSIVE MaskParamsFrom(_, _, _)
MaskParamsFrom(k, w, i) ==
  IF i > Len(G.kinds[k].bits) THEN <<>>
  ELSE LET b == G.kinds[k].bits[i]
       IN (IF HasBit(w, b.bit) THEN b.params ELSE <<>>) \o MaskParamsFrom(k, w, i + 1)
MaskParams(k, w) == MaskParamsFrom(k, w, 1)
Params(k, w) == IF Cat(k) = "ValueEnum" THEN EnumParams(k, w)
                ELSE IF Cat(k) = "BitEnum" THEN MaskParams(k, w)
                ELSE <<>>

IsOpcode(n) == ToString(n) \in DOMAIN G.insts
Inst(n) == G.insts[ToString(n)]
=============================================================================
