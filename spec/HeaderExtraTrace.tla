-------------------------- MODULE HeaderExtraTrace --------------------------
(* Specification growth beyond the listed properties: the accessors of dr::ModuleHeader.
     version()      = (bits 16..23, bits 8..15) of the version word
     generator()    = (registered tool name of the high half - Disasm!GeneratorNames, ids 0..15 -, low half)
     set_version    rewrites the version word to 0x00MMmm00 and touches nothing else
     new(bound)     carries the SPIR-V magic number and a zero reserved word
   Reported in the evidence of C15, never a verdict.  code 1 = mismatch, 5 = panic. *)
EXTENDS Integers, Sequences, FiniteSets, TLC, Json, IOUtils, Disasm
Rec == ndJsonDeserialize(IOEnv.TRACE)
VARIABLES l, bad
vars == <<l, bad>>
OK(e) ==
  /\ e.version = <<e.vw[1] % 256, e.vw[2] \div 256>>
  /\ e.gen_ver = e.gw[2]
  /\ (e.gw[1] < 16 => e.gen_name = GeneratorNames[e.gw[1] + 1])
  /\ e.after_set = <<e.set[1], e.set[2] * 256>>
  /\ e.gen_after = e.gw /\ e.magic = MagicWord /\ e.reserved = Zero
Code(e) == IF e.st = "panic" THEN 5 ELSE IF OK(e) THEN 0 ELSE 1
Init == l = 1 /\ bad = <<>>
Next == /\ l <= Len(Rec)
        /\ LET c == IF Rec[l].ev = "hdr" THEN Code(Rec[l]) ELSE 0 IN bad' = IF c = 0 THEN bad ELSE (IF Len(bad) >= 5000 THEN bad ELSE Append(bad, <<l, c>>))
        /\ l' = l + 1
Spec == Init /\ [][Next]_vars
Done == l = Len(Rec) + 1
Report == Done => PrintT(<<"TRACE-RESULT", Len(Rec), bad>>)
=============================================================================
