-------------------------------- MODULE Lift --------------------------------
(***************************************************************************)
(* Specification of rspirv::lift::LiftContext::convert on the supported    *)
(* subset (property C18): what the structured module must contain, given   *)
(* the data-representation module.  Lifted entries are observed as a head  *)
(* (variant name) and a sequence of leaves: [n |-> word] numbers,          *)
(* [t |-> k] tokens (index of the referenced store entry), [i |-> name].   *)
(***************************************************************************)
EXTENDS Integers, Sequences, FiniteSets, TLC, SpecFacts, Module

SelectInsts(is, P(_)) == SelectSeq(is, P)
IsTypeDecl(i) == OpName(i.op) \in TypeNames
IsConstDecl(i) == OpName(i.op) \in ConstantNames
TypeDecls(m) == SelectSeq(m.types_global_values, IsTypeDecl)
ConstDecls(m) == SelectSeq(m.types_global_values, IsConstDecl)

\* index (0-based token) of the declaration carrying result id w, or -1
IndexOf(decls, w) == LET hits == {k \in 1..Len(decls) : decls[k].rid = <<w>>} IN
                     IF hits = {} THEN -1 ELSE (CHOOSE k \in hits : \A x \in hits : k <= x) - 1

TypeHead(n) ==
  CASE n = "TypeVoid" -> "Void" [] n = "TypeBool" -> "Bool" [] n = "TypeInt" -> "Int" [] n = "TypeFloat" -> "Float"
    [] n = "TypeVector" -> "Vector" [] n = "TypeMatrix" -> "Matrix" [] n = "TypeArray" -> "Array" [] n = "TypeRuntimeArray" -> "RuntimeArray"
    [] n = "TypeStruct" -> "Struct" [] n = "TypePointer" -> "Pointer" [] n = "TypeFunction" -> "Function" [] n = "TypeSampler" -> "Sampler"
    [] OTHER -> "?"

\* "every operand carried over positionally (type and constant ids replaced by tokens of the referenced entry)"
LeafOK(leaf, o, m) ==
  IF o.k \in {"IdRef", "IdScope", "IdMemorySemantics"}
  THEN \/ leaf = [n |-> o.w[1]]
       \/ (IndexOf(TypeDecls(m), o.w[1]) >= 0 /\ leaf = [t |-> IndexOf(TypeDecls(m), o.w[1])])
       \/ (IndexOf(ConstDecls(m), o.w[1]) >= 0 /\ leaf = [t |-> IndexOf(ConstDecls(m), o.w[1])])
  ELSE IF o.k = "LiteralBit32" THEN leaf = [n |-> o.w[1]]
  ELSE IF Cat(o.k) = "ValueEnum" THEN leaf = [i |-> G.kinds[o.k].values[Key(o.w[1])].name]
  ELSE "i" \in DOMAIN leaf          \* masks and other payloads: some name
NotMember(l) == l # [i |-> "StructMember"]
LeavesOK(ls, ops, m) == LET real == SelectSeq(ls, NotMember) IN
                        Len(real) = Len(ops) /\ \A j \in 1..Len(ops) : LeafOK(real[j], ops[j], m)

\* all block instructions of the module, in order
RECURSIVE BlockInstsOf(_, _)
BlockInstsOf(bs, j) == IF j > Len(bs) THEN <<>> ELSE bs[j].insts \o BlockInstsOf(bs, j + 1)
RECURSIVE FnBlockInsts(_, _)
FnBlockInsts(fs, j) == IF j > Len(fs) THEN <<>> ELSE BlockInstsOf(fs[j].blocks, 1) \o FnBlockInsts(fs, j + 1)
IsLiftedOp(i) == i.rid # <<>> /\ OpName(i.op) # "Phi"
OpInsts(m) == SelectSeq(FnBlockInsts(m.functions, 1), IsLiftedOp)
IsPhi(i) == OpName(i.op) = "Phi"

TypesOK(e) == LET d == TypeDecls(e.m) IN
  /\ Len(e.types) = Len(d)                     \* "one type per type declaration ... in declaration order"
  /\ \A j \in 1..Len(d) : e.types[j].h = TypeHead(OpName(d[j].op)) /\ LeavesOK(e.types[j].l, d[j].ops, e.m)
ConstHeadOK(h, c, m) ==
  LET n == OpName(c.op) IN
  CASE n \in {"ConstantTrue", "ConstantFalse"} -> h = "Bool"
    \* "constant lifting by declared type": unsigned integer, signed integer or float as the declaration of its type says
    [] n = "Constant" -> LET ti == IndexOf(TypeDecls(m), c.rt[1]) IN
                         IF ti < 0 THEN h \in {"UInt", "Int", "Float"}
                         ELSE LET t == TypeDecls(m)[ti + 1] IN
                              IF OpName(t.op) = "TypeInt" THEN h = (IF t.ops[2].w[1] = <<0, 0>> THEN "UInt" ELSE "Int")
                              ELSE IF OpName(t.op) = "TypeFloat" THEN h = "Float"
                              ELSE h \in {"UInt", "Int", "Float"}
    [] n = "ConstantComposite" -> h = "Composite"
    [] n = "ConstantNull" -> h = "Null"
    [] OTHER -> TRUE
ConstantsOK(e) == LET d == ConstDecls(e.m) IN
  /\ Len(e.constants) = Len(d)                 \* "one constant per constant declaration"
  /\ \A j \in 1..Len(d) :
       /\ ConstHeadOK(e.constants[j].h, d[j], e.m)
       /\ (e.constants[j].h \in {"UInt", "Int"} => e.constants[j].l = <<[n |-> d[j].ops[1].w[1]]>>)
       /\ (e.constants[j].h = "Composite" => LeavesOK(e.constants[j].l, d[j].ops, e.m))
       /\ (OpName(d[j].op) = "ConstantTrue" => e.constants[j].l = <<[i |-> "true"]>>)
       /\ (OpName(d[j].op) = "ConstantFalse" => e.constants[j].l = <<[i |-> "false"]>>)
OpsOK(e) == LET d == OpInsts(e.m) IN
  /\ Len(e.ops) = Len(d)                       \* "one operation per result-producing non-phi block instruction"
  /\ \A j \in 1..Len(d) : e.ops[j].h = OpName(d[j].op) /\ LeavesOK(e.ops[j].l, d[j].ops, e.m)

BlockIndex(f, label) == LET hits == {b \in 1..Len(f.blocks) : f.blocks[b].label # <<>> /\ f.blocks[b].label[1].rid = <<label>>} IN
                        IF hits = {} THEN -1 ELSE (CHOOSE b \in hits : TRUE) - 1
TerminatorOK(t, last, f, m) ==
  /\ t.h = OpName(last.op)
  /\ LeavesOK(t.l, last.ops, m)
FunctionsOK(e) ==
  /\ Len(e.functions) = Len(e.m.functions)
  /\ \A f \in 1..Len(e.m.functions) :
       LET df == e.m.functions[f]  lf == e.functions[f] IN
       /\ lf.control = df.def[1].ops[1].w[1]                             \* "keeps its control mask"
       /\ lf.result = <<[t |-> IndexOf(TypeDecls(e.m), df.def[1].rt[1])]>>   \* "result type"
       /\ Len(lf.blocks) = Len(df.blocks)                                 \* "block count"
       /\ \A b \in 1..Len(df.blocks) :
            LET db == df.blocks[b]  phis == SelectSeq(db.insts, IsPhi) IN
            \* "each phi contributes its result type to its block's arguments"
            /\ lf.blocks[b].arguments = [x \in 1..Len(phis) |-> [t |-> IndexOf(TypeDecls(e.m), phis[x].rt[1])]]
            \* "each block's terminator"
            /\ TerminatorOK(lf.blocks[b].terminator, db.insts[Len(db.insts)], df, e.m)

LiftOK(e) ==
  /\ e.st = "ok"                                                          \* "lifting succeeds"
  /\ e.version = e.m.header[1].version                                    \* "preserves the version word,
  /\ e.caps = [j \in 1..Len(e.m.capabilities) |-> e.m.capabilities[j].ops[1].w[1]]   \* the capabilities in order
  /\ e.mm = <<e.m.memory_model[1].ops[1].w[1], e.m.memory_model[1].ops[2].w[1]>>     \* and the memory model"
  /\ TypesOK(e) /\ ConstantsOK(e) /\ OpsOK(e) /\ FunctionsOK(e)
=============================================================================
