----------------------------- MODULE LiftTrace -----------------------------
(* Trace validation for the lifter (C18).  "subset" events: modules of the property's subset must
   lift and satisfy Lift!LiftOK.  "probe" events: one event per opcode with its operands in distinct
   positions; opcodes the pinned tree could lift (LiftSupported.json) must still lift and map
   positionally; opcodes outside today's subset are not judged.  code 1 = mismatch, 5 = panic. *)
EXTENDS Integers, Sequences, FiniteSets, TLC, Json, IOUtils, Lift
Rec == ndJsonDeserialize(IOEnv.TRACE)
Supported == LET s == JsonDeserialize(IOEnv.LIFTSUPPORTED).supported IN { s[j] : j \in 1..Len(s) }
VARIABLES l, bad
vars == <<l, bad>>
Code(e) ==
  IF e.tag = "probe" /\ e.probe[1] \notin Supported THEN 0
  ELSE IF e.st = "panic" THEN 5
  ELSE IF LiftOK(e) THEN 0 ELSE 1
Init == l = 1 /\ bad = <<>>
Next == /\ l <= Len(Rec)
        /\ LET c == Code(Rec[l]) IN bad' = IF c = 0 THEN bad ELSE (IF Len(bad) >= 5000 THEN bad ELSE Append(bad, <<l, c>>))
        /\ l' = l + 1
Spec == Init /\ [][Next]_vars
Done == l = Len(Rec) + 1
Report == Done => PrintT(<<"TRACE-RESULT", Len(Rec), bad>>)
=============================================================================
