------------------------------- MODULE Loader -------------------------------
(***************************************************************************)
(* Specification of rspirv::dr::Loader (property C05, and the loading half *)
(* of C01/C06): one step per consumed instruction, structured like         *)
(* Loader::consume_instruction, plus finalize.                             *)
(*   Class(i)  : the loader class of instruction i (SpecFacts!LoaderClass  *)
(*               of its opcode in trace validation; a letter in the model) *)
(* The operational definition (Step/Load) is paired with a DECLARATIVE,    *)
(* positional definition of well-bracketedness (WellBracketed, FirstBad)   *)
(* that follows the sentences of C05 one by one; MC_Loader checks the two  *)
(* equivalent on all class sequences up to a bound.                        *)
(***************************************************************************)
EXTENDS Integers, Sequences, FiniteSets, Module

CONSTANT Class(_)

ModuleLevel == {"Cap", "Ext", "Import", "MemModel", "Entry", "ExecMode", "DbgStr", "DbgName", "ModProc", "Annot", "TypeConst"}
SectionOf(c) ==
  CASE c = "Cap" -> "capabilities" [] c = "Ext" -> "extensions" [] c = "Import" -> "ext_inst_imports"
    [] c = "MemModel" -> "memory_model" [] c = "Entry" -> "entry_points" [] c = "ExecMode" -> "execution_modes"
    [] c = "DbgStr" -> "debug_string_source" [] c = "DbgName" -> "debug_names" [] c = "ModProc" -> "debug_module_processed"
    [] c = "Annot" -> "annotations" [] c = "TypeConst" -> "types_global_values"

S0 == [m |-> EmptyModule, fn |-> <<>>, blk |-> <<>>]
Err(name) == [st |-> "err", e |-> name]
OkS(s)    == [st |-> "ok", s |-> s]

Put(s, sec, i) == IF sec = "memory_model" THEN [s EXCEPT !.m.memory_model = <<i>>]   \* the last OpMemoryModel wins
                  ELSE [s EXCEPT !.m[sec] = Append(@, i)]
PutBlock(s, i) == [s EXCEPT !.blk = <<[(s.blk[1]) EXCEPT !.insts = Append(@, i)]>>]

\* one step for an instruction of class c (c # "DontCare")
StepClass(s, c, i) ==
  CASE c \in ModuleLevel -> OkS(Put(s, SectionOf(c), i))
    [] c = "Line" -> \* inside a block it belongs to the block; elsewhere it is filed with the
                     \* global values (inside a function but outside a block this is the documented
                     \* limitation C01 excludes)
                     IF s.blk # <<>> THEN OkS(PutBlock(s, i)) ELSE OkS(Put(s, "types_global_values", i))
    [] c = "VarOrUndef" -> \* "variables and undefs are module-level exactly when no function is open"
                     IF s.fn = <<>> THEN OkS(Put(s, "types_global_values", i))
                     ELSE IF s.blk # <<>> THEN OkS(PutBlock(s, i)) ELSE Err("DetachedInstruction")
    [] c = "Fn" -> IF s.fn # <<>> THEN Err("NestedFunction")
                   ELSE OkS([s EXCEPT !.fn = <<[EmptyFunction EXCEPT !.def = <<i>>]>>])
    [] c = "FnEnd" -> IF s.fn = <<>> THEN Err("MismatchedFunctionEnd")
                      ELSE IF s.blk # <<>> THEN Err("UnclosedBlock")
                      ELSE OkS([s EXCEPT !.m.functions = Append(@, [(s.fn[1]) EXCEPT !.end = <<i>>]), !.fn = <<>>])
    [] c = "Param" -> IF s.fn = <<>> THEN Err("DetachedFunctionParameter")
                      ELSE OkS([s EXCEPT !.fn = <<[(s.fn[1]) EXCEPT !.params = Append(@, i)]>>])
    [] c = "Label" -> IF s.fn = <<>> THEN Err("DetachedBlock")
                      ELSE IF s.blk # <<>> THEN Err("NestedBlock")
                      ELSE OkS([s EXCEPT !.blk = <<[EmptyBlock EXCEPT !.label = <<i>>]>>])
    [] c = "Term" -> IF s.blk = <<>> THEN Err("MismatchedTerminator")
                     ELSE OkS([s EXCEPT !.fn = <<[(s.fn[1]) EXCEPT !.blocks = Append(@, [(s.blk[1]) EXCEPT !.insts = Append(@, i)])]>>,
                                        !.blk = <<>>])
    [] c = "BlockInst" -> IF s.blk = <<>> THEN Err("DetachedInstruction") ELSE OkS(PutBlock(s, i))

\* set of outcomes; opcodes no property classifies may be treated as a type/constant
\* declaration, as a variable-like or as an ordinary block instruction
Step(s, i) ==
  LET c == Class(i) IN
  IF c = "DontCare" THEN {StepClass(s, "TypeConst", i), StepClass(s, "BlockInst", i), StepClass(s, "VarOrUndef", i)}
  ELSE {StepClass(s, c, i)}

Finalize(s) == IF s.blk # <<>> THEN Err("UnclosedBlock")
               ELSE IF s.fn # <<>> THEN Err("UnclosedFunction")
               ELSE OkS(s)

\* all outcomes of loading the instruction sequence: [st |-> "ok", m] or [st |-> "err", e, at]
\* (at = 1-based index of the first offending instruction, Len + 1 for finalize)
RECURSIVE LoadFrom(_, _, _)
LoadFrom(s, is, j) ==
  IF j > Len(is)
  THEN LET f == Finalize(s) IN
       IF f.st = "ok" THEN {[st |-> "ok", m |-> s.m]} ELSE {[st |-> "err", e |-> f.e, at |-> j]}
  ELSE UNION { IF r.st = "ok" THEN LoadFrom(r.s, is, j + 1) ELSE {[st |-> "err", e |-> r.e, at |-> j]}
               : r \in Step(s, is[j]) }
Load(is) == LoadFrom(S0, is, 1)

---------------------------------------------------------------------------
(* Declarative definition, sentence by sentence of C05, on the class word  *)
Cs(is) == [j \in 1..Len(is) |-> Class(is[j])]
Count(cs, c, j) == Cardinality({x \in 1..j : cs[x] = c})
DepthF(cs, j) == Count(cs, "Fn", j) - Count(cs, "FnEnd", j)        \* open functions after j instructions
DepthB(cs, j) == Count(cs, "Label", j) - Count(cs, "Term", j)      \* open blocks after j instructions

\* position j obeys the bracketing rules, given that all earlier positions do
GoodAt(cs, j) ==
  LET c == cs[j]  f == DepthF(cs, j - 1)  b == DepthB(cs, j - 1) IN
  CASE c = "Fn"         -> f = 0                     \* "functions are never nested"
    [] c = "FnEnd"      -> f = 1 /\ b = 0            \* closes an open function whose blocks are closed
    [] c = "Param"      -> f = 1                     \* "parameters occur only inside a function"
    [] c = "Label"      -> f = 1 /\ b = 0            \* "only inside a function and never inside an open block"
    [] c = "Term"       -> b = 1                     \* closes the open block
    [] c = "BlockInst"  -> b = 1                     \* "every instruction that is not module-level sits inside an open block"
    [] c = "VarOrUndef" -> f = 0 \/ b = 1
    [] OTHER            -> TRUE                      \* module-level classes and Line: anywhere
WellBracketed(cs) == /\ \A j \in 1..Len(cs) : GoodAt(cs, j)
                     /\ DepthF(cs, Len(cs)) = 0 /\ DepthB(cs, Len(cs)) = 0   \* "each is closed", "every block is closed"
\* the structural error matching the first offending instruction
ErrorAt(cs, j) ==
  LET c == cs[j]  f == DepthF(cs, j - 1)  b == DepthB(cs, j - 1) IN
  CASE c = "Fn"         -> "NestedFunction"
    [] c = "FnEnd"      -> IF f = 0 THEN "MismatchedFunctionEnd" ELSE "UnclosedBlock"
    [] c = "Param"      -> "DetachedFunctionParameter"
    [] c = "Label"      -> IF f = 0 THEN "DetachedBlock" ELSE "NestedBlock"
    [] c = "Term"       -> "MismatchedTerminator"
    [] OTHER            -> "DetachedInstruction"
FirstBad(cs) == LET bad == {j \in 1..Len(cs) : ~GoodAt(cs, j)} IN
                IF bad = {} THEN 0 ELSE CHOOSE j \in bad : \A x \in bad : j <= x
ExpectedError(cs) ==
  LET j == FirstBad(cs) IN
  IF j # 0 THEN [e |-> ErrorAt(cs, j), at |-> j]
  ELSE IF DepthB(cs, Len(cs)) # 0 THEN [e |-> "UnclosedBlock", at |-> Len(cs) + 1]
  ELSE [e |-> "UnclosedFunction", at |-> Len(cs) + 1]

\* post-conditions of a successful load (C05, second sentence)
AllBlocks(m) == UNION { { m.functions[f].blocks[b] : b \in 1..Len(m.functions[f].blocks) } : f \in 1..Len(m.functions) }
PostOK(m) ==
  /\ \A f \in 1..Len(m.functions) :
       /\ Len(m.functions[f].def) = 1 /\ Class(m.functions[f].def[1]) = "Fn"
       /\ Len(m.functions[f].end) = 1 /\ Class(m.functions[f].end[1]) = "FnEnd"
  /\ \A b \in AllBlocks(m) :
       /\ Len(b.label) = 1 /\ Class(b.label[1]) = "Label"
       /\ Len(b.insts) >= 1 /\ Class(b.insts[Len(b.insts)]) = "Term"
       /\ \A x \in 1..(Len(b.insts) - 1) : Class(b.insts[x]) # "Term"
  /\ \A c \in ModuleLevel \ {"MemModel"} :
       \A x \in 1..Len(m[SectionOf(c)]) :
          Class(m[SectionOf(c)][x]) \in (IF c = "TypeConst" THEN {"TypeConst", "VarOrUndef", "Line", "DontCare"} ELSE {c})
=============================================================================
