---------------------------- MODULE LoaderTrace ----------------------------
(***************************************************************************)
(* Trace validation for the loader (C05) and for load-then-assemble (C01). *)
(*  ev = "load": a sequence of instructions was fed to a real dr::Loader   *)
(*   (a) directly, one consume_instruction call per instruction, and       *)
(*   (b) as a binary through load_words; the loaded module was assembled   *)
(*       and the output loaded again.                                      *)
(* The expected outcomes are Loader!Load over SpecFacts!LoaderClass.       *)
(* Rejected events are reported as <<index, code>>; code bits:             *)
(*   1 loader outcome differs (C05)      2 round trip differs (C01)        *)
(*   4 panic (C04)                                                         *)
(*   8 the INPUT is not what it claims: the harness could not build it, or *)
(*     the binary does not parse (by the operational grammar Parser.tla)   *)
(*     to the instructions it was made from - an error of the generator,   *)
(*     never a verdict on the code                                         *)
(***************************************************************************)
EXTENDS Integers, Sequences, FiniteSets, TLC, Json, IOUtils, SpecFacts

ClassOfInst(i) == LoaderClass(i.op)
L == INSTANCE Loader WITH Class <- ClassOfInst

P == INSTANCE Parser
\* the binary fed through load_words is the encoding of e.insts (evaluated only for events that would be rejected)
InputConforms(e) == LET r == P!Parse(e.in_words) IN r.hdr = "ok" /\ r.fault = <<>> /\ r.insts = e.insts

Rec == ndJsonDeserialize(IOEnv.TRACE)
VARIABLES l, bad
vars == <<l, bad>>

Sections == {"capabilities", "extensions", "ext_inst_imports", "memory_model", "entry_points", "execution_modes",
             "debug_string_source", "debug_names", "debug_module_processed", "annotations", "types_global_values", "functions"}
SameSections(a, b) == \A s \in Sections : a[s] = b[s]

\* The property lists the structural errors by category ("nested / unclosed / mismatched end or terminator /
\* detached parameter, block or instruction") and asks for "the structural error matching the first offending
\* instruction".  Where two categories describe the same situation either name matches it: a terminator with no
\* open block is a mismatched terminator and a detached instruction; an OpFunctionEnd while a block is open is an
\* unclosed block and a mismatched end; at the end of the input an open block inside an open function is an
\* unclosed block and an unclosed function.
\* the structural error variants of the pinned tree; a variant added to the tree later cannot be mapped to a category
\* of the property by its name and is not judged
ParseErrNames == {"Parse:Complete", "Parse:ConsumerStopRequested", "Parse:HeaderIncomplete", "Parse:HeaderIncorrect", "Parse:EndiannessUnsupported",
                  "Parse:WordCountZero", "Parse:OpcodeUnknown", "Parse:OperandExpected", "Parse:OperandExceeded", "Parse:OperandError",
                  "Parse:TypeUnsupported", "Parse:SpecConstantOpIntegerIncorrect", "Parse:Other", "Parse:?"}
IsParseErr(name) == name \in ParseErrNames
KnownLoaderErrors == {"NestedFunction", "UnclosedFunction", "MismatchedFunctionEnd", "DetachedFunctionParameter", "DetachedBlock",
                      "NestedBlock", "UnclosedBlock", "MismatchedTerminator", "DetachedInstruction", "EmptyInstructionList",
                      "WrongOpCapabilityOperand", "WrongOpExtensionOperand", "WrongOpExtInstImportOperand", "WrongOpMemoryModelOperand",
                      "WrongOpNameOperand", "FunctionNotFound", "BlockNotFound", "Foreign"}
ErrMatches(specErr, got) ==
  \/ got = specErr
  \/ got \notin KnownLoaderErrors /\ ~IsParseErr(got)
  \/ specErr = "MismatchedTerminator" /\ got = "DetachedInstruction"
  \/ specErr = "UnclosedBlock" /\ got \in {"MismatchedFunctionEnd", "UnclosedFunction"}
\* (a) direct feeding: outcome, error variant and the index of the offending instruction
DirectOK(e, exp) ==
  \E o \in exp :
     /\ o.st = e.direct.st
     /\ IF o.st = "ok" THEN SameSections(o.m, e.direct.m[1])
        ELSE ErrMatches(o.e, e.direct.e) /\ o.at = e.direct.at
\* (b) through the parser: same outcome and module; the header carries the input's version and bound
WordsOK(e, exp) ==
  \E o \in exp :
     /\ o.st = e.words.st
     /\ IF o.st = "ok"
        THEN /\ SameSections(o.m, e.words.m[1])
             /\ Len(e.words.m[1].header) = 1
             /\ e.words.m[1].header[1].version = e.in_version
             /\ e.words.m[1].header[1].bound = e.in_bound
        ELSE ErrMatches(o.e, e.words.e)

\* C01 exclusions: OpLine/OpNoLine inside a function but outside any block; more than one OpMemoryModel
Excluded(e) ==
  LET cs == L!Cs(e.insts) IN
  \/ \E j \in 1..Len(cs) : cs[j] = "Line" /\ L!DepthF(cs, j - 1) = 1 /\ L!DepthB(cs, j - 1) = 0
  \/ L!Count(cs, "MemModel", Len(cs)) > 1

RoundTripOK(e) ==
  LET m == e.words.m[1] IN
  /\ e.words.out_st = "ok"
  \* "exactly the input's instructions: each one re-encoded to the same words, none dropped, duplicated or
  \*  invented", grouped in layout order: the output is the encoding of a module Loader!Load computes from the INPUT
  /\ \E o \in L!Load(e.insts) : o.st = "ok" /\ SubSeq(e.words.out, 6, Len(e.words.out)) = L!EncodeInsts(L!AllInsts(o.m), 1)
  \* header: magic, the input's version, a generator word, the input's bound, 0;
  \* then exactly the instructions of the loaded module in layout order, re-encoded
  /\ Len(e.words.out) >= 5
  /\ e.words.out[1] = MagicWord /\ e.words.out[2] = e.in_version /\ e.words.out[4] = e.in_bound
  /\ SubSeq(e.words.out, 6, Len(e.words.out)) = L!EncodeInsts(L!AllInsts(m), 1)
  \* none dropped, duplicated or invented: the loaded module equals (WordsOK) a module computed by
  \* Loader!Load, which files every instruction exactly once (MC_Loader!Preserve); here the count
  /\ Len(L!AllInsts(m)) = Len(e.insts)
  \* an input already in layout order comes back word-identical from the first instruction on
  /\ (e.layout => SubSeq(e.words.out, 6, Len(e.words.out)) = SubSeq(e.in_words, 6, Len(e.in_words)))
  \* loading the output again gives an equal module
  /\ e.words.re_st = "ok" /\ SameSections(e.words.re[1], m) /\ e.words.re[1].header = m.header

Code(e) ==
  IF e.direct.st = "panic" \/ e.words.st = "panic" \/ e.words.out_st = "panic" \/ e.words.re_st = "panic" THEN 4 + 1
  \* the harness could not even construct one of the instructions as data (an enumerant / mask bit of the pinned grammar
  \* that this tree's types do not have): when the input is conforming and the tree does not load it as the
  \* specification prescribes, that is a verdict on the words path; otherwise it is an error of the harness
  ELSE IF e.direct.st = "unbuildable" THEN
       (IF InputConforms(e) /\ ~WordsOK(e, L!Load(e.insts)) THEN 1 ELSE 8)
  ELSE LET exp == L!Load(e.insts)
           c == (IF DirectOK(e, exp) /\ WordsOK(e, exp) THEN 0 ELSE 1)
                + (IF e.words.st = "ok" /\ ~Excluded(e) /\ ~RoundTripOK(e) THEN 2 ELSE 0)
       IN IF c # 0 /\ ~InputConforms(e) THEN 8 ELSE c

\* C01 on an arbitrary binary the real loader accepted (no specification-side parse needed):
\* header carried over, layout-ordered input word-identical, output is a fixed point of load
RawOK(e) ==
  e.words.st = "ok" =>
    LET m == e.words.m[1] IN
    /\ e.words.out_st = "ok" /\ Len(e.words.out) >= 5
    /\ e.words.out[1] = MagicWord /\ e.words.out[2] = e.in_version /\ e.words.out[4] = e.in_bound
    /\ SubSeq(e.words.out, 6, Len(e.words.out)) = L!EncodeInsts(L!AllInsts(m), 1)
    /\ (e.layout => SubSeq(e.words.out, 6, Len(e.words.out)) = SubSeq(e.in_words, 6, Len(e.in_words)))
    /\ Len(e.words.out) = Len(e.in_words)
    /\ e.words.re_st = "ok" /\ SameSections(e.words.re[1], m) /\ e.words.re[1].header = m.header
RawCode(e) == IF e.words.st = "panic" \/ e.words.out_st = "panic" \/ e.words.re_st = "panic" THEN 5 ELSE IF RawOK(e) THEN 0 ELSE 2

Init == l = 1 /\ bad = <<>>
Next == /\ l <= Len(Rec)
        /\ LET c == IF Rec[l].ev = "load" THEN Code(Rec[l]) ELSE IF Rec[l].ev = "rawload" THEN RawCode(Rec[l]) ELSE 0 IN
             bad' = IF c = 0 THEN bad ELSE (IF Len(bad) >= 5000 THEN bad ELSE Append(bad, <<l, c>>))
        /\ l' = l + 1
Spec == Init /\ [][Next]_vars
Done == l = Len(Rec) + 1
Report == Done => PrintT(<<"TRACE-RESULT", Len(Rec), bad>>)
NamesExist == AllNamesExist
=============================================================================
