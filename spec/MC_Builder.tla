----------------------------- MODULE MC_Builder -----------------------------
(***************************************************************************)
(* Bounded model of the Builder rules of Builder.tla (C12, C13): all call  *)
(* sequences over the abstract calls below within <= MaxFns functions,     *)
(* <= MaxBlocks blocks per function, <= MaxInsts instructions per block.   *)
(* Failing calls leave the module unchanged but may burn one id.           *)
(* Invariants: the selection always designates something that exists;      *)
(* fresh ids strictly increase; implicit type requests never duplicate a   *)
(* declaration; a failed call changes nothing.  Every explored (state,     *)
(* call) is emitted with a shortest history; the harness maps each         *)
(* abstract call to concrete Builder methods and BuilderTrace validates    *)
(* what the real Builder does.                                             *)
(***************************************************************************)
EXTENDS Integers, Sequences, FiniteSets, TLC, Json, Builder

CONSTANTS MaxFns, MaxBlocks, MaxInsts, MaxId, MaxGlobals, Hows, Emit

VARIABLES m, selF, selB, nextId, how, res, fresh, expl, hist
vars == <<m, selF, selB, nextId, how, res, fresh, expl, hist>>
view == <<m, selF, selB, nextId, how, expl>>
\* coarser view used only to EMIT histories (one shortest history per abstract situation x call):
\* selection, number of functions / blocks, whether functions are ended, length of the selected
\* block, which type keys are declared
shapeview == <<selF, selB, how,
               [f \in 1..Len(m.functions) |-> <<Len(m.functions[f].blocks), Len(m.functions[f].end)>>],
               IF BlockSelected(m, selF, selB) THEN Len(Blk(m, Val(selF), Val(selB)).insts) ELSE -1,
               {m.types_global_values[j].c : j \in 1..Len(m.types_global_values)}>>

I(c, id) == [c |-> c, id |-> id]         \* an abstract instruction: class and result id (0 = none)

Init == /\ m = EmptyModule /\ selF = None /\ selB = None
        /\ how \in Hows
        /\ nextId = (IF how = "from_module" THEN 4 ELSE 1)
        /\ res = "none" /\ fresh = 0 /\ expl = FALSE /\ hist = <<>>

Emitting(call) == hist' = Append(hist, call)
                  /\ (Emit => PrintT(<<"EDGE", ToJson([how |-> how, calls |-> hist'])>>))

\* a failing call: nothing changes except, possibly, one burnt id (C13: "calls that fail after reserving an id")
Fail(call, mayBurn) == /\ res' = "Err" /\ fresh' = 0 /\ UNCHANGED <<m, selF, selB, how, expl>>
                       /\ nextId' \in (IF mayBurn THEN {nextId, nextId + 1} ELSE {nextId})
                       /\ Emitting(call)
\* a successful call producing module m2, selection s, optionally allocating a fresh id
Succeed(call, m2, s, alloc) == /\ res' = "Ok" /\ m' = m2 /\ selF' = s[1] /\ selB' = s[2]
                               /\ fresh' = (IF alloc THEN nextId ELSE 0)
                               /\ nextId' = (IF alloc THEN nextId + 1 ELSE nextId)
                               /\ UNCHANGED <<how, expl>> /\ Emitting(call)

CurBlockLen == Len(Blk(m, Val(selF), Val(selB)).insts)
OneSel(kind, m2, idx) == CHOOSE s \in SelectionAfter(kind, m2, selF, selB, idx) : s[2] = None \/ kind \notin {"select_function"}

BeginFunction == LET c == <<"BeginFunction">> IN
  IF MustFail("begin_function", m, selF, selB, None) THEN Fail(c, TRUE)
  ELSE /\ NFuncs(m) < MaxFns
       /\ LET m2 == [m EXCEPT !.functions = Append(@, [EmptyFunction EXCEPT !.def = <<I("Fn", nextId)>>])] IN
          Succeed(c, m2, <<Some(NFuncs(m2) - 1), selB>>, TRUE)
EndFunction == LET c == <<"EndFunction">> IN
  IF MustFail("end_function", m, selF, selB, None) THEN Fail(c, FALSE)
  ELSE Succeed(c, [m EXCEPT !.functions[Val(selF) + 1].end = <<I("FnEnd", 0)>>], <<None, None>>, FALSE)
Param == LET c == <<"Param">> IN
  IF MustFail("param", m, selF, selB, None) THEN Fail(c, FALSE)
  ELSE /\ Len(Fn(m, Val(selF)).params) < 1
       /\ Succeed(c, [m EXCEPT !.functions[Val(selF) + 1].params = Append(@, I("Param", nextId))], <<selF, selB>>, TRUE)
BeginBlock(labelled) == LET c == <<IF labelled THEN "BeginBlock" ELSE "BeginBlockNoLabel">> IN
  IF MustFail("begin_block", m, selF, selB, None) THEN Fail(c, FALSE)
  ELSE /\ NBlocks(m, Val(selF)) < MaxBlocks
       /\ LET m2 == [m EXCEPT !.functions[Val(selF) + 1].blocks =
                        Append(@, [EmptyBlock EXCEPT !.label = IF labelled THEN <<I("Label", nextId)>> ELSE <<>>])] IN
          Succeed(c, m2, <<selF, Some(NBlocks(m2, Val(selF)) - 1)>>, TRUE)
Term == LET c == <<"Term">> IN
  IF MustFail("term", m, selF, selB, None) THEN Fail(c, FALSE)
  ELSE /\ CurBlockLen < MaxInsts
       /\ Succeed(c, WithBlockInst(m, Val(selF), Val(selB), CurBlockLen, I("Term", 0)), <<selF, None>>, FALSE)
BlockInst == LET c == <<"BlockInst">> IN
  \* an instruction with a result id reserves the id before it finds out that no block is selected
  IF MustFail("block", m, selF, selB, None) THEN Fail(c, TRUE)
  ELSE /\ CurBlockLen < MaxInsts
       /\ Succeed(c, WithBlockInst(m, Val(selF), Val(selB), CurBlockLen, I("BlockInst", nextId)), <<selF, selB>>, TRUE)
InsertBlockInst == \E ip \in {<<"Begin">>, <<"End">>, <<"FromBegin", 1>>, <<"FromEnd", 1>>} :
  LET c == <<"InsertBlockInst", ip>> IN
  IF MustFail("insert_block", m, selF, selB, None) THEN Fail(c, TRUE)
  ELSE /\ CurBlockLen < MaxInsts
       \* C12: "insertion offsets within the selected block"
       /\ InsertIndex(ip, CurBlockLen) >= 0 /\ InsertIndex(ip, CurBlockLen) <= CurBlockLen
       /\ Succeed(c, WithBlockInst(m, Val(selF), Val(selB), InsertIndex(ip, CurBlockLen), I("BlockInst", nextId)), <<selF, selB>>, TRUE)
VarOrUndef == LET c == <<"VarOrUndef">> IN
  IF BlockSelected(m, selF, selB)
  THEN CurBlockLen < MaxInsts /\ Succeed(c, WithBlockInst(m, Val(selF), Val(selB), CurBlockLen, I("VarOrUndef", nextId)), <<selF, selB>>, TRUE)
  ELSE Len(m.types_global_values) < MaxGlobals /\ Succeed(c, WithSection(m, "types_global_values", I("VarOrUndef", nextId)), <<selF, selB>>, TRUE)
Line == LET c == <<"Line">> IN
  IF BlockSelected(m, selF, selB)
  THEN CurBlockLen < MaxInsts /\ Succeed(c, WithBlockInst(m, Val(selF), Val(selB), CurBlockLen, I("Line", 0)), <<selF, selB>>, FALSE)
  ELSE Len(m.types_global_values) < MaxGlobals /\ Succeed(c, WithSection(m, "types_global_values", I("Line", 0)), <<selF, selB>>, FALSE)
Global == LET c == <<"Global">> IN
  Len(m.annotations) < 1 /\ Succeed(c, WithSection(m, "annotations", I("Annot", 0)), <<selF, selB>>, FALSE)
Const == LET c == <<"Const">> IN
  Len(m.types_global_values) < MaxGlobals /\ Succeed(c, WithSection(m, "types_global_values", I("Const", nextId)), <<selF, selB>>, TRUE)
SelectFunction == \E i \in -1..MaxFns :
  LET c == <<"SelectFunction", i>>  idx == IF i < 0 THEN None ELSE Some(i) IN
  IF MustFail("select_function", m, selF, selB, idx) THEN Fail(c, FALSE)
  ELSE \E s \in SelectionAfter("select_function", m, selF, selB, idx) : Succeed(c, m, s, FALSE)
SelectBlock == \E j \in -1..MaxBlocks :
  LET c == <<"SelectBlock", j>>  idx == IF j < 0 THEN None ELSE Some(j) IN
  IF MustFail("select_block", m, selF, selB, idx) THEN Fail(c, FALSE)
  ELSE Succeed(c, m, <<selF, idx>>, FALSE)
Pop == LET c == <<"Pop">> IN
  IF MustFail("pop", m, selF, selB, None) THEN Fail(c, FALSE)
  ELSE Succeed(c, [m EXCEPT !.functions[Val(selF) + 1].blocks[Val(selB) + 1].insts = SubSeq(@, 1, Len(@) - 1)], <<selF, selB>>, FALSE)
Id == Succeed(<<"Id">>, m, <<selF, selB>>, TRUE)
\* C13: type requests over three keys, implicit (deduplicated) or with an explicit id
TypeReq == \E key \in {"TypeA", "TypeB"}, mode \in {"implicit", "explicit"} :
  LET c == <<key, mode>>
      same == {j \in 1..Len(m.types_global_values) : m.types_global_values[j].c = key /\ m.types_global_values[j].id # 0}
  IN IF mode = "explicit"
     \* the harness takes the explicit id from the builder first (one Id call), then declares with it
     THEN Len(m.types_global_values) < MaxGlobals /\
          /\ res' = "Ok" /\ m' = WithSection(m, "types_global_values", I(key, nextId)) /\ fresh' = nextId
          /\ nextId' = nextId + 1 /\ expl' = TRUE /\ UNCHANGED <<selF, selB, how>> /\ Emitting(c)
     ELSE IF same # {}
          THEN /\ res' = "Ok" /\ fresh' = 0 /\ UNCHANGED <<m, selF, selB, nextId, how, expl>> /\ Emitting(c)
          ELSE Len(m.types_global_values) < MaxGlobals /\ Succeed(c, WithSection(m, "types_global_values", I(key, nextId)), <<selF, selB>>, TRUE)

Next == /\ nextId <= MaxId
        /\ \/ BeginFunction \/ EndFunction \/ Param \/ BeginBlock(TRUE) \/ BeginBlock(FALSE) \/ Term \/ BlockInst
           \/ InsertBlockInst \/ VarOrUndef \/ Line \/ Global \/ Const \/ SelectFunction \/ SelectBlock \/ Pop \/ Id \/ TypeReq
Spec == Init /\ [][Next]_vars

---------------------------------------------------------------------------
\* C12: "the function/block selection always designates an existing function and block or nothing"
SelValid == SelectionValid(m, selF, selB)
\* C12: "A call that returns an error leaves the instructions of the module exactly as they were"
ErrLeavesModule == [][res' = "Err" => m' = m]_vars
\* C13: "Fresh ids ... are pairwise distinct and strictly increasing ... the header bound equals the next
\*       id that would have been allocated, hence exceeds every allocated id"
AllIds == LET g == GlobalInsts(m) \o FnsInsts(m.functions, 1) IN { g[j].id : j \in 1..Len(g) } \ {0}
BoundAbove == \A i \in AllIds : i < nextId
FreshIncreasing == [][fresh' # 0 => (fresh' = nextId /\ nextId' = nextId + 1)]_vars
IdsDistinct == LET g == GlobalInsts(m) \o FnsInsts(m.functions, 1) IN
               \A a, b \in 1..Len(g) : (a # b /\ g[a].id # 0) => g[a].id # g[b].id
\* C13: "a module whose types were all requested implicitly never contains two identical type declarations"
NoDuplicateTypes == ~expl =>
  \A a, b \in 1..Len(m.types_global_values) :
     (a # b /\ m.types_global_values[a].c \in {"TypeA", "TypeB"}) => m.types_global_values[a].c # m.types_global_values[b].c
=============================================================================
