SPECIFICATION Spec
CONSTANTS
  MaxFns = 2
  MaxBlocks = 1
  MaxInsts = 1
  MaxId = 4
  MaxGlobals = 2
  Hows = {"new"}
  Emit = TRUE
VIEW view
INVARIANT SelValid
INVARIANT BoundAbove
INVARIANT IdsDistinct
INVARIANT NoDuplicateTypes
PROPERTY ErrLeavesModule
PROPERTY FreshIncreasing
CHECK_DEADLOCK FALSE
