SPECIFICATION Spec
CONSTANTS
  MaxFns = 2
  MaxBlocks = 2
  MaxInsts = 2
  MaxId = 7
  Hows = {"new", "default", "from_module"}
  Emit = TRUE
VIEW view
INVARIANT SelValid
INVARIANT BoundAbove
INVARIANT IdsDistinct
INVARIANT NoDuplicateTypes
PROPERTY ErrLeavesModule
PROPERTY FreshIncreasing
CHECK_DEADLOCK FALSE
