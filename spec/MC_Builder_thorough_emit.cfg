SPECIFICATION Spec
CONSTANTS
  MaxFns = 2
  MaxBlocks = 2
  MaxInsts = 1
  MaxId = 9
  MaxGlobals = 2
  Hows = {"new", "default", "from_module"}
  Emit = TRUE
VIEW shapeview
CHECK_DEADLOCK FALSE
