---------------------------- MODULE MC_Decoder ----------------------------
(***************************************************************************)
(* Bounded model of Decoder.tla: every buffer up to MaxLen bytes over a    *)
(* small byte alphabet, every request sequence up to Depth.                *)
(*  - checks the statements of property C11 as invariants / action         *)
(*    properties of the specification (design level);                      *)
(*  - checks totality (C04): every request has an outcome in every state;  *)
(*  - emits, for every explored (state, request), a shortest request       *)
(*    history reaching it ("EDGE" lines), which the harness replays on the *)
(*    real Decoder; the resulting trace is validated by DecoderTrace.      *)
(***************************************************************************)
EXTENDS Integers, Sequences, FiniteSets, TLC, Json, Words

CONSTANTS MaxLen, Depth, Alphabet, Limits, WordCounts, Emit

\* typed conversions on the model alphabet, transcribed from the SPIR-V specification:
\* SourceLanguage has the enumerants 0..13; FunctionControl the bits 0x1000F.
MCAccepts(kind, w) ==
  CASE kind = "SourceLanguage"  -> w[1] = 0 /\ w[2] <= 13
    [] kind = "FunctionControl" -> SubMask(w, <<1, 15>>)

D == INSTANCE Decoder WITH Accepts <- MCAccepts

VARIABLES bytes, off, lim, res,
          budget,   \* words still allowed by the most recent set_limit (NoLimit if none/cleared)
          hist      \* request history (hidden from the state fingerprint by VIEW)
vars == <<bytes, off, lim, res, budget, hist>>
view == <<bytes, off, lim, budget, Len(hist)>>

Buffers == UNION { [1..n -> Alphabet] : n \in 0..MaxLen }
AllCalls == D!Calls(WordCounts, Limits, {"SourceLanguage", "FunctionControl"})

S == [bytes |-> bytes, off |-> off, lim |-> lim]

Init == /\ bytes \in Buffers /\ off = 0 /\ lim = D!NoLimit /\ res = <<"None">>
        /\ budget = D!NoLimit /\ hist = <<>>

Step(call) ==
  /\ Len(hist) < Depth
  /\ hist' = Append(hist, call)
  /\ (Emit => PrintT(<<"EDGE", ToJson([bytes |-> bytes, calls |-> hist'])>>))
  /\ \E o \in D!Succ(S, call) :
       /\ off' = o.off /\ lim' = o.lim /\ res' = o.res
       /\ budget' = CASE call[1] = "set_limit"   -> call[2]
                      [] call[1] = "clear_limit" -> D!NoLimit
                      [] OTHER -> IF budget = D!NoLimit THEN budget
                                  ELSE budget - ((o.off - off) \div 4)
  /\ UNCHANGED bytes

Word      == Step(<<"word">>)
Words     == \E n \in WordCounts : Step(<<"words", n>>)
Bit64     == Step(<<"bit64">>)
String    == Step(<<"string">>)
Typed     == \E k \in {"SourceLanguage", "FunctionControl"} : Step(<<"typed", k>>)
SetLimit  == \E n \in Limits : Step(<<"set_limit", n>>)
ClearLimit == Step(<<"clear_limit">>)
Next == Word \/ Words \/ Bit64 \/ String \/ Typed \/ SetLimit \/ ClearLimit
Spec == Init /\ [][Next]_vars

---------------------------------------------------------------------------
\* C11: "advances the offset ..., never beyond the end of the buffer"
InBuffer == off >= 0 /\ off <= Len(bytes)
\* C11: "After a limit of n words is set, at most n further words can be consumed"
LimitHonoured == budget = D!NoLimit \/ budget >= 0
\* C04: the specification is total -- no request is ever without an outcome
Total == \A c \in AllCalls : D!Total(S, c)
\* C11: successful requests consume whole words
WholeWords == off % 4 = 0

\* C11 as action properties
LastCall == hist'[Len(hist')]
\* "a failed raw-word request leaves the offset unchanged and reports that offset"
FailedWordKeepsOffset ==
  [][ (LastCall = <<"word">> /\ res'[1] = "Err") => (off' = off /\ res'[3] = off) ]_vars
\* a failed words(n)/bit64 reports the offset the decoder is left at
FailedWordsReportOffset ==
  [][ (LastCall[1] \in {"words", "bit64"} /\ res'[1] = "Err") => res'[3] = off' ]_vars
\* "a successful decoder request returns exactly the little-endian words ... found at the
\*  current offset and advances the offset by four bytes per word consumed"
OkWordExact ==
  [][ (LastCall = <<"word">> /\ res'[1] = "Ok") =>
        /\ off' = off + 4
        /\ res'[2] = WordOfBytes(SubSeq(bytes, off + 1, off + 4)) ]_vars
OkStringExact ==
  [][ (LastCall = <<"string">> /\ res'[1] = "Ok") =>
        LET n == Len(res'[2]) IN
        /\ res'[2] = SubSeq(bytes, off + 1, off + n)       \* exactly the bytes at the offset
        /\ bytes[off + n + 1] = 0                         \* NUL-terminated
        /\ \A i \in 1..n : res'[2][i] # 0
        /\ ValidUtf8(res'[2])
        /\ off' = off + 4 * ((n \div 4) + 1) ]_vars
\* "clearing the limit restores unlimited reading"
ClearRestores ==
  [][ LastCall = <<"clear_limit">> => lim' = D!NoLimit ]_vars
\* "at most n further words ... before limit-reached errors are returned": with the
\*  limit exhausted and bytes left, a raw word request fails with LimitReached
ExhaustedFails ==
  [][ (LastCall = <<"word">> /\ lim = 0 /\ Len(bytes) - off >= 4) => res' = <<"Err", "LimitReached", off>> ]_vars
=============================================================================
