SPECIFICATION Spec
CONSTANTS
  MaxLen = 5
  Depth = 3
  Alphabet = {0, 1, 195}
  Limits = {0, 1, 2, 100000}
  WordCounts = {0, 2}
  Emit = TRUE
VIEW view
INVARIANT InBuffer
INVARIANT LimitHonoured
INVARIANT Total
INVARIANT WholeWords
PROPERTY FailedWordKeepsOffset
PROPERTY FailedWordsReportOffset
PROPERTY OkWordExact
PROPERTY OkStringExact
PROPERTY ClearRestores
PROPERTY ExhaustedFails
CHECK_DEADLOCK FALSE
