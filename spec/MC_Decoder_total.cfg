SPECIFICATION Spec
CONSTANTS
  MaxLen = 5
  Depth = 3
  Alphabet = {0, 1, 195}
  Limits = {0, 1, 2, 3, 100000}
  WordCounts = {0, 1, 2, 3}
  Emit = FALSE
VIEW view
INVARIANT InBuffer
INVARIANT Total
CHECK_DEADLOCK FALSE
