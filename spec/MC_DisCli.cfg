SPECIFICATION Spec
INVARIANT ExitOK
INVARIANT NoOtherEnd
CHECK_DEADLOCK FALSE
