SPECIFICATION DSpec
INVARIANT Injective
INVARIANT OpNamesUnique
INVARIANT EnumNamesUnique
INVARIANT MaskNamesUnique
INVARIANT MaskNamesCoverGrammar
INVARIANT NonVacuous
INVARIANT Show
CHECK_DEADLOCK FALSE
