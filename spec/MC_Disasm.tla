----------------------------- MODULE MC_Disasm -----------------------------
(***************************************************************************)
(* Design-level check of C07's last sentence ("two different instruction   *)
(* streams never share a disassembly") on a bounded universe built from    *)
(* the WHOLE pinned grammar: for every opcode whose operands are ids,      *)
(* integer literals, enumerants and masks (with their parameters), all     *)
(* operand lists over two ids, two literal values, a sample of enumerants  *)
(* (every one that has parameters, and the first few others), the empty    *)
(* mask, every single bit and pairs of the first bits, optional operands   *)
(* present / absent (trailing run), variadic operands 0..2 times.  The     *)
(* line format Disasm!LineToks must be INJECTIVE on it, and the vocabulary *)
(* must be unambiguous: opcode names, the enumerant names of a kind and    *)
(* the bit names of a mask kind are pairwise different, and no bit name is *)
(* the kind's name for the empty mask.  One state; evaluated once.         *)
(***************************************************************************)
EXTENDS Disasm

VARIABLE done
DSpec == done = FALSE /\ [][done' = TRUE /\ ~done]_done

IdWs == {<<0, 1>>, <<0, 2>>}
LitWs == {<<0, 0>>, <<0, 7>>}
OrW(a, b) == <<a[1] | b[1], a[2] | b[2]>>

EnumSample(k) ==
  LET V == G.kinds[k].values IN
  { V[x].back : x \in { y \in DOMAIN V : V[y].params # <<>> \/ (V[y].back[1] = 0 /\ V[y].back[2] <= 2) } }
MaskSample(k) ==
  LET B == G.kinds[k].bits  n == Len(B)  m == IF n < 3 THEN n ELSE 3 IN
  {Zero} \cup { B[j].bit : j \in 1..n } \cup { OrW(B[a].bit, B[b].bit) : a \in 1..m, b \in 1..m }

Simple(k) == k \in {"IdRef", "IdScope", "IdMemorySemantics", "LiteralInteger", "LiteralFloat", "PairIdRefLiteralInteger", "PairIdRefIdRef"}
             \/ (k \in DOMAIN G.kinds /\ Cat(k) \in {"ValueEnum", "BitEnum"})

RECURSIVE KindSeqs(_), ListSeqsD(_, _)
\* all renderable operand sequences for ONE operand of kind k (with its parameters)
KindSeqs(k) ==
  IF k \in {"IdRef", "IdScope", "IdMemorySemantics"} THEN { <<Op1(k, w)>> : w \in IdWs }
  ELSE IF k \in {"LiteralInteger", "LiteralFloat"} THEN { <<Op1("LiteralBit32", w)>> : w \in LitWs }
  ELSE IF k = "PairIdRefLiteralInteger" THEN { <<Op1("IdRef", a), Op1("LiteralBit32", b)>> : a \in IdWs, b \in LitWs }
  ELSE IF k = "PairIdRefIdRef" THEN { <<Op1("IdRef", a), Op1("IdRef", b)>> : a \in IdWs, b \in IdWs }
  ELSE IF Cat(k) = "ValueEnum" THEN UNION { { <<Op1(k, w)>> \o p : p \in ListSeqsD(EnumParams(k, w), 1) } : w \in EnumSample(k) }
  ELSE IF Cat(k) = "BitEnum" THEN UNION { { <<Op1(k, w)>> \o p : p \in ListSeqsD(MaskParams(k, w), 1) } : w \in MaskSample(k) }
  ELSE {}
\* parameters ps[j..], each exactly once (one id / literal value only: parameters multiply the universe otherwise)
ListSeqsD(ps, j) ==
  IF j > Len(ps) THEN { <<>> }
  ELSE LET first == IF ps[j].k \in {"IdRef", "IdScope", "IdMemorySemantics"} THEN { <<Op1(ps[j].k, <<0, 2>>)>> }
                    ELSE IF ps[j].k \in {"LiteralInteger", "LiteralFloat"} THEN { <<Op1("LiteralBit32", <<0, 7>>)>> }
                    ELSE KindSeqs(ps[j].k) IN
       { a \o b : a \in first, b \in ListSeqsD(ps, j + 1) }

RECURSIVE SigSeqsD(_, _)
SigSeqsD(sig, i) ==
  IF i > Len(sig) THEN { <<>> }
  ELSE IF sig[i].q = "One" THEN { a \o b : a \in KindSeqs(sig[i].k), b \in SigSeqsD(sig, i + 1) }
  ELSE IF sig[i].q = "ZeroOrOne" THEN { <<>> } \cup { a \o b : a \in KindSeqs(sig[i].k), b \in SigSeqsD(sig, i + 1) }
  ELSE { <<>> } \cup KindSeqs(sig[i].k) \cup { a \o b : a \in KindSeqs(sig[i].k), b \in KindSeqs(sig[i].k) }

Rest(op) == SelectSeq(Inst(op).ops, LAMBDA o : o.k \notin {"IdResultType", "IdResult"})
Renderable(op) == \A j \in 1..Len(Rest(op)) : Simple(Rest(op)[j].k)
\* ids of many-operand instructions multiply: above 5 required id operands only the last three vary
Opcodes == { G.insts[x].opcode : x \in DOMAIN G.insts }
HasRT(op) == Len(Inst(op).ops) >= 1 /\ Inst(op).ops[1].k = "IdResultType"
HasRID(op) == \E j \in 1..Len(Inst(op).ops) : Inst(op).ops[j].k = "IdResult"
Small(op) == Cardinality({ j \in 1..Len(Rest(op)) : Rest(op)[j].q = "One" }) <= 6
UniverseOf(op) == { MkInst(op, IF HasRT(op) THEN <<<<0, 8>>>> ELSE <<>>, IF HasRID(op) THEN <<<<0, 9>>>> ELSE <<>>, s) : s \in SigSeqsD(Rest(op), 1) }
Checked == { op \in Opcodes : Renderable(op) /\ Small(op) }

\* "two different instruction streams never share a disassembly": per opcode, as many different lines as instructions
InjectiveFor(op) == LET U == UniverseOf(op) IN Cardinality({ LineToks(i) : i \in U }) = Cardinality(U)
Injective == \A op \in Checked : InjectiveFor(op)
NoWildcards == \A op \in Checked : \A i \in UniverseOf(op) : \A j \in 1..Len(LineToks(i)) : LineToks(i)[j] # AnyTok \/ "Dim" \in { i.ops[x].k : x \in 1..Len(i.ops) }

\* the vocabulary is unambiguous
OpNamesUnique == \A a, b \in Opcodes : a # b => Inst(a).name # Inst(b).name
EnumKinds == { k \in DOMAIN G.kinds : Cat(k) = "ValueEnum" }
MaskKinds == { k \in DOMAIN G.kinds : Cat(k) = "BitEnum" }
EnumNamesUnique == \A k \in EnumKinds : \A x, y \in DOMAIN G.kinds[k].values : x # y => G.kinds[k].values[x].name # G.kinds[k].values[y].name
MaskNamesUnique == \A k \in MaskKinds \cap DOMAIN MaskNames :
  LET B == MaskNames[k].bits IN
  /\ \A a, b \in 1..Len(B) : a # b => B[a].text # B[b].text /\ B[a].bit # B[b].bit
  /\ \A a \in 1..Len(B) : B[a].text # MaskNames[k].zero
MaskNamesCoverGrammar == \A k \in MaskKinds : k \in DOMAIN MaskNames /\ { MaskNames[k].bits[j].bit : j \in 1..Len(MaskNames[k].bits) } = { G.kinds[k].bits[j].bit : j \in 1..Len(G.kinds[k].bits) }

\* sanity of the model itself (MC_Disasm_bad.cfg): with ids all spelt alike the format is NOT injective
BadIdTok(w) == "%1"
NonVacuous == Cardinality(Checked) >= 500
Show == PrintT(<<"MC_Disasm", "opcodes checked", Cardinality(Checked), "of", Cardinality(Opcodes)>>)
=============================================================================
