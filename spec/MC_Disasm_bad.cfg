SPECIFICATION DSpec
CONSTANT IdTok <- BadIdTok
INVARIANT Injective
CHECK_DEADLOCK FALSE
