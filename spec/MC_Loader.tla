----------------------------- MODULE MC_Loader -----------------------------
(***************************************************************************)
(* Bounded model for C05 (and the design half of C01): every sequence of   *)
(* up to MaxLen instruction classes.  A state is a sequence; one action    *)
(* appends one instruction (tagged with its position).  Invariants:        *)
(*   Equivalence : Load succeeds  <=>  WellBracketed (declarative)         *)
(*   FirstError  : on failure the error is the one of the first offending  *)
(*                 instruction, at its position                            *)
(*   Post        : post-conditions of C05 on success                       *)
(*   Preserve    : C01 at the design level - the loaded module holds       *)
(*                 exactly the input's instructions (none dropped,         *)
(*                 duplicated or invented), in layout order with relative  *)
(*                 order preserved per section/function/block; identity on *)
(*                 layout-ordered input; idempotence                       *)
(* Every sequence is emitted for replay on the real Loader.                *)
(***************************************************************************)
EXTENDS Integers, Sequences, FiniteSets, TLC, Json

CONSTANTS Letters, MaxLen, Emit

VARIABLE seq      \* sequence of [c |-> class, t |-> tag]
ClassOf(i) == i.c
L == INSTANCE Loader WITH Class <- ClassOf

Init == seq = <<>>
Next == /\ Len(seq) < MaxLen
        /\ \E c \in Letters : seq' = Append(seq, [c |-> c, t |-> Len(seq) + 1])
        /\ (Emit => PrintT(<<"EDGE", ToJson([classes |-> [j \in 1..Len(seq') |-> seq'[j].c]])>>))
Spec == Init /\ [][Next]_seq

Out == L!Load(seq)
cs == L!Cs(seq)
TheOut == CHOOSE o \in Out : TRUE

Deterministic == Cardinality(Out) = 1          \* no DontCare letter in the model
Equivalence == (TheOut.st = "ok") <=> L!WellBracketed(cs)
FirstError == TheOut.st = "err" =>
                LET x == L!ExpectedError(cs) IN TheOut.e = x.e /\ TheOut.at = x.at
Post == TheOut.st = "ok" => L!PostOK(TheOut.m)

\* C01 at the design level ---------------------------------------------------
ToSet(s) == { s[j] : j \in 1..Len(s) }
\* exclusions of C01: Line in a function but outside a block; more than one memory model
Excluded == \/ \E j \in 1..Len(cs) : cs[j] = "Line" /\ L!DepthF(cs, j - 1) = 1 /\ L!DepthB(cs, j - 1) = 0
            \/ L!Count(cs, "MemModel", Len(cs)) > 1
IsSubSeqOrder(a, b) == \* the elements of a occur in b in the same relative order
  \A x, y \in 1..Len(a) : x < y =>
     \E p, q \in 1..Len(b) : p < q /\ b[p] = a[x] /\ b[q] = a[y]
Preserve == (TheOut.st = "ok" /\ ~Excluded) =>
  LET out == L!AllInsts(TheOut.m) IN
  /\ Len(out) = Len(seq) /\ ToSet(out) = ToSet(seq)                      \* a permutation: none dropped / duplicated / invented
  /\ L!Load(out) = {[st |-> "ok", m |-> TheOut.m]}                     \* loading the output again gives an equal module
  \* relative order preserved inside every section, function and block
  /\ \A sec \in {"capabilities", "types_global_values", "memory_model"} : IsSubSeqOrder(TheOut.m[sec], seq)
  \* (inside a function: the parameter list and the block list each keep their order; a parameter
  \*  written after a label is grouped with the parameters)
  /\ \A f \in 1..Len(TheOut.m.functions) :
        LET fn == TheOut.m.functions[f] IN
        /\ IsSubSeqOrder(fn.def \o fn.params \o fn.end, seq)
        /\ IsSubSeqOrder(fn.def \o L!BlocksInsts(fn.blocks, 1) \o fn.end, seq)
\* the layout-ordered inputs: module-level instructions first (in section order), then functions
\* containing no module-level instruction
SectionRank(c) == CASE c = "Cap" -> 1 [] c = "MemModel" -> 4 [] c \in {"TypeConst", "VarOrUndef", "Line"} -> 11 [] OTHER -> 12
LayoutOrdered ==
  \A j \in 1..Len(cs) :
     /\ (L!DepthF(cs, j - 1) = 1 => cs[j] \notin L!ModuleLevel)
     /\ (cs[j] = "Param" => \A x \in 1..(j - 1) : cs[x] = "Label" => \E y \in (x + 1)..(j - 1) : cs[y] = "FnEnd")
     /\ (L!DepthF(cs, j - 1) = 0 /\ cs[j] # "Fn" =>
           /\ \A x \in 1..(j - 1) : cs[x] # "FnEnd"
           /\ \A x \in 1..(j - 1) : SectionRank(cs[x]) <= SectionRank(cs[j]))
Identity == (TheOut.st = "ok" /\ ~Excluded /\ LayoutOrdered) => L!AllInsts(TheOut.m) = seq
=============================================================================
