SPECIFICATION Spec
CONSTANTS
  Letters = {"Fn", "FnEnd", "Param", "Label", "Term", "BlockInst", "VarOrUndef", "Line", "Cap", "TypeConst", "MemModel"}
  MaxLen = 4
  Emit = TRUE
INVARIANT Deterministic
INVARIANT Equivalence
INVARIANT FirstError
INVARIANT Post
INVARIANT Preserve
INVARIANT Identity
CHECK_DEADLOCK FALSE
