----------------------------- MODULE MC_Parser -----------------------------
(***************************************************************************)
(* Bounded equivalence of the OPERATIONAL grammar of Parser.tla (header,   *)
(* framing, quantifier loop, enumerant / mask parameters, strings) with a  *)
(* DECLARATIVE definition of the SPIR-V binary language (C03, C02):        *)
(*   a stream is in the language iff it is a concatenation of encodings of *)
(*   conforming instructions; an instruction conforms iff its operand      *)
(*   words are derivable from its opcode's logical operands (required ones *)
(*   present, optional ones as a trailing run, a variadic one last, every  *)
(*   enumerant / mask value declared and followed by its parameters,       *)
(*   strings NUL-terminated valid UTF-8) and its word count is the number  *)
(*   of words.                                                             *)
(* The model enumerates EVERY word stream of up to MaxLen words over a     *)
(* small alphabet of real first words and operand words (real opcodes and  *)
(* enumerants from GrammarData.json, so each stream is a real binary).     *)
(* Invariants: Accepted <=> InLanguage; the delivered instructions are     *)
(* exactly the conforming prefix and no conforming instruction starts at   *)
(* the reported fault; re-encoding the delivered instructions gives the    *)
(* words back (C02 at the design level).  Every stream is emitted and      *)
(* replayed on the real parser (validated by ParserTrace).                 *)
(***************************************************************************)
EXTENDS Integers, Sequences, FiniteSets, TLC, Json, Parser, Assembler

CONSTANTS MaxLen, Emit

\* opcodes of the model: one per signature shape
\*   Nop(0): none; Name(5): id, string; Capability(17): value enum; Store(62): id, id, optional
\*   parameterised mask; Decorate(71): id, parameterised value enum; CompositeExtract(81):
\*   result type, result id, id, variadic literals; CopyMemory(63): id, id, TWO optional parameterised masks
\*   (the parameters of the first mask stand before the second mask)
Ops == {0, 5, 17, 62, 63, 71, 81}
FirstWords == {<<1, 0>>, <<3, 5>>, <<4, 5>>, <<2, 17>>, <<3, 62>>, <<4, 62>>, <<5, 62>>, <<3, 71>>, <<4, 71>>, <<4, 81>>, <<5, 81>>,
               <<3, 63>>, <<4, 63>>, <<5, 63>>,
               <<1, 9>>}                                    \* (1, 9): an unknown opcode
OperandWords == {<<0, 0>>,        \* id 0 / literal 0 / Matrix / RelaxedPrecision / empty mask / "" / word count 0
                 <<0, 1>>,        \* Shader / SpecId (literal parameter) / Volatile
                 <<0, 2>>,        \* Aligned (literal parameter) / Block
                 <<0, 11>>,       \* Decoration BuiltIn (enum parameter)
                 <<0, 9999>>,     \* not an enumerant, not a mask
                 <<0, 97>>,       \* "a"
                 <<24929, 24929>>,\* "aaaa" (no terminator)
                 <<0, 50017>>}    \* "a\xC3" : not UTF-8
Alpha == FirstWords \cup OperandWords

Header == <<MagicWord, <<1, 0>>, <<0, 0>>, <<0, 100>>, <<0, 0>>>>
VARIABLES ws, enc      \* enc: the (constant) set of conforming encodings, computed once in Init
Next == /\ Len(ws) < MaxLen
        /\ \E w \in Alpha : ws' = Append(ws, w)
        /\ (Emit => PrintT(<<"EDGE", ToJson([words |-> Header \o ws'])>>))
        /\ UNCHANGED enc
Stream == Header \o ws


---------------------------------------------------------------------------
(* the declarative side *)
SeqsUpTo(n) == UNION { [1..m -> Alpha] : m \in 0..n }

\* word sequences (length <= n) that are exactly one literal string
IsString(s) ==
  /\ Len(s) >= 1
  /\ LET bs == FlattenBytes(s)  nul == FirstNulFrom(bs, 1, Len(bs)) IN
       /\ nul # 0 /\ nul > 4 * (Len(s) - 1)            \* the first NUL lies in the last word
       /\ ValidUtf8(SubSeq(bs, 1, nul - 1))
StringSeqs(n) == { s \in SeqsUpTo(n) : IsString(s) }

RECURSIVE OperandSeqs(_, _), ListSeqs(_, _, _), StarSeqs(_, _)
\* exactly one concrete operand of kind k (with its parameters), at most n words
OperandSeqs(k, n) ==
  IF n <= 0 THEN {}
  ELSE IF k = "LiteralString" THEN StringSeqs(n)
  ELSE IF Cat(k) \in {"Id", "Literal"} THEN { <<w>> : w \in Alpha }
  ELSE IF Cat(k) = "ValueEnum"
       THEN UNION { { <<w>> \o p : p \in ListSeqs(EnumParams(k, w), 1, n - 1) } : w \in { w \in Alpha : IsDeclaredValue(k, w) } }
  ELSE IF Cat(k) = "BitEnum"
       THEN UNION { { <<w>> \o p : p \in ListSeqs(MaskParams(k, w), 1, n - 1) } : w \in { w \in Alpha : IsDeclaredMask(k, w) } }
  ELSE {}
\* the parameters ps[j..], each as often as its quantifier says, at most n words in total
ListSeqs(ps, j, n) ==
  IF j > Len(ps) THEN { <<>> }
  ELSE LET once == IF ps[j].q = "ZeroOrMore" THEN StarSeqs(ps[j].k, n)
                   ELSE IF ps[j].q = "ZeroOrOne" THEN { <<>> } \cup OperandSeqs(ps[j].k, n)
                   ELSE OperandSeqs(ps[j].k, n) IN
       UNION { { a \o b : b \in ListSeqs(ps, j + 1, n - Len(a)) } : a \in once }

\* repetitions of kind k, at most n words
StarSeqs(k, n) == { <<>> } \cup UNION { { a \o b : b \in StarSeqs(k, n - Len(a)) } : a \in OperandSeqs(k, n) }

\* operand words derivable from the logical operands sig[i..]: required present, optional ones only
\* as a trailing run, a variadic one last
RECURSIVE SigSeqs(_, _, _)
SigSeqs(sig, i, n) ==
  IF i > Len(sig) THEN { <<>> }
  ELSE IF sig[i].q = "One"
       THEN UNION { { a \o b : b \in SigSeqs(sig, i + 1, n - Len(a)) } : a \in OperandSeqs(sig[i].k, n) }
  ELSE IF sig[i].q = "ZeroOrOne"
       THEN { <<>> } \cup UNION { { a \o b : b \in SigSeqs(sig, i + 1, n - Len(a)) } : a \in OperandSeqs(sig[i].k, n) }
  ELSE StarSeqs(sig[i].k, n)

\* result type and result id are plain id words
SigOf(op) == [j \in 1..Len(Inst(op).ops) |->
                IF Inst(op).ops[j].k \in {"IdResultType", "IdResult"} THEN [k |-> "IdRef", q |-> "One"] ELSE Inst(op).ops[j]]

\* encodings of conforming instructions: first word = (number of words, opcode)
Encodings == UNION { { <<FirstWord(Len(b) + 1, op)>> \o b : b \in SigSeqs(SigOf(op), 1, MaxLen - 1) } : op \in Ops }

Init == ws = <<>> /\ enc = Encodings
Spec == Init /\ [][Next]_<<ws, enc>>
view == ws

RECURSIVE InLang(_)
InLang(s) == s = <<>> \/ \E n \in 1..Len(s) : SubSeq(s, 1, n) \in enc /\ InLang(SubSeq(s, n + 1, Len(s)))

---------------------------------------------------------------------------
R == Parse(Stream)
IsPrefixOf(a, b) == Len(a) <= Len(b) /\ SubSeq(b, 1, Len(a)) = a

\* "A binary is accepted iff ... every following instruction ... has operand words that match the opcode's grammar exactly"
Equivalence == (R.hdr = "ok" /\ R.fault = <<>>) <=> InLang(ws)
\* "The consumer is handed ... every instruction preceding the first malformed one, in stream order, exactly once each"
DeliveredPrefix ==
  LET d == EncodeInsts(R.insts, 1) IN
  \* C02: re-encoding gives the words back -- up to the bytes after a string's NUL terminator,
  \* which the encoder zeroes: same length, and parsing the re-encoding gives the same instructions
  /\ Len(d) <= Len(ws) /\ InLang(SubSeq(ws, 1, Len(d))) /\ Parse(Header \o d).insts = R.insts
  /\ LET pre == Parse(Header \o SubSeq(ws, 1, Len(d))) IN pre.insts = R.insts /\ pre.fault = <<>>
  /\ (R.fault # <<>> => ~\E n \in 1..(Len(ws) - Len(d)) : SubSeq(ws, Len(d) + 1, Len(d) + n) \in enc)
  /\ (R.fault # <<>> => R.fault[1].index = Len(R.insts) + 1 /\ R.fault[1].start = 4 * (5 + Len(d)))
  /\ (R.fault = <<>> => Len(d) = Len(ws))
\* each delivered instruction has the result-type / result-id presence its grammar entry dictates
Presence == \A j \in 1..Len(R.insts) :
  LET g == Inst(R.insts[j].op).ops IN
  /\ (R.insts[j].rt # <<>>) = (Len(g) >= 1 /\ g[1].k = "IdResultType")
  /\ (R.insts[j].rid # <<>>) = (\E x \in 1..Len(g) : g[x].k = "IdResult")
=============================================================================
