SPECIFICATION Spec
CONSTANTS
  MaxLen = 3
  Emit = TRUE
INVARIANT Equivalence
INVARIANT DeliveredPrefix
INVARIANT Presence
VIEW view
CHECK_DEADLOCK FALSE
