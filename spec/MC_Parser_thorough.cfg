SPECIFICATION Spec
CONSTANTS
  MaxLen = 4
  Emit = TRUE
INVARIANT Equivalence
INVARIANT DeliveredPrefix
INVARIANT Presence
VIEW view
CHECK_DEADLOCK FALSE
