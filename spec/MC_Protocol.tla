---------------------------- MODULE MC_Protocol ----------------------------
(***************************************************************************)
(* The consumer protocol of rspirv::binary::Parser (property C14) as a     *)
(* state machine structured like Parser::parse: initialize, parse header,  *)
(* consume header, then per instruction parse / consume, then finalize.    *)
(* The binary is abstracted to N well-formed instructions and an optional  *)
(* fault (short header, wrong magic, swapped magic, or a malformed         *)
(* instruction at position F); the consumer answers each callback with     *)
(* Continue, Stop or Error, nondeterministically.                          *)
(* TLC checks the C14 sentences as invariants and emits every complete     *)
(* behaviour (binary shape + answer vector); the harness builds a concrete *)
(* binary and scripted consumer for each, and ParserTrace validates the    *)
(* real parser's callback log and result against Parser!Run.               *)
(***************************************************************************)
EXTENDS Integers, Sequences, FiniteSets, TLC, Json

CONSTANTS MaxInsts, Emit

Faults == {"none", "short-header", "bad-magic", "swapped-magic", "malformed"}
Answers == {"C", "S", "E"}

VARIABLES n,        \* number of well-formed instructions before the fault / end
          fault,    \* the fault class; "malformed" = instruction n+1 is malformed
          pc,       \* control state of the parser
          k,        \* instructions delivered so far
          log,      \* callbacks made so far (names)
          answers,  \* the consumer's answers so far
          result    \* "none" while running, then the parse result
vars == <<n, fault, pc, k, log, answers, result>>

Init == /\ n \in 0..MaxInsts /\ fault \in Faults
        /\ pc = "initialize" /\ k = 0 /\ log = <<>> /\ answers = <<>> /\ result = "none"

\* a callback: append to the log, take an answer, continue / stop / error
Callback(name, nextpc) ==
  \E a \in Answers :
    /\ log' = Append(log, name) /\ answers' = Append(answers, a)
    /\ IF a = "C" THEN pc' = nextpc /\ result' = result
       ELSE pc' = "done" /\ result' = (IF a = "S" THEN "stop-requested" ELSE "consumer-error")

Initialize == pc = "initialize" /\ Callback("initialize", "parse-header") /\ UNCHANGED <<n, fault, k>>
ParseHeader == /\ pc = "parse-header"
               /\ IF fault \in {"short-header", "bad-magic", "swapped-magic"}
                  THEN pc' = "done" /\ result' = fault
                  ELSE pc' = "consume-header" /\ result' = result
               /\ UNCHANGED <<n, fault, k, log, answers>>
ConsumeHeader == pc = "consume-header" /\ Callback("header", "parse-inst") /\ UNCHANGED <<n, fault, k>>
ParseInst == /\ pc = "parse-inst"
             /\ IF k < n THEN pc' = "consume-inst" /\ result' = result
                ELSE IF fault = "malformed" THEN pc' = "done" /\ result' = "parse-error"
                ELSE pc' = "finalize" /\ result' = result
             /\ UNCHANGED <<n, fault, k, log, answers>>
ConsumeInst == pc = "consume-inst" /\ Callback("inst", "parse-inst") /\ k' = k + 1 /\ UNCHANGED <<n, fault>>
Finalize == /\ pc = "finalize"
            /\ \E a \in Answers :
                 /\ log' = Append(log, "finalize") /\ answers' = Append(answers, a)
                 /\ pc' = "done"
                 /\ result' = (IF a = "C" THEN "complete" ELSE IF a = "S" THEN "stop-requested" ELSE "consumer-error")
            /\ UNCHANGED <<n, fault, k>>
Finished == /\ pc = "done" /\ pc' = "emitted"
            /\ (Emit => PrintT(<<"EDGE", ToJson([n |-> n, fault |-> fault, answers |-> answers])>>))
            /\ UNCHANGED <<n, fault, k, log, answers, result>>
Next == Initialize \/ ParseHeader \/ ConsumeHeader \/ ParseInst \/ ConsumeInst \/ Finalize \/ Finished
Spec == Init /\ [][Next]_vars

---------------------------------------------------------------------------
Count(name) == Cardinality({i \in 1..Len(log) : log[i] = name})
\* "invoked in the order initialize, header, then one call per instruction in stream order,
\*  then finalize, each at most once per event"
Order == /\ Count("initialize") <= 1 /\ Count("header") <= 1 /\ Count("finalize") <= 1
         /\ Count("inst") = k /\ k <= n
         /\ \A i \in 1..Len(log) :
              /\ (log[i] = "initialize" => i = 1)
              /\ (log[i] = "header" => i = 2)
              /\ (log[i] = "inst" => i >= 3)
              /\ (log[i] = "finalize" => i = Len(log) /\ i = n + 3)
\* "finalize only if the whole binary was parsed without error"
FinalizeOnlyAtEnd == Count("finalize") = 1 => (fault = "none" /\ k = n)
\* "As soon as a callback answers stop or error, parsing ends at once ... no further callback"
StopsAtOnce == \A i \in 1..Len(answers) : answers[i] # "C" => i = Len(answers) /\ Len(log) = i /\ pc \in {"done", "emitted"}
ResultMatchesAnswer ==
  (pc \in {"done", "emitted"} /\ Len(answers) > 0 /\ answers[Len(answers)] = "S" => result = "stop-requested")
  /\ (pc \in {"done", "emitted"} /\ Len(answers) > 0 /\ answers[Len(answers)] = "E" => result = "consumer-error")
\* "a parse error likewise ends the parse without calling finalize"
ErrorNoFinalize == result \in {"parse-error", "short-header", "bad-magic", "swapped-magic"} => Count("finalize") = 0
\* the loader corollary: a successful parse has seen finalize answer Continue
CompleteMeansFinalized == result = "complete" => (Count("finalize") = 1 /\ \A i \in 1..Len(answers) : answers[i] = "C")
=============================================================================
