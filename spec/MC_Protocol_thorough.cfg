SPECIFICATION Spec
CONSTANTS
  MaxInsts = 4
  Emit = TRUE
INVARIANT Order
INVARIANT FinalizeOnlyAtEnd
INVARIANT StopsAtOnce
INVARIANT ResultMatchesAnswer
INVARIANT ErrorNoFinalize
INVARIANT CompleteMeansFinalized
CHECK_DEADLOCK FALSE
