---------------------------- MODULE MC_Storage ----------------------------
(* Bounded model of Storage.tla: every sequence of <= MaxOps operations over Values.
   Invariants = the sentences of C19; every edge is emitted for replay on Storage<f64> / Storage<String>. *)
EXTENDS Integers, Sequences, FiniteSets, TLC, Json, Storage
CONSTANTS Mode, MaxOps, Emit
V(k, t, md) == [k |-> k, t |-> t, m |-> md]
\* f64: +0.0 / -0.0 (equal, distinguishable), 1.0, NaN;  keytag: equal iff same key and different tag;
\* near: numbers equal iff they differ by at most 1 (not transitive)
Values == IF Mode = "f64" THEN {V("zero", 0, "std"), V("zero", 1, "std"), V("one", 0, "std"), V("nan", 0, "nan")}
          ELSE IF Mode = "near" THEN {V("n", 10, "near"), V("n", 11, "near"), V("n", 12, "near")} \cup (IF MaxOps >= 6 THEN {V("n", 14, "near")} ELSE {})
          ELSE {V("k1", 4, "difftag"), V("k1", 5, "difftag"), V("k2", 4, "difftag")}
VARIABLES data, toks, appended, hist     \* toks: tokens handed out; appended: tokens returned by append
vars == <<data, toks, appended, hist>>
Init == data = <<>> /\ toks = <<>> /\ appended = <<>> /\ hist = <<>>
Do(op, v) == /\ Len(hist) < MaxOps
             /\ LET r == Apply(data, op, v) IN
                /\ data' = r.data /\ toks' = Append(toks, r.tok)
                /\ appended' = IF op = "append" THEN Append(appended, r.tok) ELSE appended
             /\ hist' = Append(hist, <<op, v>>)
             /\ (Emit => PrintT(<<"EDGE", ToJson([ops |-> hist'])>>))
Next == \E op \in {"append", "fetch_or_append"}, v \in Values : Do(op, v)
Spec == Init /\ [][Next]_vars
\* "each append returns a token not returned before"
AppendFresh == \A i, j \in 1..Len(appended) : i # j => appended[i] # appended[j]
\* "Token indices are dense in insertion order"
Dense == \A t \in 1..Len(toks) : toks[t] >= 0 /\ toks[t] < Len(data)
\* "lookups through earlier tokens keep yielding their values"
Stable == [][\A i \in 1..Len(data) : data'[i] = data[i]]_vars
\* "fetch-or-append returns the token of the first stored value equal to the argument when one exists"
FetchFirst == [][ (hist'[Len(hist')][1] = "fetch_or_append") =>
                    LET v == hist'[Len(hist')][2]  t == toks'[Len(toks')] IN
                    IF \E i \in 1..Len(data) : Eq(data[i], v)
                    THEN /\ data' = data /\ Eq(data[t + 1], v) /\ \A i \in 1..t : ~Eq(data[i], v)
                    ELSE /\ t = Len(data) /\ data' = Append(data, v) ]_vars
=============================================================================
