SPECIFICATION Spec
CONSTANT N = 12
INVARIANT RefinesHere
CHECK_DEADLOCK FALSE
