--------------------------- MODULE MC_StorageBulk ---------------------------
(* The counter abstraction of StorageBulk is Storage!Apply / Storage!Lookup on BulkData(n), for every n <= N. *)
EXTENDS StorageBulk, TLC
CONSTANT N
VARIABLE n
Init == n = 0
Next == n < N /\ n' = n + 1
Spec == Init /\ [][Next]_n
RefinesHere == Refines(n)
=============================================================================
