SPECIFICATION Spec
CONSTANTS
  Values = {"a", "b", "nan"}
  MaxOps = 5
  Emit = TRUE
INVARIANT AppendFresh
INVARIANT Dense
PROPERTY Stable
PROPERTY FetchFirst
CHECK_DEADLOCK FALSE
