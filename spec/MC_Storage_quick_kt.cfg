SPECIFICATION Spec
CONSTANTS
  Mode = "keytag"
  MaxOps = 5
  Emit = TRUE
INVARIANT AppendFresh
INVARIANT Dense
PROPERTY Stable
PROPERTY FetchFirst
CHECK_DEADLOCK FALSE
