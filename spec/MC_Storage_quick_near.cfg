SPECIFICATION Spec
CONSTANTS
  Mode = "near"
  MaxOps = 5
  Emit = TRUE
INVARIANT AppendFresh
INVARIANT Dense
PROPERTY Stable
PROPERTY FetchFirst
CHECK_DEADLOCK FALSE
