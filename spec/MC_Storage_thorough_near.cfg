SPECIFICATION Spec
CONSTANTS
  Mode = "near"
  MaxOps = 6
  Emit = TRUE
INVARIANT AppendFresh
INVARIANT Dense
PROPERTY Stable
PROPERTY FetchFirst
CHECK_DEADLOCK FALSE
