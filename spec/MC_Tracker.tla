---------------------------- MODULE MC_Tracker ----------------------------
(***************************************************************************)
(* Bounded model of the type tracker part of Parser.tla (property C10):    *)
(* all histories of integer / float type declarations (any width), value   *)
(* definitions that propagate a type, and literal consumers (OpConstant,   *)
(* OpSpecConstant, OpSwitch) over a few ids, each id defined once.         *)
(* Checks that the literal width is a function of the declarations seen    *)
(* so far, and emits every (state, instruction) edge with a shortest       *)
(* history; the harness turns each history into a binary whose literals    *)
(* have the number of words the SPECIFICATION prescribes (field n), plus   *)
(* variants with one literal word more / fewer, and ParserTrace validates  *)
(* what the real parser does with them.                                    *)
(***************************************************************************)
EXTENDS Integers, Sequences, FiniteSets, TLC, Json, Parser

CONSTANTS Ids, Widths, Emit

VARIABLES types,    \* the tracker: id -> [c, w]
          defined,  \* ids already given a definition
          hist
vars == <<types, defined, hist>>
view == <<types, defined>>

W(n) == <<0, n>>
TInt(id, w)   == MkInst(OpTypeInt, <<>>, <<W(id)>>, <<Op1("LiteralBit32", W(w)), Op1("LiteralBit32", W(0))>>)
TFloat(id, w) == MkInst(OpTypeFloat, <<>>, <<W(id)>>, <<Op1("LiteralBit32", W(w))>>)
Undef(rt, rid) == MkInst(1, <<W(rt)>>, <<W(rid)>>, <<>>)

Init == types = NoTypes /\ defined = {} /\ hist = <<>>

Record(step) == /\ hist' = Append(hist, step)
                /\ (Emit => PrintT(<<"EDGE", ToJson([steps |-> hist'])>>))

DeclInt == \E id \in Ids \ defined, w \in Widths :
             /\ types' = Track(types, TInt(id, w)) /\ defined' = defined \cup {id}
             /\ Record([a |-> "TInt", id |-> id, w |-> w])
DeclFloat == \E id \in Ids \ defined, w \in Widths :
             /\ types' = Track(types, TFloat(id, w)) /\ defined' = defined \cup {id}
             /\ Record([a |-> "TFloat", id |-> id, w |-> w])
Define == \E rid \in Ids \ defined : \E rt \in Ids \ {rid} :
             /\ types' = Track(types, Undef(rt, rid)) /\ defined' = defined \cup {rid}
             /\ Record([a |-> "Def", rid |-> rid, rt |-> rt])
\* consumers do not change the tracker (their own result id is outside Ids)
Consume == \E a \in {"Const", "SpecConst", "Switch"}, id \in Ids :
             /\ UNCHANGED <<types, defined>>
             /\ Record([a |-> a, id |-> id, n |-> LiteralWords(types, W(id))])
Next == DeclInt \/ DeclFloat \/ Define \/ Consume
Spec == Init /\ [][Next]_vars

\* C10 at the design level ---------------------------------------------------
\* the width is decided by the declarations alone: supported widths 1 or 2 words,
\* 0 = unsupported, 1 when nothing is known about the id
WidthRule == \A id \in Ids :
  LET n == LiteralWords(types, W(id)) IN
  IF ~Known(types, W(id)) THEN n = 1
  ELSE LET t == types[W(id)] IN
       /\ (t.c = "Int"   /\ t.w[2] \in {8, 16, 32}) => n = 1
       /\ (t.c = "Float" /\ t.w[2] \in {16, 32})    => n = 1
       /\ t.w[2] = 64 => n = 2
       /\ (t.w[2] \notin {8, 16, 32, 64}) => n = 0
       /\ (t.c = "Float" /\ t.w[2] = 8) => n = 0
\* only declared ids are tracked, and a tracked id keeps its type (ids are defined once)
OnlyDefined == \A k \in DOMAIN types : \E id \in defined : k = W(id)
Stable == [][\A k \in DOMAIN types : k \in DOMAIN types' /\ types'[k] = types[k]]_vars
=============================================================================
