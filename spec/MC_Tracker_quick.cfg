SPECIFICATION Spec
CONSTANTS
  Ids = {1, 2}
  Widths = {8, 32, 64, 128}
  Emit = TRUE
VIEW view
INVARIANT WidthRule
INVARIANT OnlyDefined
PROPERTY Stable
CHECK_DEADLOCK FALSE
