SPECIFICATION Spec
CONSTANTS
  Ids = {1, 2, 3}
  Widths = {7, 8, 16, 32, 64, 128}
  Emit = TRUE
VIEW view
INVARIANT WidthRule
INVARIANT OnlyDefined
PROPERTY Stable
CHECK_DEADLOCK FALSE
