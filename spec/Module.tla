------------------------------- MODULE Module -------------------------------
(***************************************************************************)
(* The data representation's module value (rspirv::dr::Module) and its     *)
(* traversals (C15), in the shape the harness projects it:                 *)
(*  [header, capabilities, extensions, ext_inst_imports, memory_model,     *)
(*   entry_points, execution_modes, debug_string_source, debug_names,      *)
(*   debug_module_processed, annotations, types_global_values, functions]  *)
(* optional parts are sequences of length 0 or 1; functions are            *)
(*  [def, params, blocks, end] with blocks [label, insts].                 *)
(***************************************************************************)
EXTENDS Integers, Sequences, FiniteSets, Assembler

EmptyModule == [header |-> <<>>, capabilities |-> <<>>, extensions |-> <<>>, ext_inst_imports |-> <<>>,
                memory_model |-> <<>>, entry_points |-> <<>>, execution_modes |-> <<>>,
                debug_string_source |-> <<>>, debug_names |-> <<>>, debug_module_processed |-> <<>>,
                annotations |-> <<>>, types_global_values |-> <<>>, functions |-> <<>>]
EmptyFunction == [def |-> <<>>, params |-> <<>>, blocks |-> <<>>, end |-> <<>>]
EmptyBlock == [label |-> <<>>, insts |-> <<>>]

\* logical-layout order of the module-level sections (SPIR-V 2.4)
GlobalInsts(m) == m.capabilities \o m.extensions \o m.ext_inst_imports \o m.memory_model \o m.entry_points
                  \o m.execution_modes \o m.debug_string_source \o m.debug_names \o m.debug_module_processed
                  \o m.annotations \o m.types_global_values

BlockInsts(b) == b.label \o b.insts
RECURSIVE BlocksInsts(_, _)
BlocksInsts(bs, j) == IF j > Len(bs) THEN <<>> ELSE BlockInsts(bs[j]) \o BlocksInsts(bs, j + 1)
FnInsts(f) == f.def \o f.params \o BlocksInsts(f.blocks, 1) \o f.end
RECURSIVE FnsInsts(_, _)
FnsInsts(fs, j) == IF j > Len(fs) THEN <<>> ELSE FnInsts(fs[j]) \o FnsInsts(fs, j + 1)
AllInsts(m) == GlobalInsts(m) \o FnsInsts(m.functions, 1)

HeaderWordsOf(m) == IF m.header = <<>> THEN <<>> ELSE EncodeHeader(m.header[1])
\* "Assembling a module is the concatenation of the header words and the assembly of each
\*  visited instruction."
AssembleModule(m) == HeaderWordsOf(m) \o EncodeInsts(AllInsts(m), 1)
=============================================================================
