---------------------------- MODULE ModuleTrace ----------------------------
(***************************************************************************)
(* Trace validation for the module traversals (property C15): the six      *)
(* traversals of a real dr::Module and its assemble() output against the   *)
(* operators of Module.tla.  code 1 = a traversal / the assembly differs,  *)
(* code 5 = panic.                                                         *)
(***************************************************************************)
EXTENDS Integers, Sequences, FiniteSets, TLC, Json, IOUtils, Module

Rec == ndJsonDeserialize(IOEnv.TRACE)
VARIABLES l, bad
vars == <<l, bad>>

IsPrefix(a, b) == Len(a) <= Len(b) /\ SubSeq(b, 1, Len(a)) = a
Bump(i, drt, drid, extra) ==
  [i EXCEPT !.rt = IF i.rt = <<>> THEN <<>> ELSE <<<<i.rt[1][1], i.rt[1][2] + drt>>>>,
            !.rid = IF i.rid = <<>> THEN <<>> ELSE <<<<i.rid[1][1], i.rid[1][2] + drid>>>>,
            !.ops = i.ops \o extra]
Five == <<[k |-> "IdRef", w |-> <<<<0, 5>>>>, s |-> <<>>]>>

OK(e) ==
  LET m == e.m
      all == AllInsts(m)
      glob == GlobalInsts(m)
      ng == Len(glob)
  IN
  \* "iterating over all instructions visits exactly the instructions that assembling the module emits, in the same order"
  /\ e.all = all
  /\ e.words = AssembleModule(m)
  /\ e.words = HeaderWordsOf(m) \o EncodeInsts(e.all, 1)
  \* "the global-instruction traversal is the prefix of it that precedes the first function"
  /\ e.global = glob /\ IsPrefix(e.global, e.all)
  /\ Len(e.all) = ng + Len(FnsInsts(m.functions, 1))
  \* "per-function traversal is the corresponding slice"
  /\ Len(e.fns) = Len(m.functions)
  /\ \A f \in 1..Len(m.functions) : e.fns[f] = FnInsts(m.functions[f])
  /\ e.all = e.global \o FnsInsts([f \in 1..Len(e.fns) |-> [def |-> <<>>, params |-> e.fns[f], blocks |-> <<>>, end |-> <<>>]], 1)
  \* "each mutable traversal visits the same sequence as its read-only counterpart"
  \*   (global_mut ran first and bumped result types by 1000; all_mut then bumped result ids by 2000;
  \*    fns_mut then appended an operand: the marks show each traversal reached the same objects)
  /\ e.global_mut = e.global
  /\ e.all_mut = [j \in 1..Len(all) |-> IF j <= ng THEN Bump(all[j], 1000, 0, <<>>) ELSE all[j]]
  /\ Len(e.fns_mut) = Len(e.fns)
  /\ \A f \in 1..Len(e.fns) : e.fns_mut[f] = [j \in 1..Len(e.fns[f]) |-> Bump(e.fns[f][j], 0, 2000, <<>>)]
  /\ e.after = [j \in 1..Len(all) |-> IF j <= ng THEN Bump(all[j], 1000, 2000, <<>>) ELSE Bump(all[j], 0, 2000, Five)]

Code(e) == IF e.st = "panic" THEN 5 ELSE IF OK(e) THEN 0 ELSE 1

Init == l = 1 /\ bad = <<>>
Next == /\ l <= Len(Rec)
        /\ LET c == Code(Rec[l]) IN bad' = IF c = 0 THEN bad ELSE (IF Len(bad) >= 5000 THEN bad ELSE Append(bad, <<l, c>>))
        /\ l' = l + 1
Spec == Init /\ [][Next]_vars
Done == l = Len(Rec) + 1
Report == Done => PrintT(<<"TRACE-RESULT", Len(Rec), bad>>)
=============================================================================
