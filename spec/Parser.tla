------------------------------- MODULE Parser -------------------------------
(***************************************************************************)
(* Specification of rspirv::binary::Parser (properties C03, C10, C14 and   *)
(* the parser half of C02; totality for C04).                              *)
(*                                                                         *)
(* The OPERATIONAL definition of the SPIR-V binary language, structured    *)
(* like the implementation: header, instruction framing (word count,       *)
(* opcode), the quantifier loop over the opcode's logical operands, one    *)
(* concrete operand at a time including enumerant / mask-bit parameters,   *)
(* context-dependent literals through the type tracker, OpSpecConstantOp,  *)
(* and the consumer protocol.  Grammar facts come from Grammar.tla         *)
(* (GrammarData.json).  Word streams are sequences of <<hi16, lo16>>.      *)
(*                                                                         *)
(* Faults are CLASSES; ErrAdmissible relates a class to the set of error   *)
(* values property C03 allows for it (the property names the kind of       *)
(* fault, not the enum variant, so each class admits a small set).         *)
(***************************************************************************)
EXTENDS Integers, Sequences, FiniteSets, TLC, Grammar

---------------------------------------------------------------------------
(* operands and instructions, in the shape the harness logs them *)
Op1(k, w)   == [k |-> k, w |-> <<w>>, s |-> <<>>]
OpStr(bs)   == [k |-> "LiteralString", w |-> <<>>, s |-> bs]
Op64(lo, hi) == [k |-> "LiteralBit64", w |-> <<lo, hi>>, s |-> <<>>]
MkInst(op, rt, rid, ops) == [op |-> op, rt |-> rt, rid |-> rid, ops |-> ops]

---------------------------------------------------------------------------
(* C10: the type tracker.  types : id (word) -> [c, w]; c \in {"Int","Float"},  *)
(* w the declared width as a word.                                         *)
OpTypeInt == 21   OpTypeFloat == 22   OpConstant == 43   OpSpecConstant == 50
OpSpecConstantOp == 52   OpSwitch == 251

NoTypes == << >>      \* the empty function
Known(types, id) == id \in DOMAIN types

Track(types, i) ==
  IF i.rid = <<>> THEN types
  ELSE LET rid == i.rid[1] IN
    IF i.op = OpTypeInt /\ Len(i.ops) >= 1 /\ i.ops[1].k = "LiteralBit32"
      THEN (rid :> [c |-> "Int", w |-> i.ops[1].w[1],
                    sg |-> IF Len(i.ops) >= 2 /\ i.ops[2].k = "LiteralBit32" THEN i.ops[2].w[1] = <<0, 1>> ELSE FALSE]) @@ types
    ELSE IF i.op = OpTypeFloat /\ Len(i.ops) >= 1 /\ i.ops[1].k = "LiteralBit32"
      THEN (rid :> [c |-> "Float", w |-> i.ops[1].w[1], sg |-> FALSE]) @@ types
    ELSE IF i.rt # <<>> /\ Known(types, i.rt[1])
      \* "as propagated from the defining instruction's result type"
      THEN (rid :> types[i.rt[1]]) @@ types
    ELSE types

\* number of words of a literal whose type id is tid: 1, 2, or 0 for "unsupported"
LiteralWords(types, tid) ==
  IF ~Known(types, tid) THEN 1                       \* "one word when the type is unknown"
  ELSE LET t == types[tid] IN
    IF t.c = "Int" THEN (IF t.w \in {<<0, 8>>, <<0, 16>>, <<0, 32>>} THEN 1 ELSE IF t.w = <<0, 64>> THEN 2 ELSE 0)
    ELSE (IF t.w \in {<<0, 16>>, <<0, 32>>} THEN 1 ELSE IF t.w = <<0, 64>> THEN 2 ELSE 0)

---------------------------------------------------------------------------
(* one instruction: I = [ws, declared] where ws are the operand words that *)
(* are really in the stream and declared = word count - 1 >= Len(ws).      *)
Fault(c, p, info) == [st |-> "fault", class |-> c, p |-> p, info |-> info, ops |-> <<>>]
Good(p, ops)      == [st |-> "ok", p |-> p, ops |-> ops]

Have(I, p) == p <= Len(I.ws)
\* class of "no word at p": the declared extent reaches past the stream ("truncated"),
\* or the instruction's own words are used up (the caller's class c)
NoWord(I, p, c) == IF p <= I.declared THEN Fault("truncated", p, <<>>) ELSE Fault(c, p, <<>>)

\* bytes of the words p..Len(ws)
RECURSIVE BytesFrom(_, _)
BytesFrom(ws, p) == IF p > Len(ws) THEN <<>> ELSE BytesOfWord(ws[p]) \o BytesFrom(ws, p + 1)

ParseString(I, p) ==
  LET bs  == BytesFrom(I.ws, p)
      nul == FirstNulFrom(bs, 1, Len(bs))
  IN IF nul = 0 THEN (IF Len(I.ws) < I.declared THEN Fault("truncated", p, <<>>) ELSE Fault("string-nonul", p, <<>>))
     ELSE LET str == SubSeq(bs, 1, nul - 1) IN
          IF ValidUtf8(str) THEN Good(p + StringWords(nul - 1), <<OpStr(str)>>)
          ELSE Fault("string-utf8", p, <<>>)

ParseLiteral(I, p, types, tid, c) ==
  LET n == LiteralWords(types, tid) IN
  \* (no word left AND a type of unsupported width: the instruction has both faults, see ErrAdmissible)
  IF ~Have(I, p) THEN [NoWord(I, p, c) EXCEPT !.info = IF n = 0 THEN <<"unsupported">> ELSE <<>>]
  ELSE IF n = 0 THEN Fault("type-unsupported", p, <<>>)
  ELSE IF n = 1 THEN Good(p + 1, <<Op1("LiteralBit32", I.ws[p])>>)
  ELSE IF Have(I, p + 1) THEN Good(p + 2, <<Op64(I.ws[p], I.ws[p + 1])>>)   \* low word first
  ELSE NoWord(I, p + 1, "inside")

\* kinds whose decoding depends on context; inside OpSpecConstantOp they have none
ContextKinds == {"LiteralContextDependentNumber", "PairLiteralIntegerIdRef", "LiteralSpecConstantOpInteger",
                 "IdResultType", "IdResult"}

RECURSIVE ParseKind(_, _, _, _, _), ParseParams(_, _, _, _, _, _), ParseSig(_, _, _, _, _, _)

\* parameters ps[j..] of an enumerant / mask value, each as often as ITS quantifier says (the grammar gives
\* Decoration BankBitsINTEL any number of literals; every other parameter occurs exactly once)
ParseParams(ps, j, I, p, acc, ctx) ==
  IF j > Len(ps) THEN Good(p, acc)
  ELSE IF ps[j].q # "One" /\ p > I.declared THEN ParseParams(ps, j + 1, I, p, acc, ctx)
  ELSE LET r == ParseKind(ps[j].k, I, p, ctx, "inside") IN
       IF r.st # "ok" THEN r
       ELSE ParseParams(ps, IF ps[j].q = "ZeroOrMore" THEN j ELSE j + 1, I, r.p, acc \o r.ops, ctx)

\* one concrete operand of kind k at p; c = fault class if the instruction has no word left
ParseKind(k, I, p, ctx, c) ==
  IF k = "LiteralString" THEN (IF Have(I, p) THEN ParseString(I, p) ELSE NoWord(I, p, c))
  ELSE IF k = "LiteralContextDependentNumber" THEN ParseLiteral(I, p, ctx.types, ctx.rt, c)
  ELSE IF ~Have(I, p) THEN NoWord(I, p, c)
  ELSE LET w == I.ws[p] IN
    IF k \in {"IdRef", "IdScope", "IdMemorySemantics", "LiteralExtInstInteger"} THEN Good(p + 1, <<Op1(k, w)>>)
    ELSE IF k \in {"LiteralInteger", "LiteralFloat"} THEN Good(p + 1, <<Op1("LiteralBit32", w)>>)
    ELSE IF k = "PairIdRefLiteralInteger"
      THEN (IF Have(I, p + 1) THEN Good(p + 2, <<Op1("IdRef", w), Op1("LiteralBit32", I.ws[p + 1])>>)
            ELSE NoWord(I, p + 1, "inside"))
    ELSE IF k = "PairIdRefIdRef"
      THEN (IF Have(I, p + 1) THEN Good(p + 2, <<Op1("IdRef", w), Op1("IdRef", I.ws[p + 1])>>)
            ELSE NoWord(I, p + 1, "inside"))
    ELSE IF k = "PairLiteralIntegerIdRef"
      THEN LET r == ParseLiteral(I, p, ctx.types, ctx.sel, c) IN
           IF r.st # "ok" THEN r
           ELSE IF Have(I, r.p) THEN Good(r.p + 1, r.ops \o <<Op1("IdRef", I.ws[r.p])>>)
           ELSE NoWord(I, r.p, "inside")
    ELSE IF k = "LiteralSpecConstantOpInteger"
      THEN \* the embedded opcode must be a declared opcode (a 16-bit number)
           IF ~(w[1] = 0 /\ IsOpcode(w[2])) THEN Fault("spec-op", p, <<>>)
           ELSE LET sig == SelectSeq(Inst(w[2]).ops, LAMBDA o : o.k \notin {"IdResultType", "IdResult"}) IN
                IF \E x \in 1..Len(sig) : sig[x].k \in ContextKinds THEN Fault("spec-op-ctx", p, <<>>)
                ELSE \* the embedded opcode's own operands, with its own quantifiers
                     ParseSig(sig, 1, I, p + 1, <<Op1("LiteralSpecConstantOpInteger", w)>>, ctx)
    ELSE IF Cat(k) = "ValueEnum"
      THEN (IF IsDeclaredValue(k, w) THEN ParseParams(EnumParams(k, w), 1, I, p + 1, <<Op1(k, w)>>, ctx)
            ELSE Fault("unknown", p, <<k, w>>))
    ELSE IF Cat(k) = "BitEnum"
      THEN (IF IsDeclaredMask(k, w) THEN ParseParams(MaskParams(k, w), 1, I, p + 1, <<Op1(k, w)>>, ctx)
            ELSE Fault("unknown", p, <<k, w>>))
    ELSE Fault("bad-grammar", p, <<k>>)

\* the quantifier loop over logical operands sig[i..] (no result type / result id in sig)
ParseSig(sig, i, I, p, acc, ctx) ==
  IF i > Len(sig) THEN Good(p, acc)
  ELSE IF p > I.declared
       THEN (IF sig[i].q = "One"
             THEN Fault("missing", p, IF sig[i].k = "LiteralContextDependentNumber" /\ LiteralWords(ctx.types, ctx.rt) = 0
                                      THEN <<"unsupported">> ELSE <<>>)
             ELSE Good(p, acc))
       ELSE LET ctx2 == IF sig[i].k = "PairLiteralIntegerIdRef" /\ Len(acc) >= 1 /\ acc[1].k = "IdRef"
                        THEN [ctx EXCEPT !.sel = acc[1].w[1]] ELSE ctx
                r == ParseKind(sig[i].k, I, p, ctx2, "missing")
            IN IF r.st # "ok" THEN r
               ELSE ParseSig(sig, IF sig[i].q = "ZeroOrMore" THEN i ELSE i + 1, I, r.p, acc \o r.ops, ctx)

\* a whole instruction whose first word is at stream position pos (1-based)
ParseInst(ws, pos, types) ==
  LET first == ws[pos]
      wc == WordCountOf(first)
      opc == OpcodeOf(first)
  IN
  \* (info: the opcode number when it is ALSO unknown - an instruction can have both faults)
  IF wc = 0 THEN [st |-> "fault", class |-> "wc-zero", wc |-> 0, info |-> IF IsOpcode(opc) THEN <<>> ELSE <<opc>>]
  ELSE IF ~IsOpcode(opc) THEN [st |-> "fault", class |-> "opcode-unknown", wc |-> wc, info |-> <<opc>>]
  ELSE
    LET g == Inst(opc).ops
        avail == Min2(wc - 1, Len(ws) - pos)
        I == [ws |-> SubSeq(ws, pos + 1, pos + avail), declared |-> wc - 1]
        hasRT == Len(g) >= 1 /\ g[1].k = "IdResultType"
        ridPos == IF hasRT THEN 2 ELSE 1
        hasRID == Len(g) >= ridPos /\ g[ridPos].k = "IdResult"
        \* result type and result id are required leading words
        rtP == 1
        ridP == IF hasRT THEN 2 ELSE 1
        p0 == 1 + (IF hasRT THEN 1 ELSE 0) + (IF hasRID THEN 1 ELSE 0)
        lead == (IF hasRT THEN 1 ELSE 0) + (IF hasRID THEN 1 ELSE 0)
        rest == SubSeq(g, lead + 1, Len(g))
    IN
    IF lead > Len(I.ws)
    THEN [st |-> "fault", class |-> (IF Len(I.ws) < I.declared THEN "truncated" ELSE "missing"), wc |-> wc, info |-> <<>>]
    ELSE
      LET rt  == IF hasRT THEN <<I.ws[rtP]>> ELSE <<>>
          rid == IF hasRID THEN <<I.ws[ridP]>> ELSE <<>>
          ctx == [types |-> types, rt |-> IF hasRT THEN I.ws[rtP] ELSE Zero, sel |-> Zero]
          r == ParseSig(rest, 1, I, p0, <<>>, ctx)
      IN IF r.st # "ok" THEN [st |-> "fault", class |-> r.class, wc |-> wc, info |-> r.info]
         ELSE IF r.p <= I.declared THEN [st |-> "fault", class |-> "surplus", wc |-> wc, info |-> <<>>]
         ELSE [st |-> "ok", inst |-> MkInst(opc, rt, rid, r.ops), wc |-> wc]

---------------------------------------------------------------------------
(* the whole stream *)
HeaderWords == 5
Generator == <<15, 0>>          \* rspirv's registered generator id (tool 15, version 0)

VersionOf(w) == <<w[1] % 256, w[2] \div 256>>       \* <<major, minor>>
HeaderOf(ws) == [version |-> VersionOf(ws[2]), bound |-> ws[4]]

\* instructions from stream position pos on; acc = delivered so far
RECURSIVE ParseInsts(_, _, _, _, _)
ParseInsts(ws, pos, idx, types, acc) ==
  IF pos > Len(ws) THEN [insts |-> acc, fault |-> <<>>]
  ELSE LET r == ParseInst(ws, pos, types) IN
       IF r.st = "ok"
       THEN ParseInsts(ws, pos + r.wc, idx + 1, Track(types, r.inst), Append(acc, r.inst))
       ELSE [insts |-> acc,
             fault |-> <<[class |-> r.class, index |-> idx, start |-> 4 * (pos - 1), wc |-> r.wc, info |-> r.info,
                          cut |-> pos + r.wc - 1 > Len(ws)]>>]

\* full outcome, ignoring the consumer: header verdict, delivered instructions, first fault
Parse(ws) ==
  \* (a header that is too short may in addition start with a wrong / byte-swapped magic number: both are faults of it)
  IF Len(ws) < HeaderWords
  THEN [hdr |-> IF Len(ws) >= 1 /\ ws[1] = SwappedMagic THEN "incomplete-endianness"
                ELSE IF Len(ws) >= 1 /\ ws[1] # MagicWord THEN "incomplete-incorrect" ELSE "incomplete",
        insts |-> <<>>, fault |-> <<>>]
  ELSE IF ws[1] = SwappedMagic THEN [hdr |-> "endianness", insts |-> <<>>, fault |-> <<>>]
  ELSE IF ws[1] # MagicWord THEN [hdr |-> "incorrect", insts |-> <<>>, fault |-> <<>>]
  ELSE LET r == ParseInsts(ws, HeaderWords + 1, 1, NoTypes, <<>>) IN
       [hdr |-> "ok", insts |-> r.insts, fault |-> r.fault]

Accepted(ws) == LET r == Parse(ws) IN r.hdr = "ok" /\ r.fault = <<>>

---------------------------------------------------------------------------
(* C03: which error values name a fault class.  e is the logged error      *)
(*   <<"Err", kind, off, index, ...>> ; for OperandError / HeaderIncomplete *)
(*   e = <<"Err", kind, decodeKind, off, (word, enumKind)>>.                *)
StreamEnd == {"StreamExpected", "LimitReached"}
\* the error kinds that name fault class f.class (see ErrAdmissible)
ClassAdmits(f, e, kind, truncOK) ==
  CASE f.class = "wc-zero"        -> kind = "WordCountZero"
       [] f.class = "opcode-unknown" -> kind = "OpcodeUnknown" /\ e[5] = f.info[1]
       \* a required operand is missing: "expected more operands", or the limit / stream-end error
       \* of the decoder request that looked for it (the repository's own test expects the latter
       \* for an operand missing inside OpSpecConstantOp)
       [] f.class = "missing"        -> truncOK
       [] f.class = "truncated"      -> truncOK
       [] f.class = "inside"         -> truncOK
       [] f.class = "surplus"        -> kind = "OperandExceeded" \/ (f.cut /\ truncOK)
       [] f.class = "unknown"        -> kind = "OperandError" /\ e[3] = "Unknown" /\ e[5] = f.info[2] /\ e[6] = f.info[1]
       [] f.class = "string-utf8"    -> kind = "OperandError" /\ e[3] = "DecodeStringFailed"
       [] f.class = "string-nonul"   -> kind = "OperandError" /\ e[3] \in StreamEnd \cup {"DecodeStringFailed"}
       [] f.class = "type-unsupported" -> kind = "TypeUnsupported"
       [] f.class = "spec-op"        -> kind = "SpecConstantOpIntegerIncorrect"
       [] f.class = "spec-op-ctx"    -> kind \in {"SpecConstantOpIntegerIncorrect", "OperandExpected", "OperandExceeded",
                                                   "OperandError", "TypeUnsupported"}
       [] OTHER -> FALSE

ErrAdmissible(f, e) ==
  LET kind == e[2]
      located == kind \in {"WordCountZero", "OpcodeUnknown", "OperandExpected", "OperandExceeded",
                           "TypeUnsupported", "SpecConstantOpIntegerIncorrect"}
      \* "the instruction number and byte offset it carries are the 1-based number of the first
      \*  malformed instruction and an offset inside that instruction's declared extent"
      locOK == located => (e[4] = f.index /\ e[3] >= f.start /\ e[3] <= f.start + 4 * f.wc)
      decOK == kind = "OperandError" => (e[4] >= f.start /\ e[4] <= f.start + 4 * f.wc)
      truncOK == \/ kind = "OperandExpected"
                 \/ kind = "OperandError" /\ e[3] \in StreamEnd
  IN
  /\ locOK /\ decOK
  \* The property names fault KINDS and asks that the error name "the kind of fault" of the first malformed
  \* instruction; it does not rank several faults of ONE instruction.  An instruction that also reaches past the
  \* end of the stream may be reported as cut short; one with a zero word count AND an unknown opcode as either.
  /\ \/ kind = "Other"                            \* an error variant the pinned tree does not have: not judged by name
     \/ f.cut /\ truncOK
     \/ f.class = "wc-zero" /\ f.info # <<>> /\ kind = "OpcodeUnknown" /\ e[5] = f.info[1]
     \/ f.class \in {"missing", "truncated", "inside"} /\ f.info = <<"unsupported">> /\ kind = "TypeUnsupported"
     \/ ClassAdmits(f, e, kind, truncOK)

HeaderErrAdmissible(h, e) ==
  CASE h = "incomplete" -> e[2] = "HeaderIncomplete"
    [] h = "incomplete-incorrect"  -> e[2] \in {"HeaderIncomplete", "HeaderIncorrect"}
    [] h = "incomplete-endianness" -> e[2] \in {"HeaderIncomplete", "EndiannessUnsupported"}
    [] h = "endianness" -> e[2] = "EndiannessUnsupported"
    [] h = "incorrect"  -> e[2] = "HeaderIncorrect"
    [] OTHER -> FALSE

---------------------------------------------------------------------------
(* C14: the consumer protocol.  script[j] is the consumer's answer to the  *)
(* j-th callback: "C" continue, "S" stop, "E" error (the harness's token   *)
(* for position j is j itself).  Missing answers mean continue.            *)
Answer(script, j) == IF j <= Len(script) THEN script[j] ELSE "C"

\* the callbacks a full parse would make if every answer were Continue
Callbacks(r) ==
  <<[n |-> "initialize"]>>
  \o (IF r.hdr = "ok" THEN <<[n |-> "header"]>> ELSE <<>>)
  \o [j \in 1..Len(r.insts) |-> [n |-> "inst", inst |-> r.insts[j]]]
  \o (IF r.hdr = "ok" /\ r.fault = <<>> THEN <<[n |-> "finalize"]>> ELSE <<>>)

\* first callback position whose answer is not Continue, or 0
RECURSIVE FirstStop(_, _, _)
FirstStop(script, j, n) == IF j > n THEN 0 ELSE IF Answer(script, j) # "C" THEN j ELSE FirstStop(script, j + 1, n)

\* [calls, end]: the callbacks actually made and how the parse ends:
\*   <<"stop">>, <<"error", j>>, <<"complete">>, <<"hdr", h>>, <<"fault", f>>
Run(ws, script) ==
  LET r == Parse(ws)
      cb == Callbacks(r)
      k == FirstStop(script, 1, Len(cb))
  IN IF k # 0 THEN [calls |-> SubSeq(cb, 1, k),
                    end |-> IF Answer(script, k) = "S" THEN <<"stop">> ELSE <<"error", k>>]
     ELSE [calls |-> cb,
           end |-> IF r.hdr # "ok" THEN <<"hdr", r.hdr>>
                   ELSE IF r.fault # <<>> THEN <<"fault", r.fault[1]>>
                   ELSE <<"complete">>]
=============================================================================
