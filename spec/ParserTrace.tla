---------------------------- MODULE ParserTrace ----------------------------
(***************************************************************************)
(* Trace validation for the parser and the assembler.                      *)
(*  ev = "parse": one real parse (parse_bytes / parse_words) of a word     *)
(*      stream with a scripted consumer: recorded callbacks and result     *)
(*      must be what Parser!Run allows (C03, C10, C14, C04).               *)
(*  ev = "asm": one conforming instruction: the real assemble() output     *)
(*      must equal Assembler!EncodeInst, and the real parse of those words *)
(*      must give the instruction back (C02).                              *)
(* Each rejected event is reported as <<index, code>>; code bits:          *)
(*   1 content (C03/C02/C10)   2 protocol shape (C14)   4 panic (C04)      *)
(*   8 the generated instruction is not conforming per the specification   *)
(*     (an error of the harness generator, not of the code)                *)
(***************************************************************************)
EXTENDS Integers, Sequences, FiniteSets, TLC, Json, IOUtils, Parser, Assembler

Rec == ndJsonDeserialize(IOEnv.TRACE)

VARIABLES l, bad
vars == <<l, bad>>

IsPanic(r) == Len(r) >= 1 /\ r[1] = "Panic"

---------------------------------------------------------------------------
CallAgrees(log, exp, ws) ==
  /\ log.n = exp.n
  /\ (exp.n = "inst" => log.inst = exp.inst)
  /\ (exp.n = "header" => log.version = HeaderOf(ws).version /\ log.bound = HeaderOf(ws).bound)

ResultAgrees(e, exp) ==
  LET r == e.result IN
  CASE exp.end[1] = "stop"     -> r = <<"Err", "ConsumerStopRequested">>
    [] exp.end[1] = "error"    -> r = <<"Err", "ConsumerError", exp.end[2]>>
    [] exp.end[1] = "complete" -> \/ r = <<"Ok">>
                                  \* TrailingPartialWord: 1-3 bytes after the last instruction are
                                  \* not an instruction; ignoring them (what the code does) or
                                  \* rejecting them are both compatible with C03
                                  \/ e.tail > 0 /\ r[1] = "Err" /\ r[2] \notin {"ConsumerStopRequested", "ConsumerError"}
    [] exp.end[1] = "hdr"      -> r[1] = "Err" /\ HeaderErrAdmissible(exp.end[2], r)
    [] exp.end[1] = "fault"    -> r[1] = "Err" /\ r[2] \notin {"ConsumerStopRequested", "ConsumerError", "HeaderIncomplete",
                                                                "HeaderIncorrect", "EndiannessUnsupported"}
                                  /\ ErrAdmissible(exp.end[2], r)

ContentOK(e, exp) ==
  LET n == Len(exp.calls)
      \* TrailingPartialWord rejected (see ResultAgrees): 1-3 bytes follow the last instruction and the parser reports
      \* them as a parse error instead of calling finalize (whatever the consumer would have answered there)
      rejectedTail == /\ e.tail > 0 /\ e.result[1] = "Err" /\ e.result[2] \notin {"ConsumerStopRequested", "ConsumerError"}
                      /\ n >= 1 /\ exp.calls[n].n = "finalize"
      want == IF rejectedTail THEN SubSeq(exp.calls, 1, n - 1) ELSE exp.calls
  IN
  /\ Len(e.calls) = Len(want)
  /\ \A j \in 1..Len(want) : CallAgrees(e.calls[j], want[j], e.words)
  /\ (rejectedTail \/ ResultAgrees(e, exp))

\* Framing by word counts alone (no grammar): the 1-based word indexes at which instructions start, and
\* the index after the last complete frame.  The walk stops at a zero count or a frame reaching past the end.
RECURSIVE FrameWalk(_, _, _)
FrameWalk(ws, p, acc) ==
  IF p > Len(ws) THEN [starts |-> acc, endp |-> p]
  ELSE LET wc == ws[p][1] IN
       IF wc = 0 \/ p + wc - 1 > Len(ws) THEN [starts |-> acc, endp |-> p]
       ELSE FrameWalk(ws, p + wc, Append(acc, p))

\* C14, independently of the grammar: order, at-most-once, obedience to the answers
ShapeOK(e, exp) ==
  LET n == Len(e.calls)
      name(j) == e.calls[j].n
      r == e.result
      parseErr == r[1] = "Err" /\ r[2] \notin {"ConsumerStopRequested", "ConsumerError"}
  IN
  /\ n >= 1 /\ name(1) = "initialize"
  /\ \A j \in 2..n : \/ name(j) = "header" /\ j = 2
                     \/ name(j) = "inst" /\ j >= 3 /\ name(j - 1) \in {"header", "inst"}
                     \/ name(j) = "finalize" /\ j = n /\ j >= 3 /\ name(j - 1) \in {"header", "inst"}
  \* no callback after an answer other than continue
  /\ \A j \in 1..(n - 1) : Answer(e.script, j) = "C"
  \* the last answer decides the result when it is stop / error
  /\ (Answer(e.script, n) = "S" => r = <<"Err", "ConsumerStopRequested">>)
  /\ (Answer(e.script, n) \notin {"C", "S"} => r = <<"Err", "ConsumerError", n>>)
  /\ (Answer(e.script, n) = "C" => r[1] = "Ok" \/ parseErr)
  \* finalize iff parsed to the end without error
  /\ (r = <<"Ok">> => name(n) = "finalize")
  /\ (parseErr => name(n) # "finalize")
  \* "one call per instruction in stream order": the k-th instruction callback is for the k-th frame of the
  \* stream, and a parse that ends in finalize has called back for every frame up to the end of the words
  /\ (Len(e.words) >= 5 =>
        LET fw == FrameWalk(e.words, 6, <<>>)
            k == Cardinality({j \in 1..n : name(j) = "inst"}) IN
        /\ k <= Len(fw.starts)
        /\ \A i \in 1..k : e.calls[2 + i].inst.op = e.words[fw.starts[i]][2]
        /\ (r = <<"Ok">> => k = Len(fw.starts) /\ fw.endp = Len(e.words) + 1))
  \* "for all binaries": when the binary has no fault up to the point where the consumer ends the parse (or up to its
  \* end), the consumer receives exactly the callbacks of Parser!Run, by name -- a parse error invented for a well-formed
  \* instruction deprives it of the remaining instruction callbacks and of finalize (1-3 trailing bytes may be rejected)
  \* "finalize only if the whole binary was parsed without error": a binary with a fault (per the grammar) that the
  \* consumer did not cut short never ends in Ok / finalize
  /\ (exp.end[1] \in {"fault", "hdr"} => r # <<"Ok">> /\ name(n) # "finalize")
  /\ (exp.end[1] \in {"complete", "stop", "error"} =>
        LET m == Len(exp.calls) IN
        \/ n = m /\ \A j \in 1..m : name(j) = exp.calls[j].n
        \/ e.tail > 0 /\ parseErr /\ exp.calls[m].n = "finalize" /\ n = m - 1 /\ \A j \in 1..n : name(j) = exp.calls[j].n)

ParseCode(e) ==
  IF IsPanic(e.result) THEN 4 + 1
  ELSE LET exp == Run(e.words, e.script) IN (IF ContentOK(e, exp) THEN 0 ELSE 1) + (IF ShapeOK(e, exp) THEN 0 ELSE 2)

---------------------------------------------------------------------------
RECURSIVE TrackAll(_, _, _)
TrackAll(types, is, j) == IF j > Len(is) THEN types ELSE TrackAll(Track(types, is[j]), is, j + 1)

AsmCode(e) ==
  IF e.wst = "panic" \/ e.pst = "panic" THEN 4 + 1
  ELSE
    LET types == TrackAll(NoTypes, e.ctx, 1)
        enc == EncodeInst(e.inst)
        sp == ParseInst(enc, 1, types)
        conforming == sp.st = "ok" /\ sp.inst = e.inst /\ sp.wc = Len(enc)
    IN IF ~conforming THEN 8
       ELSE IF e.wst = "ok" /\ e.words = enc /\ e.pst = "ok" /\ e.parsed = <<e.inst>> THEN 0 ELSE 1

\* The maximal word count.  An OpTypeStruct %rid with n members %member is Assembler!EncodeInst of
\* BigInst(n): first word <<n + 2, 30>> (word count in the high half), the result id, n times the member id.  The event
\* carries the assembled words and the operands parsed back RUN-LENGTH ENCODED (without loss), so that n = 65533 - the
\* largest instruction the format can express - is validated by arithmetic; BigAgrees ties the closed form to
\* EncodeInst / ParseInst on small n.
BigInst(n, rid, member) == [op |-> 30, rt |-> <<>>, rid |-> <<rid>>, ops |-> [j \in 1..n |-> [k |-> "IdRef", w |-> <<member>>, s |-> <<>>]]]
BigWordsRle(n, rid, member) == <<<< <<n + 2, 30>>, 1>>, <<rid, 1>>>> \o (IF n = 0 THEN <<>> ELSE <<<<member, n>>>>)
RECURSIVE UnRle(_, _)
UnRle(r, j) == IF j > Len(r) THEN <<>> ELSE [x \in 1..r[j][2] |-> r[j][1]] \o UnRle(r, j + 1)
BigAgrees == \A n \in 0..5 : LET i == BigInst(n, <<0, 9>>, <<0, 4>>)  enc == EncodeInst(i) IN
               /\ enc = UnRle(BigWordsRle(n, <<0, 9>>, <<0, 4>>), 1)
               /\ LET sp == ParseInst(enc, 1, NoTypes) IN sp.st = "ok" /\ sp.inst = i /\ sp.wc = Len(enc)
ASSUME BigAgrees
BigCode(e) ==
  IF e.wst = "panic" \/ e.pst = "panic" THEN 4 + 1
  ELSE IF e.n + 2 > 65535 THEN 8
  ELSE IF /\ e.wst = "ok" /\ e.words_rle = BigWordsRle(e.n, e.rid, e.member)
          /\ e.pst = "ok" /\ Len(e.parsed) = 1
          /\ e.parsed[1].op = 30 /\ e.parsed[1].rt = <<>> /\ e.parsed[1].rid = <<e.rid>> /\ e.parsed[1].all_idref
          /\ e.parsed[1].ops_rle = (IF e.n = 0 THEN <<>> ELSE <<<<e.member, e.n>>>>)
       THEN 0 ELSE 1

Code(e) == IF e.ev = "parse" THEN ParseCode(e) ELSE IF e.ev = "asm" THEN AsmCode(e) ELSE IF e.ev = "asmbig" THEN BigCode(e) ELSE 0

Init == l = 1 /\ bad = <<>>
Next == /\ l <= Len(Rec)
        /\ LET c == Code(Rec[l]) IN bad' = IF c = 0 THEN bad ELSE (IF Len(bad) >= 5000 THEN bad ELSE Append(bad, <<l, c>>))
        /\ l' = l + 1
Spec == Init /\ [][Next]_vars

Done == l = Len(Rec) + 1
Report == Done => PrintT(<<"TRACE-RESULT", Len(Rec), bad>>)
=============================================================================
