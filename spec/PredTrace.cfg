SPECIFICATION Spec
INVARIANT Report
INVARIANT Covered
INVARIANT NamesExist
CHECK_DEADLOCK FALSE
