----------------------------- MODULE PredTrace -----------------------------
(***************************************************************************)
(* C16: the opcode classification predicates of grammar::reflect against   *)
(* the classes of the SPIR-V specification (SpecFacts.tla), for every      *)
(* declared opcode.  Each class has a MUST set, and a DON'T-CARE set for   *)
(* opcodes the specification only reserves for a vendor; everything else   *)
(* MUST NOT be in the class.  code 1 = a predicate disagrees / a law       *)
(* (union, disjointness) fails; 5 = panic.                                 *)
(***************************************************************************)
EXTENDS Integers, Sequences, FiniteSets, TLC, Json, IOUtils, SpecFacts

Rec == ndJsonDeserialize(IOEnv.TRACE)
VARIABLES l, bad, seen
vars == <<l, bad, seen>>

\* vendor OpType... / Op...Constant... instructions: reserved or @exclude'd in the grammar
VendorTypeNames == {"TypeNodePayloadArrayAMDX", "TypeHitObjectNV", "TypeCooperativeVectorNV", "TypeCooperativeMatrixNV",
  "TypeTensorLayoutNV", "TypeTensorViewNV", "TypeVmeImageINTEL", "TypeAvcImePayloadINTEL", "TypeAvcRefPayloadINTEL",
  "TypeAvcSicPayloadINTEL", "TypeAvcMcePayloadINTEL", "TypeAvcMceResultINTEL", "TypeAvcImeResultINTEL",
  "TypeAvcImeResultSingleReferenceStreamoutINTEL", "TypeAvcImeResultDualReferenceStreamoutINTEL",
  "TypeAvcImeSingleReferenceStreaminINTEL", "TypeAvcImeDualReferenceStreaminINTEL", "TypeAvcRefResultINTEL",
  "TypeAvcSicResultINTEL", "TypeBufferSurfaceINTEL", "TypeStructContinuedINTEL"}
VendorConstantNames == {"ConstantCompositeContinuedINTEL", "SpecConstantCompositeContinuedINTEL", "ConstantPipeStorage",
  "ConstantFunctionPointerINTEL", "ConstantStringAMDX", "SpecConstantStringAMDX"}

\* [must, dontcare] per base predicate
Class(p) ==
  \* every OpType... instruction declares a type, vendor-specific ones included (the tree lists them all)
  CASE p = "is_type" -> [must |-> TypeNames \cup VendorTypeNames, dc |-> {}]
    [] p = "is_constant" -> [must |-> ConstantNames, dc |-> VendorConstantNames]
    [] p = "is_annotation" -> [must |-> AnnotationNames, dc |-> {}]
    [] p = "is_location_debug" -> [must |-> LocationDebugNames, dc |-> {}]
    [] p = "is_nonlocation_debug" -> [must |-> NonLocationDebugNames, dc |-> ModuleProcessedNames]
    [] p = "is_variable" -> [must |-> {"Variable"}, dc |-> {"UntypedVariableKHR"}]
    [] p = "is_return" -> [must |-> ReturnNames, dc |-> {}]
    [] p = "is_abort" -> [must |-> AbortNames, dc |-> {}]
    [] p = "is_branch" -> [must |-> BranchNames, dc |-> {}]
BasePreds == {"is_type", "is_constant", "is_annotation", "is_location_debug", "is_nonlocation_debug", "is_variable",
              "is_return", "is_abort", "is_branch"}

OK(e) ==
  LET n == OpName(e.op)  f == e.flags IN
  /\ \A p \in BasePreds : LET c == Class(p) IN
        IF n \in c.must THEN f[p] ELSE IF n \in c.dc THEN TRUE ELSE ~f[p]
  \* "The derived predicates are the unions their documentation states"
  /\ f.is_debug = (f.is_location_debug \/ f.is_nonlocation_debug)
  /\ f.is_return_or_abort = (f.is_return \/ f.is_abort)
  /\ f.is_block_terminator = (f.is_branch \/ f.is_return_or_abort)
  \* "the base classes are pairwise disjoint"
  /\ Cardinality({p \in BasePreds : f[p]}) <= 1
  \* "the block-terminator predicate [holds] exactly for block-termination instructions"
  /\ f.is_block_terminator = (n \in TerminatorNames)

Code(e) == IF e.st = "panic" THEN 5 ELSE IF OK(e) THEN 0 ELSE 1

Init == l = 1 /\ bad = <<>> /\ seen = {}
Next == /\ l <= Len(Rec)
        /\ LET c == Code(Rec[l]) IN bad' = IF c = 0 THEN bad ELSE (IF Len(bad) >= 5000 THEN bad ELSE Append(bad, <<l, c>>))
        /\ seen' = seen \cup {Rec[l].op}
        /\ l' = l + 1
Spec == Init /\ [][Next]_vars
Done == l = Len(Rec) + 1
\* every opcode of the grammar was evaluated (exhaustive), and every name used by SpecFacts exists
Covered == Done => { G.insts[k].opcode : k \in DOMAIN G.insts } \subseteq seen
Report == Done => PrintT(<<"TRACE-RESULT", Len(Rec), bad>>)
NamesExist == AllNamesExist /\ (VendorTypeNames \cup VendorConstantNames) \subseteq DeclaredNames
=============================================================================
