------------------------------ MODULE SpecFacts ------------------------------
(***************************************************************************)
(* Facts transcribed BY HAND from the SPIR-V specification (unified1,      *)
(* sections 2.4 "Logical Layout of a Module", 3.52.x instruction groups),  *)
(* NOT from the tree under test.  Opcodes are referred to by their         *)
(* specification names (without the "Op" prefix); NameToOp resolves them   *)
(* through the grammar snapshot, and AllNamesExist checks every name used  *)
(* here is a declared opcode.                                              *)
(*                                                                         *)
(* Classification of opcodes for the loader (C05), the predicates (C16)    *)
(* and the Builder (C06, C12).  Vendor-specific opcodes (suffix NV, INTEL, *)
(* AMD, AMDX, ARM, QCOM ...) that the specification merely reserves are    *)
(* "don't care": no property constrains how they are classified.           *)
(***************************************************************************)
EXTENDS Integers, Sequences, FiniteSets, TLC, Grammar

\* 3.52.6 Type-Declaration Instructions (core, KHR, EXT)
TypeNames == {"TypeVoid", "TypeBool", "TypeInt", "TypeFloat", "TypeVector", "TypeMatrix", "TypeImage", "TypeSampler",
              "TypeSampledImage", "TypeArray", "TypeRuntimeArray", "TypeStruct", "TypeOpaque", "TypePointer", "TypeFunction",
              "TypeEvent", "TypeDeviceEvent", "TypeReserveId", "TypeQueue", "TypePipe", "TypeForwardPointer",
              "TypePipeStorage", "TypeNamedBarrier",
              "TypeUntypedPointerKHR", "TypeCooperativeMatrixKHR", "TypeRayQueryKHR", "TypeAccelerationStructureKHR"}
\* 3.52.7 Constant-Creation Instructions
ConstantNames == {"ConstantTrue", "ConstantFalse", "Constant", "ConstantComposite", "ConstantSampler", "ConstantNull",
                  "SpecConstantTrue", "SpecConstantFalse", "SpecConstant", "SpecConstantComposite", "SpecConstantOp",
                  "ConstantCompositeReplicateEXT", "SpecConstantCompositeReplicateEXT"}
\* 3.52.3 Annotation Instructions
AnnotationNames == {"Decorate", "MemberDecorate", "DecorationGroup", "GroupDecorate", "GroupMemberDecorate",
                    "DecorateId", "DecorateString", "MemberDecorateString"}
\* 3.52.2 Debug Instructions
LocationDebugNames == {"Line", "NoLine"}
NonLocationDebugNames == {"SourceContinued", "Source", "SourceExtension", "Name", "MemberName", "String"}
ModuleProcessedNames == {"ModuleProcessed"}       \* a debug instruction with its own layout section (7c)
\* 3.52.17 Control-Flow: block termination instructions
BranchNames == {"Branch", "BranchConditional", "Switch"}
ReturnNames == {"Return", "ReturnValue"}
AbortNames  == {"Kill", "Unreachable", "TerminateInvocation", "IgnoreIntersectionKHR", "TerminateRayKHR", "EmitMeshTasksEXT"}
TerminatorNames == BranchNames \cup ReturnNames \cup AbortNames

\* core / KHR / EXT opcodes with numbers >= 4160 (everything else up there is vendor-specific)
HighCoreNames == {"TerminateInvocation", "SDot", "UDot", "SUDot", "SDotAccSat", "UDotAccSat", "SUDotAccSat",
                  "DemoteToHelperInvocation", "DecorateString", "MemberDecorateString"}
KhrExtNames == {"ColorAttachmentReadEXT", "DepthAttachmentReadEXT", "StencilAttachmentReadEXT", "TypeUntypedPointerKHR",
  "UntypedVariableKHR", "UntypedAccessChainKHR", "UntypedInBoundsAccessChainKHR", "SubgroupBallotKHR",
  "SubgroupFirstInvocationKHR", "UntypedPtrAccessChainKHR", "UntypedInBoundsPtrAccessChainKHR", "UntypedArrayLengthKHR",
  "UntypedPrefetchKHR", "SubgroupAllKHR", "SubgroupAnyKHR", "SubgroupAllEqualKHR", "GroupNonUniformRotateKHR",
  "SubgroupReadInvocationKHR", "ExtInstWithForwardRefsKHR", "TraceRayKHR", "ExecuteCallableKHR",
  "ConvertUToAccelerationStructureKHR", "IgnoreIntersectionKHR", "TerminateRayKHR", "TypeCooperativeMatrixKHR",
  "CooperativeMatrixLoadKHR", "CooperativeMatrixStoreKHR", "CooperativeMatrixMulAddKHR", "CooperativeMatrixLengthKHR",
  "ConstantCompositeReplicateEXT", "SpecConstantCompositeReplicateEXT", "CompositeConstructReplicateEXT",
  "TypeRayQueryKHR", "RayQueryInitializeKHR", "RayQueryTerminateKHR", "RayQueryGenerateIntersectionKHR",
  "RayQueryConfirmIntersectionKHR", "RayQueryProceedKHR", "RayQueryGetIntersectionTypeKHR", "ReadClockKHR",
  "GroupNonUniformQuadAllKHR", "GroupNonUniformQuadAnyKHR", "EmitMeshTasksEXT", "SetMeshOutputsEXT",
  "ReportIntersectionKHR", "RayQueryGetIntersectionTriangleVertexPositionsKHR", "TypeAccelerationStructureKHR",
  "BeginInvocationInterlockEXT", "EndInvocationInterlockEXT", "IsHelperInvocationEXT", "AtomicFMinEXT", "AtomicFMaxEXT",
  "AssumeTrueKHR", "ExpectKHR", "RayQueryGetRayTMinKHR", "RayQueryGetRayFlagsKHR", "RayQueryGetIntersectionTKHR",
  "RayQueryGetIntersectionInstanceCustomIndexKHR", "RayQueryGetIntersectionInstanceIdKHR",
  "RayQueryGetIntersectionInstanceShaderBindingTableRecordOffsetKHR", "RayQueryGetIntersectionGeometryIndexKHR",
  "RayQueryGetIntersectionPrimitiveIndexKHR", "RayQueryGetIntersectionBarycentricsKHR",
  "RayQueryGetIntersectionFrontFaceKHR", "RayQueryGetIntersectionCandidateAABBOpaqueKHR",
  "RayQueryGetIntersectionObjectRayDirectionKHR", "RayQueryGetIntersectionObjectRayOriginKHR",
  "RayQueryGetWorldRayDirectionKHR", "RayQueryGetWorldRayOriginKHR", "RayQueryGetIntersectionObjectToWorldKHR",
  "RayQueryGetIntersectionWorldToObjectKHR", "AtomicFAddEXT", "ArithmeticFenceEXT", "GroupIMulKHR", "GroupFMulKHR",
  "GroupBitwiseAndKHR", "GroupBitwiseOrKHR", "GroupBitwiseXorKHR", "GroupLogicalAndKHR", "GroupLogicalOrKHR",
  "GroupLogicalXorKHR"}

\* instructions whose placement depends on context the opcode alone does not give
\* (module scope or block scope): outside the loader claim when they occur outside a block
ContextDependentNames == {"ExtInst", "ExtInstWithForwardRefsKHR", "UntypedVariableKHR"}

OpName(op) == Inst(op).name
IsVendor(op) == op >= 4160 /\ OpName(op) \notin HighCoreNames /\ OpName(op) \notin KhrExtNames

\* 2.4 Logical Layout of a Module: the section each module-level opcode class belongs to
\* (section names are the field names of the data representation)
LoaderClass(op) ==
  LET n == OpName(op) IN
  CASE n = "Capability"      -> "Cap"
    [] n = "Extension"       -> "Ext"
    [] n = "ExtInstImport"   -> "Import"
    [] n = "MemoryModel"     -> "MemModel"
    [] n = "EntryPoint"      -> "Entry"
    [] n \in {"ExecutionMode", "ExecutionModeId"} -> "ExecMode"
    [] n \in {"String", "SourceExtension", "Source", "SourceContinued"} -> "DbgStr"
    [] n \in {"Name", "MemberName"} -> "DbgName"
    [] n = "ModuleProcessed" -> "ModProc"
    [] n \in AnnotationNames -> "Annot"
    [] n \in TypeNames \cup ConstantNames -> "TypeConst"
    [] n \in LocationDebugNames -> "Line"
    [] n \in {"Variable", "Undef"} -> "VarOrUndef"
    [] n = "Function"          -> "Fn"
    [] n = "FunctionParameter" -> "Param"
    [] n = "FunctionEnd"       -> "FnEnd"
    [] n = "Label"             -> "Label"
    [] n \in TerminatorNames   -> "Term"
    [] IsVendor(op) \/ n \in ContextDependentNames -> "DontCare"
    [] OTHER -> "BlockInst"

SectionOfClass(c) ==
  CASE c = "Cap" -> "capabilities" [] c = "Ext" -> "extensions" [] c = "Import" -> "ext_inst_imports"
    [] c = "MemModel" -> "memory_model" [] c = "Entry" -> "entry_points" [] c = "ExecMode" -> "execution_modes"
    [] c = "DbgStr" -> "debug_string_source" [] c = "DbgName" -> "debug_names" [] c = "ModProc" -> "debug_module_processed"
    [] c = "Annot" -> "annotations" [] c = "TypeConst" -> "types_global_values"

ModuleLevelClasses == {"Cap", "Ext", "Import", "MemModel", "Entry", "ExecMode", "DbgStr", "DbgName", "ModProc", "Annot", "TypeConst"}


---------------------------------------------------------------------------
(* Hand-transcribed anchors: instruction numbers and operand layouts of core SPIR-V 1.0
   instructions (specification section 3.52), and numeric values of well-known enumerants
   (3.2 - 3.31).  The pinned grammar snapshot must agree with them (TablesTrace!AnchorsAgree),
   and every table entry of the tree with an anchor is compared with it directly. *)
RT == <<"IdResultType", "One">>     R == <<"IdResult", "One">>
Id1 == <<"IdRef", "One">>   IdOpt == <<"IdRef", "ZeroOrOne">>   IdMany == <<"IdRef", "ZeroOrMore">>
Int1 == <<"LiteralInteger", "One">>   Str1 == <<"LiteralString", "One">>
E1(k) == <<k, "One">>   EOpt(k) == <<k, "ZeroOrOne">>
A(op, ops) == <<op, ops>>
InstAnchors ==
  [n \in {} |-> <<>>]
  @@ ("Nop" :> A(0, <<>>)) @@ ("Undef" :> A(1, <<RT, R>>)) @@ ("SourceContinued" :> A(2, <<Str1>>))
  @@ ("Source" :> A(3, <<E1("SourceLanguage"), Int1, IdOpt, <<"LiteralString", "ZeroOrOne">>>>))
  @@ ("SourceExtension" :> A(4, <<Str1>>)) @@ ("Name" :> A(5, <<Id1, Str1>>)) @@ ("MemberName" :> A(6, <<Id1, Int1, Str1>>))
  @@ ("String" :> A(7, <<R, Str1>>)) @@ ("Line" :> A(8, <<Id1, Int1, Int1>>)) @@ ("Extension" :> A(10, <<Str1>>))
  @@ ("ExtInstImport" :> A(11, <<R, Str1>>)) @@ ("ExtInst" :> A(12, <<RT, R, Id1, E1("LiteralExtInstInteger"), IdMany>>))
  @@ ("MemoryModel" :> A(14, <<E1("AddressingModel"), E1("MemoryModel")>>))
  @@ ("EntryPoint" :> A(15, <<E1("ExecutionModel"), Id1, Str1, IdMany>>))
  @@ ("ExecutionMode" :> A(16, <<Id1, E1("ExecutionMode")>>)) @@ ("Capability" :> A(17, <<E1("Capability")>>))
  @@ ("TypeVoid" :> A(19, <<R>>)) @@ ("TypeBool" :> A(20, <<R>>)) @@ ("TypeInt" :> A(21, <<R, Int1, Int1>>))
  @@ ("TypeVector" :> A(23, <<R, Id1, Int1>>)) @@ ("TypeMatrix" :> A(24, <<R, Id1, Int1>>))
  @@ ("TypeImage" :> A(25, <<R, Id1, E1("Dim"), Int1, Int1, Int1, Int1, E1("ImageFormat"), EOpt("AccessQualifier")>>))
  @@ ("TypeSampler" :> A(26, <<R>>)) @@ ("TypeSampledImage" :> A(27, <<R, Id1>>)) @@ ("TypeArray" :> A(28, <<R, Id1, Id1>>))
  @@ ("TypeRuntimeArray" :> A(29, <<R, Id1>>)) @@ ("TypeStruct" :> A(30, <<R, IdMany>>)) @@ ("TypeOpaque" :> A(31, <<R, Str1>>))
  @@ ("TypePointer" :> A(32, <<R, E1("StorageClass"), Id1>>)) @@ ("TypeFunction" :> A(33, <<R, Id1, IdMany>>))
  @@ ("TypeEvent" :> A(34, <<R>>)) @@ ("TypeDeviceEvent" :> A(35, <<R>>)) @@ ("TypeReserveId" :> A(36, <<R>>)) @@ ("TypeQueue" :> A(37, <<R>>))
  @@ ("TypePipe" :> A(38, <<R, E1("AccessQualifier")>>)) @@ ("TypeForwardPointer" :> A(39, <<Id1, E1("StorageClass")>>))
  @@ ("ConstantTrue" :> A(41, <<RT, R>>)) @@ ("ConstantFalse" :> A(42, <<RT, R>>))
  @@ ("Constant" :> A(43, <<RT, R, E1("LiteralContextDependentNumber")>>)) @@ ("ConstantComposite" :> A(44, <<RT, R, IdMany>>))
  @@ ("ConstantSampler" :> A(45, <<RT, R, E1("SamplerAddressingMode"), Int1, E1("SamplerFilterMode")>>))
  @@ ("ConstantNull" :> A(46, <<RT, R>>)) @@ ("SpecConstantTrue" :> A(48, <<RT, R>>)) @@ ("SpecConstantFalse" :> A(49, <<RT, R>>))
  @@ ("SpecConstant" :> A(50, <<RT, R, E1("LiteralContextDependentNumber")>>)) @@ ("SpecConstantComposite" :> A(51, <<RT, R, IdMany>>))
  @@ ("SpecConstantOp" :> A(52, <<RT, R, E1("LiteralSpecConstantOpInteger")>>))
  @@ ("Function" :> A(54, <<RT, R, E1("FunctionControl"), Id1>>)) @@ ("FunctionParameter" :> A(55, <<RT, R>>))
  @@ ("FunctionEnd" :> A(56, <<>>)) @@ ("FunctionCall" :> A(57, <<RT, R, Id1, IdMany>>))
  @@ ("Variable" :> A(59, <<RT, R, E1("StorageClass"), IdOpt>>)) @@ ("ImageTexelPointer" :> A(60, <<RT, R, Id1, Id1, Id1>>))
  @@ ("Load" :> A(61, <<RT, R, Id1, EOpt("MemoryAccess")>>)) @@ ("Store" :> A(62, <<Id1, Id1, EOpt("MemoryAccess")>>))
  @@ ("CopyMemory" :> A(63, <<Id1, Id1, EOpt("MemoryAccess"), EOpt("MemoryAccess")>>))
  @@ ("AccessChain" :> A(65, <<RT, R, Id1, IdMany>>)) @@ ("InBoundsAccessChain" :> A(66, <<RT, R, Id1, IdMany>>))
  @@ ("Decorate" :> A(71, <<Id1, E1("Decoration")>>)) @@ ("MemberDecorate" :> A(72, <<Id1, Int1, E1("Decoration")>>))
  @@ ("DecorationGroup" :> A(73, <<R>>)) @@ ("GroupDecorate" :> A(74, <<Id1, IdMany>>))
  @@ ("GroupMemberDecorate" :> A(75, <<Id1, <<"PairIdRefLiteralInteger", "ZeroOrMore">>>>))
  @@ ("VectorExtractDynamic" :> A(77, <<RT, R, Id1, Id1>>)) @@ ("VectorShuffle" :> A(79, <<RT, R, Id1, Id1, <<"LiteralInteger", "ZeroOrMore">>>>))
  @@ ("CompositeConstruct" :> A(80, <<RT, R, IdMany>>)) @@ ("CompositeExtract" :> A(81, <<RT, R, Id1, <<"LiteralInteger", "ZeroOrMore">>>>))
  @@ ("CompositeInsert" :> A(82, <<RT, R, Id1, Id1, <<"LiteralInteger", "ZeroOrMore">>>>)) @@ ("CopyObject" :> A(83, <<RT, R, Id1>>))
  @@ ("Transpose" :> A(84, <<RT, R, Id1>>)) @@ ("ConvertFToU" :> A(109, <<RT, R, Id1>>)) @@ ("Bitcast" :> A(124, <<RT, R, Id1>>))
  @@ ("SNegate" :> A(126, <<RT, R, Id1>>)) @@ ("IAdd" :> A(128, <<RT, R, Id1, Id1>>)) @@ ("FAdd" :> A(129, <<RT, R, Id1, Id1>>))
  @@ ("ISub" :> A(130, <<RT, R, Id1, Id1>>)) @@ ("FSub" :> A(131, <<RT, R, Id1, Id1>>)) @@ ("IMul" :> A(132, <<RT, R, Id1, Id1>>))
  @@ ("FMul" :> A(133, <<RT, R, Id1, Id1>>)) @@ ("Dot" :> A(148, <<RT, R, Id1, Id1>>)) @@ ("Select" :> A(169, <<RT, R, Id1, Id1, Id1>>))
  @@ ("IEqual" :> A(170, <<RT, R, Id1, Id1>>)) @@ ("ControlBarrier" :> A(224, <<E1("IdScope"), E1("IdScope"), E1("IdMemorySemantics")>>))
  @@ ("MemoryBarrier" :> A(225, <<E1("IdScope"), E1("IdMemorySemantics")>>))
  @@ ("AtomicLoad" :> A(227, <<RT, R, Id1, E1("IdScope"), E1("IdMemorySemantics")>>))
  @@ ("Phi" :> A(245, <<RT, R, <<"PairIdRefIdRef", "ZeroOrMore">>>>)) @@ ("LoopMerge" :> A(246, <<Id1, Id1, E1("LoopControl")>>))
  @@ ("SelectionMerge" :> A(247, <<Id1, E1("SelectionControl")>>)) @@ ("Label" :> A(248, <<R>>)) @@ ("Branch" :> A(249, <<Id1>>))
  @@ ("BranchConditional" :> A(250, <<Id1, Id1, Id1, <<"LiteralInteger", "ZeroOrMore">>>>))
  @@ ("Switch" :> A(251, <<Id1, Id1, <<"PairLiteralIntegerIdRef", "ZeroOrMore">>>>)) @@ ("Kill" :> A(252, <<>>)) @@ ("Return" :> A(253, <<>>))
  @@ ("ReturnValue" :> A(254, <<Id1>>)) @@ ("Unreachable" :> A(255, <<>>)) @@ ("LifetimeStart" :> A(256, <<Id1, Int1>>))
  @@ ("LifetimeStop" :> A(257, <<Id1, Int1>>)) @@ ("NoLine" :> A(317, <<>>)) @@ ("ModuleProcessed" :> A(330, <<Str1>>))
  @@ ("ExecutionModeId" :> A(331, <<Id1, E1("ExecutionMode")>>)) @@ ("DecorateId" :> A(332, <<Id1, E1("Decoration")>>))

EnumAnchors == {
  <<"SourceLanguage", "Unknown", 0>>, <<"SourceLanguage", "ESSL", 1>>, <<"SourceLanguage", "GLSL", 2>>, <<"SourceLanguage", "OpenCL_C", 3>>,
  <<"SourceLanguage", "OpenCL_CPP", 4>>, <<"SourceLanguage", "HLSL", 5>>,
  <<"ExecutionModel", "Vertex", 0>>, <<"ExecutionModel", "TessellationControl", 1>>, <<"ExecutionModel", "TessellationEvaluation", 2>>,
  <<"ExecutionModel", "Geometry", 3>>, <<"ExecutionModel", "Fragment", 4>>, <<"ExecutionModel", "GLCompute", 5>>, <<"ExecutionModel", "Kernel", 6>>,
  <<"AddressingModel", "Logical", 0>>, <<"AddressingModel", "Physical32", 1>>, <<"AddressingModel", "Physical64", 2>>,
  <<"AddressingModel", "PhysicalStorageBuffer64", 5348>>,
  <<"MemoryModel", "Simple", 0>>, <<"MemoryModel", "GLSL450", 1>>, <<"MemoryModel", "OpenCL", 2>>, <<"MemoryModel", "Vulkan", 3>>,
  <<"ExecutionMode", "Invocations", 0>>, <<"ExecutionMode", "OriginUpperLeft", 7>>, <<"ExecutionMode", "OriginLowerLeft", 8>>,
  <<"ExecutionMode", "EarlyFragmentTests", 9>>, <<"ExecutionMode", "DepthReplacing", 12>>, <<"ExecutionMode", "LocalSize", 17>>,
  <<"ExecutionMode", "LocalSizeHint", 18>>, <<"ExecutionMode", "OutputVertices", 26>>, <<"ExecutionMode", "LocalSizeId", 38>>,
  <<"StorageClass", "UniformConstant", 0>>, <<"StorageClass", "Input", 1>>, <<"StorageClass", "Uniform", 2>>, <<"StorageClass", "Output", 3>>,
  <<"StorageClass", "Workgroup", 4>>, <<"StorageClass", "CrossWorkgroup", 5>>, <<"StorageClass", "Private", 6>>, <<"StorageClass", "Function", 7>>,
  <<"StorageClass", "Generic", 8>>, <<"StorageClass", "PushConstant", 9>>, <<"StorageClass", "AtomicCounter", 10>>, <<"StorageClass", "Image", 11>>,
  <<"StorageClass", "StorageBuffer", 12>>,
  <<"Dim", "Dim1D", 0>>, <<"Dim", "Dim2D", 1>>, <<"Dim", "Dim3D", 2>>, <<"Dim", "DimCube", 3>>, <<"Dim", "DimRect", 4>>, <<"Dim", "DimBuffer", 5>>,
  <<"Dim", "DimSubpassData", 6>>,
  <<"SamplerAddressingMode", "None", 0>>, <<"SamplerAddressingMode", "ClampToEdge", 1>>, <<"SamplerAddressingMode", "Clamp", 2>>,
  <<"SamplerAddressingMode", "Repeat", 3>>, <<"SamplerAddressingMode", "RepeatMirrored", 4>>,
  <<"SamplerFilterMode", "Nearest", 0>>, <<"SamplerFilterMode", "Linear", 1>>,
  <<"FPRoundingMode", "RTE", 0>>, <<"FPRoundingMode", "RTZ", 1>>, <<"FPRoundingMode", "RTP", 2>>, <<"FPRoundingMode", "RTN", 3>>,
  <<"LinkageType", "Export", 0>>, <<"LinkageType", "Import", 1>>,
  <<"AccessQualifier", "ReadOnly", 0>>, <<"AccessQualifier", "WriteOnly", 1>>, <<"AccessQualifier", "ReadWrite", 2>>,
  <<"FunctionParameterAttribute", "Zext", 0>>, <<"FunctionParameterAttribute", "Sext", 1>>, <<"FunctionParameterAttribute", "ByVal", 2>>,
  <<"FunctionParameterAttribute", "Sret", 3>>, <<"FunctionParameterAttribute", "NoAlias", 4>>, <<"FunctionParameterAttribute", "NoCapture", 5>>,
  <<"FunctionParameterAttribute", "NoWrite", 6>>, <<"FunctionParameterAttribute", "NoReadWrite", 7>>,
  <<"Decoration", "RelaxedPrecision", 0>>, <<"Decoration", "SpecId", 1>>, <<"Decoration", "Block", 2>>, <<"Decoration", "BufferBlock", 3>>,
  <<"Decoration", "RowMajor", 4>>, <<"Decoration", "ColMajor", 5>>, <<"Decoration", "ArrayStride", 6>>, <<"Decoration", "MatrixStride", 7>>,
  <<"Decoration", "BuiltIn", 11>>, <<"Decoration", "NoPerspective", 13>>, <<"Decoration", "Flat", 14>>, <<"Decoration", "Patch", 15>>,
  <<"Decoration", "Centroid", 16>>, <<"Decoration", "Sample", 17>>, <<"Decoration", "Invariant", 18>>, <<"Decoration", "Restrict", 19>>,
  <<"Decoration", "Aliased", 20>>, <<"Decoration", "Volatile", 21>>, <<"Decoration", "Constant", 22>>, <<"Decoration", "Coherent", 23>>,
  <<"Decoration", "NonWritable", 24>>, <<"Decoration", "NonReadable", 25>>, <<"Decoration", "Uniform", 26>>, <<"Decoration", "Location", 30>>,
  <<"Decoration", "Component", 31>>, <<"Decoration", "Index", 32>>, <<"Decoration", "Binding", 33>>, <<"Decoration", "DescriptorSet", 34>>,
  <<"Decoration", "Offset", 35>>, <<"Decoration", "XfbBuffer", 36>>, <<"Decoration", "XfbStride", 37>>, <<"Decoration", "FuncParamAttr", 38>>,
  <<"Decoration", "FPRoundingMode", 39>>, <<"Decoration", "FPFastMathMode", 40>>, <<"Decoration", "LinkageAttributes", 41>>,
  <<"Decoration", "NoContraction", 42>>, <<"Decoration", "InputAttachmentIndex", 43>>, <<"Decoration", "Alignment", 44>>,
  <<"BuiltIn", "Position", 0>>, <<"BuiltIn", "PointSize", 1>>, <<"BuiltIn", "ClipDistance", 3>>, <<"BuiltIn", "CullDistance", 4>>,
  <<"BuiltIn", "VertexId", 5>>, <<"BuiltIn", "InstanceId", 6>>, <<"BuiltIn", "PrimitiveId", 7>>, <<"BuiltIn", "InvocationId", 8>>,
  <<"BuiltIn", "Layer", 9>>, <<"BuiltIn", "ViewportIndex", 10>>, <<"BuiltIn", "FragCoord", 15>>, <<"BuiltIn", "PointCoord", 16>>,
  <<"BuiltIn", "FrontFacing", 17>>, <<"BuiltIn", "SampleId", 18>>, <<"BuiltIn", "FragDepth", 22>>, <<"BuiltIn", "NumWorkgroups", 24>>,
  <<"BuiltIn", "WorkgroupSize", 25>>, <<"BuiltIn", "WorkgroupId", 26>>, <<"BuiltIn", "LocalInvocationId", 27>>,
  <<"BuiltIn", "GlobalInvocationId", 28>>, <<"BuiltIn", "LocalInvocationIndex", 29>>,
  <<"Scope", "CrossDevice", 0>>, <<"Scope", "Device", 1>>, <<"Scope", "Workgroup", 2>>, <<"Scope", "Subgroup", 3>>, <<"Scope", "Invocation", 4>>,
  <<"GroupOperation", "Reduce", 0>>, <<"GroupOperation", "InclusiveScan", 1>>, <<"GroupOperation", "ExclusiveScan", 2>>,
  <<"KernelEnqueueFlags", "NoWait", 0>>, <<"KernelEnqueueFlags", "WaitKernel", 1>>, <<"KernelEnqueueFlags", "WaitWorkGroup", 2>>,
  <<"Capability", "Matrix", 0>>, <<"Capability", "Shader", 1>>, <<"Capability", "Geometry", 2>>, <<"Capability", "Tessellation", 3>>,
  <<"Capability", "Addresses", 4>>, <<"Capability", "Linkage", 5>>, <<"Capability", "Kernel", 6>>, <<"Capability", "Vector16", 7>>,
  <<"Capability", "Float16Buffer", 8>>, <<"Capability", "Float16", 9>>, <<"Capability", "Float64", 10>>, <<"Capability", "Int64", 11>>,
  <<"Capability", "Int64Atomics", 12>>, <<"Capability", "ImageBasic", 13>>, <<"Capability", "Int16", 22>>, <<"Capability", "Int8", 39>>,
  <<"Capability", "VulkanMemoryModel", 5345>>,
  <<"Op", "Nop", 0>>, <<"Op", "TypeInt", 21>>, <<"Op", "Constant", 43>>, <<"Op", "Function", 54>>, <<"Op", "Load", 61>>, <<"Op", "IAdd", 128>>,
  <<"Op", "Label", 248>>, <<"Op", "Return", 253>>, <<"Op", "ExecutionModeId", 331>>, <<"Op", "TerminateInvocation", 4416>>,
  <<"GLOp", "Round", 1>>, <<"GLOp", "FAbs", 4>>, <<"GLOp", "Sin", 13>>, <<"GLOp", "Pow", 26>>, <<"GLOp", "Sqrt", 31>>, <<"GLOp", "FMin", 37>>,
  <<"GLOp", "FMax", 40>>, <<"GLOp", "FClamp", 43>>, <<"GLOp", "Length", 66>>, <<"GLOp", "Normalize", 69>>, <<"GLOp", "NClamp", 81>> }

MaskAnchors == {
  <<"ImageOperands", "BIAS", 1>>, <<"ImageOperands", "LOD", 2>>, <<"ImageOperands", "GRAD", 4>>, <<"ImageOperands", "CONST_OFFSET", 8>>,
  <<"ImageOperands", "OFFSET", 16>>, <<"ImageOperands", "CONST_OFFSETS", 32>>, <<"ImageOperands", "SAMPLE", 64>>, <<"ImageOperands", "MIN_LOD", 128>>,
  <<"FPFastMathMode", "NOT_NAN", 1>>, <<"FPFastMathMode", "NOT_INF", 2>>, <<"FPFastMathMode", "NSZ", 4>>, <<"FPFastMathMode", "ALLOW_RECIP", 8>>,
  <<"FPFastMathMode", "FAST", 16>>,
  <<"SelectionControl", "FLATTEN", 1>>, <<"SelectionControl", "DONT_FLATTEN", 2>>,
  <<"LoopControl", "UNROLL", 1>>, <<"LoopControl", "DONT_UNROLL", 2>>, <<"LoopControl", "DEPENDENCY_INFINITE", 4>>, <<"LoopControl", "DEPENDENCY_LENGTH", 8>>,
  <<"FunctionControl", "INLINE", 1>>, <<"FunctionControl", "DONT_INLINE", 2>>, <<"FunctionControl", "PURE", 4>>, <<"FunctionControl", "CONST", 8>>,
  <<"MemorySemantics", "ACQUIRE", 2>>, <<"MemorySemantics", "RELEASE", 4>>, <<"MemorySemantics", "ACQUIRE_RELEASE", 8>>,
  <<"MemorySemantics", "SEQUENTIALLY_CONSISTENT", 16>>, <<"MemorySemantics", "UNIFORM_MEMORY", 64>>, <<"MemorySemantics", "WORKGROUP_MEMORY", 256>>,
  <<"MemoryAccess", "VOLATILE", 1>>, <<"MemoryAccess", "ALIGNED", 2>>, <<"MemoryAccess", "NONTEMPORAL", 4>>,
  <<"KernelProfilingInfo", "CMD_EXEC_TIME", 1>> }

AllListedNames == TypeNames \cup ConstantNames \cup AnnotationNames \cup LocationDebugNames \cup NonLocationDebugNames
                  \cup ModuleProcessedNames \cup TerminatorNames \cup HighCoreNames \cup KhrExtNames \cup ContextDependentNames
                  \cup {"Capability", "Extension", "ExtInstImport", "MemoryModel", "EntryPoint", "ExecutionMode",
                        "ExecutionModeId", "Variable", "Undef", "Function", "FunctionParameter", "FunctionEnd", "Label"}
DeclaredNames == { G.insts[k].name : k \in DOMAIN G.insts }
AllNamesExist == AllListedNames \subseteq DeclaredNames
=============================================================================
