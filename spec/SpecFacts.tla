------------------------------ MODULE SpecFacts ------------------------------
(***************************************************************************)
(* Facts transcribed BY HAND from the SPIR-V specification (unified1,      *)
(* sections 2.4 "Logical Layout of a Module", 3.52.x instruction groups),  *)
(* NOT from the tree under test.  Opcodes are referred to by their         *)
(* specification names (without the "Op" prefix); NameToOp resolves them   *)
(* through the grammar snapshot, and AllNamesExist checks every name used  *)
(* here is a declared opcode.                                              *)
(*                                                                         *)
(* Classification of opcodes for the loader (C05), the predicates (C16)    *)
(* and the Builder (C06, C12).  Vendor-specific opcodes (suffix NV, INTEL, *)
(* AMD, AMDX, ARM, QCOM ...) that the specification merely reserves are    *)
(* "don't care": no property constrains how they are classified.           *)
(***************************************************************************)
EXTENDS Integers, Sequences, FiniteSets, Grammar

\* 3.52.6 Type-Declaration Instructions (core, KHR, EXT)
TypeNames == {"TypeVoid", "TypeBool", "TypeInt", "TypeFloat", "TypeVector", "TypeMatrix", "TypeImage", "TypeSampler",
              "TypeSampledImage", "TypeArray", "TypeRuntimeArray", "TypeStruct", "TypeOpaque", "TypePointer", "TypeFunction",
              "TypeEvent", "TypeDeviceEvent", "TypeReserveId", "TypeQueue", "TypePipe", "TypeForwardPointer",
              "TypePipeStorage", "TypeNamedBarrier",
              "TypeUntypedPointerKHR", "TypeCooperativeMatrixKHR", "TypeRayQueryKHR", "TypeAccelerationStructureKHR"}
\* 3.52.7 Constant-Creation Instructions
ConstantNames == {"ConstantTrue", "ConstantFalse", "Constant", "ConstantComposite", "ConstantSampler", "ConstantNull",
                  "SpecConstantTrue", "SpecConstantFalse", "SpecConstant", "SpecConstantComposite", "SpecConstantOp",
                  "ConstantCompositeReplicateEXT", "SpecConstantCompositeReplicateEXT"}
\* 3.52.3 Annotation Instructions
AnnotationNames == {"Decorate", "MemberDecorate", "DecorationGroup", "GroupDecorate", "GroupMemberDecorate",
                    "DecorateId", "DecorateString", "MemberDecorateString"}
\* 3.52.2 Debug Instructions
LocationDebugNames == {"Line", "NoLine"}
NonLocationDebugNames == {"SourceContinued", "Source", "SourceExtension", "Name", "MemberName", "String"}
ModuleProcessedNames == {"ModuleProcessed"}       \* a debug instruction with its own layout section (7c)
\* 3.52.17 Control-Flow: block termination instructions
BranchNames == {"Branch", "BranchConditional", "Switch"}
ReturnNames == {"Return", "ReturnValue"}
AbortNames  == {"Kill", "Unreachable", "TerminateInvocation", "IgnoreIntersectionKHR", "TerminateRayKHR", "EmitMeshTasksEXT"}
TerminatorNames == BranchNames \cup ReturnNames \cup AbortNames

\* core / KHR / EXT opcodes with numbers >= 4160 (everything else up there is vendor-specific)
HighCoreNames == {"TerminateInvocation", "SDot", "UDot", "SUDot", "SDotAccSat", "UDotAccSat", "SUDotAccSat",
                  "DemoteToHelperInvocation", "DecorateString", "MemberDecorateString"}
KhrExtNames == {"ColorAttachmentReadEXT", "DepthAttachmentReadEXT", "StencilAttachmentReadEXT", "TypeUntypedPointerKHR",
  "UntypedVariableKHR", "UntypedAccessChainKHR", "UntypedInBoundsAccessChainKHR", "SubgroupBallotKHR",
  "SubgroupFirstInvocationKHR", "UntypedPtrAccessChainKHR", "UntypedInBoundsPtrAccessChainKHR", "UntypedArrayLengthKHR",
  "UntypedPrefetchKHR", "SubgroupAllKHR", "SubgroupAnyKHR", "SubgroupAllEqualKHR", "GroupNonUniformRotateKHR",
  "SubgroupReadInvocationKHR", "ExtInstWithForwardRefsKHR", "TraceRayKHR", "ExecuteCallableKHR",
  "ConvertUToAccelerationStructureKHR", "IgnoreIntersectionKHR", "TerminateRayKHR", "TypeCooperativeMatrixKHR",
  "CooperativeMatrixLoadKHR", "CooperativeMatrixStoreKHR", "CooperativeMatrixMulAddKHR", "CooperativeMatrixLengthKHR",
  "ConstantCompositeReplicateEXT", "SpecConstantCompositeReplicateEXT", "CompositeConstructReplicateEXT",
  "TypeRayQueryKHR", "RayQueryInitializeKHR", "RayQueryTerminateKHR", "RayQueryGenerateIntersectionKHR",
  "RayQueryConfirmIntersectionKHR", "RayQueryProceedKHR", "RayQueryGetIntersectionTypeKHR", "ReadClockKHR",
  "GroupNonUniformQuadAllKHR", "GroupNonUniformQuadAnyKHR", "EmitMeshTasksEXT", "SetMeshOutputsEXT",
  "ReportIntersectionKHR", "RayQueryGetIntersectionTriangleVertexPositionsKHR", "TypeAccelerationStructureKHR",
  "BeginInvocationInterlockEXT", "EndInvocationInterlockEXT", "IsHelperInvocationEXT", "AtomicFMinEXT", "AtomicFMaxEXT",
  "AssumeTrueKHR", "ExpectKHR", "RayQueryGetRayTMinKHR", "RayQueryGetRayFlagsKHR", "RayQueryGetIntersectionTKHR",
  "RayQueryGetIntersectionInstanceCustomIndexKHR", "RayQueryGetIntersectionInstanceIdKHR",
  "RayQueryGetIntersectionInstanceShaderBindingTableRecordOffsetKHR", "RayQueryGetIntersectionGeometryIndexKHR",
  "RayQueryGetIntersectionPrimitiveIndexKHR", "RayQueryGetIntersectionBarycentricsKHR",
  "RayQueryGetIntersectionFrontFaceKHR", "RayQueryGetIntersectionCandidateAABBOpaqueKHR",
  "RayQueryGetIntersectionObjectRayDirectionKHR", "RayQueryGetIntersectionObjectRayOriginKHR",
  "RayQueryGetWorldRayDirectionKHR", "RayQueryGetWorldRayOriginKHR", "RayQueryGetIntersectionObjectToWorldKHR",
  "RayQueryGetIntersectionWorldToObjectKHR", "AtomicFAddEXT", "ArithmeticFenceEXT", "GroupIMulKHR", "GroupFMulKHR",
  "GroupBitwiseAndKHR", "GroupBitwiseOrKHR", "GroupBitwiseXorKHR", "GroupLogicalAndKHR", "GroupLogicalOrKHR",
  "GroupLogicalXorKHR"}

\* instructions whose placement depends on context the opcode alone does not give
\* (module scope or block scope): outside the loader claim when they occur outside a block
ContextDependentNames == {"ExtInst", "ExtInstWithForwardRefsKHR", "UntypedVariableKHR"}

OpName(op) == Inst(op).name
IsVendor(op) == op >= 4160 /\ OpName(op) \notin HighCoreNames /\ OpName(op) \notin KhrExtNames

\* 2.4 Logical Layout of a Module: the section each module-level opcode class belongs to
\* (section names are the field names of the data representation)
LoaderClass(op) ==
  LET n == OpName(op) IN
  CASE n = "Capability"      -> "Cap"
    [] n = "Extension"       -> "Ext"
    [] n = "ExtInstImport"   -> "Import"
    [] n = "MemoryModel"     -> "MemModel"
    [] n = "EntryPoint"      -> "Entry"
    [] n \in {"ExecutionMode", "ExecutionModeId"} -> "ExecMode"
    [] n \in {"String", "SourceExtension", "Source", "SourceContinued"} -> "DbgStr"
    [] n \in {"Name", "MemberName"} -> "DbgName"
    [] n = "ModuleProcessed" -> "ModProc"
    [] n \in AnnotationNames -> "Annot"
    [] n \in TypeNames \cup ConstantNames -> "TypeConst"
    [] n \in LocationDebugNames -> "Line"
    [] n \in {"Variable", "Undef"} -> "VarOrUndef"
    [] n = "Function"          -> "Fn"
    [] n = "FunctionParameter" -> "Param"
    [] n = "FunctionEnd"       -> "FnEnd"
    [] n = "Label"             -> "Label"
    [] n \in TerminatorNames   -> "Term"
    [] IsVendor(op) \/ n \in ContextDependentNames -> "DontCare"
    [] OTHER -> "BlockInst"

SectionOfClass(c) ==
  CASE c = "Cap" -> "capabilities" [] c = "Ext" -> "extensions" [] c = "Import" -> "ext_inst_imports"
    [] c = "MemModel" -> "memory_model" [] c = "Entry" -> "entry_points" [] c = "ExecMode" -> "execution_modes"
    [] c = "DbgStr" -> "debug_string_source" [] c = "DbgName" -> "debug_names" [] c = "ModProc" -> "debug_module_processed"
    [] c = "Annot" -> "annotations" [] c = "TypeConst" -> "types_global_values"

ModuleLevelClasses == {"Cap", "Ext", "Import", "MemModel", "Entry", "ExecMode", "DbgStr", "DbgName", "ModProc", "Annot", "TypeConst"}

AllListedNames == TypeNames \cup ConstantNames \cup AnnotationNames \cup LocationDebugNames \cup NonLocationDebugNames
                  \cup ModuleProcessedNames \cup TerminatorNames \cup HighCoreNames \cup KhrExtNames \cup ContextDependentNames
                  \cup {"Capability", "Extension", "ExtInstImport", "MemoryModel", "EntryPoint", "ExecutionMode",
                        "ExecutionModeId", "Variable", "Undef", "Function", "FunctionParameter", "FunctionEnd", "Label"}
DeclaredNames == { G.insts[k].name : k \in DOMAIN G.insts }
AllNamesExist == AllListedNames \subseteq DeclaredNames
=============================================================================
