------------------------------ MODULE Storage ------------------------------
(***************************************************************************)
(* Specification of rspirv::sr::storage::Storage (property C19): a dense,  *)
(* append-only value list addressed by tokens.  Eq is the element type's   *)
(* equality, which need not be reflexive (the value "nan" is unequal to    *)
(* itself, like f64::NAN).                                                 *)
(***************************************************************************)
EXTENDS Integers, Sequences, FiniteSets

Eq(x, y) == x = y /\ x # "nan"

\* [data', tok]: outcome of the two operations on the value list `data'
AppendOp(data, v) == [data |-> Append(data, v), tok |-> Len(data)]          \* "the n-th appended value has index n-1"
FetchOrAppend(data, v) ==
  LET hits == {i \in 1..Len(data) : Eq(data[i], v)} IN
  IF hits # {} THEN [data |-> data, tok |-> (CHOOSE i \in hits : \A j \in hits : i <= j) - 1]   \* the FIRST equal value
  ELSE AppendOp(data, v)
Apply(data, op, v) == IF op = "append" THEN AppendOp(data, v) ELSE FetchOrAppend(data, v)
Lookup(data, tok) == data[tok + 1]
=============================================================================
