------------------------------ MODULE Storage ------------------------------
(***************************************************************************)
(* Specification of rspirv::sr::storage::Storage (property C19): a dense,  *)
(* append-only value list addressed by tokens.  Values are records         *)
(* [k, t, m]: an equality class k, a tag t that makes equal values         *)
(* distinguishable (+0.0 / -0.0), and the element type's equality mode m:  *)
(*   "std"      equal iff same class (tags ignored)                        *)
(*   "nan"      unequal to everything, itself included (f64::NAN)          *)
(*   "difftag"  equal iff same class and DIFFERENT tag (an arbitrary,      *)
(*              non-reflexive equality)                                    *)
(*   "near"     equal iff the tags (numbers) differ by at most 1: a        *)
(*              reflexive, symmetric, NON-TRANSITIVE equality              *)
(***************************************************************************)
EXTENDS Integers, Sequences, FiniteSets

Eq(x, y) == IF x.m = "near" THEN x.t - y.t <= 1 /\ y.t - x.t <= 1
            ELSE /\ x.m # "nan" /\ y.m # "nan" /\ x.k = y.k
                 /\ (x.m = "difftag" => x.t # y.t)

\* [data', tok]: outcome of the two operations on the value list `data'
AppendOp(data, v) == [data |-> Append(data, v), tok |-> Len(data)]          \* "the n-th appended value has index n-1"
FetchOrAppend(data, v) ==
  \* "returns the token of the first stored value equal to the argument when one exists" (stored d, argument v: d == v)
  LET hits == {i \in 1..Len(data) : Eq(data[i], v)} IN
  IF hits # {} THEN [data |-> data, tok |-> (CHOOSE i \in hits : \A j \in hits : i <= j) - 1]
  ELSE AppendOp(data, v)
Apply(data, op, v) == IF op = "append" THEN AppendOp(data, v) ELSE FetchOrAppend(data, v)
\* a lookup yields the STORED value itself (its tag included), not merely an equal one
Lookup(data, tok) == data[tok + 1]
=============================================================================
