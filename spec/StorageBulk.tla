---------------------------- MODULE StorageBulk ----------------------------
(***************************************************************************)
(* Storage.tla at scale (C19): "Token indices are dense in insertion       *)
(* order, so the n-th appended value has index n-1" for storages far       *)
(* larger than any bounded model enumerates (beyond 2^16 values).          *)
(* The value list of a storage that received the DISTINCT values           *)
(* 0, 1, 2, ... in this order is BulkData(n); on such lists the two        *)
(* operations reduce to arithmetic on the counter n (BulkApply).  That     *)
(* this reduction is Storage!Apply itself is checked by TLC on small n     *)
(* (MC_StorageBulk: Refines); the trace specification StorageBulkTrace     *)
(* then validates recorded runs of 10^5 operations with the counter alone. *)
(***************************************************************************)
EXTENDS Storage

Filler(i) == [k |-> i, t |-> 0, m |-> "std"]                \* the number i: equal to itself only
BulkData(n) == [i \in 1..n |-> Filler(i - 1)]

\* append of the next number / fetch_or_append of any number v <= n, on BulkData(n)
BulkApply(n, op, v) == IF op = "append" \/ v >= n THEN [n |-> n + 1, tok |-> n] ELSE [n |-> n, tok |-> v]

Refines(n) ==
  /\ \A op \in {"append", "fetch_or_append"}, v \in 0..n :
       (op = "append" => v = n) =>
         LET r == Apply(BulkData(n), op, Filler(v))
             b == BulkApply(n, op, v)
         IN r.data = BulkData(b.n) /\ r.tok = b.tok
  /\ \A t \in 0..(n - 1) : Lookup(BulkData(n), t) = Filler(t)
=============================================================================
