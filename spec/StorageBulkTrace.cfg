SPECIFICATION Spec
INVARIANT Report
CHECK_DEADLOCK FALSE
