------------------------- MODULE StorageBulkTrace -------------------------
(* Trace validation of LONG runs on a real Storage<u32> (C19 at scale): runs of appends of the next numbers and of
   fetch_or_append of stored / new numbers.  Observations are run-length encoded WITHOUT loss by the harness:
     toks    : the indices of the returned tokens, in call order, as maximal runs <<length, first index>> of consecutive indices
     lookups : the numbers found through ALL tokens handed out since "bnew", in hand-out order, as maximal runs
   The specification state is the counter of StorageBulk (cnt) and the run-length encoding of what every token handed
   out so far must yield (hand).  code 1 = disagreement, 5 = panic, 8 = a run the generator must not produce. *)
EXTENDS Integers, Sequences, FiniteSets, TLC, Json, IOUtils, StorageBulk
Rec == ndJsonDeserialize(IOEnv.TRACE)
VARIABLES l, bad, cnt, hand
vars == <<l, bad, cnt, hand>>

\* maximal runs: a run that continues the last one is merged into it
PushRun(h, len, first) ==
  IF len = 0 THEN h
  ELSE IF Len(h) > 0 /\ h[Len(h)][2] + h[Len(h)][1] = first THEN [h EXCEPT ![Len(h)] = <<h[Len(h)][1] + len, h[Len(h)][2]>>]
  ELSE Append(h, <<len, first>>)

Init == l = 1 /\ bad = <<>> /\ cnt = 0 /\ hand = <<>>
New == /\ l <= Len(Rec) /\ Rec[l].ev = "bnew" /\ cnt' = 0 /\ hand' = <<>> /\ l' = l + 1 /\ UNCHANGED bad
RunEv == /\ l <= Len(Rec) /\ Rec[l].ev = "brun"
         /\ LET e == Rec[l]
                len == e.to - e.from
                \* every number of the run is new (the next numbers) or every number is stored already
                fresh == e.op = "append" \/ e.from >= cnt
                wellFormed == len >= 0 /\ e.from >= 0 /\ (fresh => e.from = cnt) /\ (~fresh => e.to <= cnt)
                \* BulkApply, len times: new numbers get the next indices, stored numbers their own
                first == IF fresh THEN cnt ELSE e.from
                hand2 == PushRun(hand, len, first)
                ok == /\ e.st = "ok"
                      /\ e.toks = PushRun(<<>>, len, first)
                      /\ e.lookups = hand2       \* the number i is found through every token of index i
                code == IF ~wellFormed THEN 8 ELSE IF e.st = "panic" THEN 5 ELSE IF ok THEN 0 ELSE 1
            IN /\ bad' = IF code = 0 THEN bad ELSE (IF Len(bad) >= 5000 THEN bad ELSE Append(bad, <<l, code>>))
               /\ cnt' = IF wellFormed /\ fresh THEN cnt + len ELSE cnt
               /\ hand' = IF wellFormed THEN hand2 ELSE hand
         /\ l' = l + 1
Next == New \/ RunEv
Spec == Init /\ [][Next]_vars
Done == l = Len(Rec) + 1
Report == Done => PrintT(<<"TRACE-RESULT", Len(Rec), bad>>)
=============================================================================
