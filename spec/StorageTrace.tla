--------------------------- MODULE StorageTrace ---------------------------
(* Trace validation for Storage (C19): every recorded append / fetch_or_append of a real
   Storage<f64> / Storage<String> must return the token Storage.tla prescribes, and lookups
   through ALL tokens handed out so far must yield the specification's values. *)
EXTENDS Integers, Sequences, FiniteSets, TLC, Json, IOUtils, Storage
Rec == ndJsonDeserialize(IOEnv.TRACE)
VARIABLES l, bad, data, toks
vars == <<l, bad, data, toks>>
Init == l = 1 /\ bad = <<>> /\ data = <<>> /\ toks = <<>>
New == /\ l <= Len(Rec) /\ Rec[l].ev = "snew" /\ data' = <<>> /\ toks' = <<>> /\ l' = l + 1 /\ UNCHANGED bad
Call == /\ l <= Len(Rec) /\ Rec[l].ev = "scall"
        /\ LET e == Rec[l]
               r == Apply(data, e.op, e.v)
               toks2 == Append(toks, r.tok)
               ok == /\ e.st = "ok" /\ e.tok = r.tok
                     /\ Len(e.lookups) = Len(toks2)
                     /\ \A i \in 1..Len(toks2) : e.lookups[i] = Lookup(r.data, toks2[i])
           IN /\ bad' = IF ok THEN bad ELSE (IF Len(bad) >= 5000 THEN bad ELSE Append(bad, <<l, IF e.st = "panic" THEN 5 ELSE 1>>))
              /\ data' = r.data /\ toks' = toks2
        /\ l' = l + 1
Next == New \/ Call
Spec == Init /\ [][Next]_vars
Done == l = Len(Rec) + 1
Report == Done => PrintT(<<"TRACE-RESULT", Len(Rec), bad>>)
=============================================================================
