SPECIFICATION Spec
INVARIANT Report
INVARIANT AnchorsAgree
CHECK_DEADLOCK FALSE
