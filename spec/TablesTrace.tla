---------------------------- MODULE TablesTrace ----------------------------
(***************************************************************************)
(* Trace validation for the generated tables (C08, C09, C17).              *)
(* Three sources are compared: (a) the pinned grammar snapshot G           *)
(* (GrammarData.json), (b) what the current tree DOES (events recorded by  *)
(* the harness through the public API: from_u32 / from_bits over the whole *)
(* 32-bit range, FromStr, lookups, reflection), (c) what the current       *)
(* tree's sources DECLARE (live_decl.json, the textual enum / bitflags     *)
(* declarations) -- plus the hand-transcribed anchors of SpecFacts.        *)
(* code 1 = disagreement, 5 = panic.                                       *)
(***************************************************************************)
EXTENDS Integers, Sequences, FiniteSets, TLC, Json, IOUtils, SpecFacts

Rec == ndJsonDeserialize(IOEnv.TRACE)
Decl == JsonDeserialize(IOEnv.DECL)
MaskNames == JsonDeserialize(IOEnv.DISASMNAMES)     \* printed name of every mask bit (spec/DisasmNames.json, pinned)
VARIABLES l, bad
vars == <<l, bad>>

ToSet(s) == { s[j] : j \in 1..Len(s) }
KeyOfInt(n) == IF n < 65536 THEN ToString(n) ELSE ToString(n \div 65536) \o ":" \o ToString(n % 65536)
WordOfInt(n) == <<n \div 65536, n % 65536>>

---------------------------------------------------------------------------
(* C08 *)
DeclaredKeys(k) == DOMAIN G.kinds[k].values
Small(iv) == iv[1][1] = iv[2][1] /\ iv[2][2] - iv[1][2] <= 70000
KeysOfIntervals(ivs) == UNION { { Key(<<ivs[j][1][1], x>>) : x \in ivs[j][1][2]..ivs[j][2][2] } : j \in 1..Len(ivs) }
TextValues(k) == { KeyOfInt(Decl.enums[k].values[j][2]) : j \in 1..Len(Decl.enums[k].values) }
TextNames(k) == { <<Decl.enums[k].values[j][1], KeyOfInt(Decl.enums[k].values[j][2])>> : j \in 1..Len(Decl.enums[k].values) }

\* "converting a 32-bit number yields a value iff the number is one of the enumeration's declared
\*  discriminants, and the value converts back to the same number"
SweepOK(e) ==
  /\ e.back_bad = <<>>
  /\ \A j \in 1..Len(e.intervals) : Small(e.intervals[j])
  /\ KeysOfIntervals(e.intervals) = DeclaredKeys(e.kind)       \* accepted set = pinned declared set
  /\ TextValues(e.kind) = DeclaredKeys(e.kind)                 \* = the discriminants the source declares
  \* no duplicate discriminants in the declaration
  /\ Cardinality(TextValues(e.kind)) = Len(Decl.enums[e.kind].values)

\* "the textual name of every value parses back to that value"
NameOK(e) ==
  LET key == Key(e.value) IN
  /\ key \in DeclaredKeys(e.kind)
  /\ G.kinds[e.kind].values[key].name = e.debug
  /\ <<e.debug, key>> \in TextNames(e.kind)
  /\ e.variant_value = <<e.value>>
  /\ (e.has_fromstr => e.parsed = <<e.value>>)
\* "every declared alias parses to the value it aliases"
AliasOK(e) ==
  /\ Len(e.value) = 1
  /\ LET key == Key(e.value[1]) IN
       /\ key \in DeclaredKeys(e.kind)
       /\ e.alias \in ToSet(G.kinds[e.kind].values[key].aliases)
       /\ G.kinds[e.kind].values[key].name = e.target
  /\ (e.has_fromstr => e.parsed = e.value)
NearMissOK(e) == e.parsed = <<>>

\* "For every bit-mask type a 32-bit number is accepted iff all of its set bits are declared"
RECURSIVE OrAll(_, _)
OrAll(ws, j) == IF j > Len(ws) THEN Zero ELSE OrWord(ws[j], OrAll(ws, j + 1))
MaskOK(e) ==
  LET k == e.kind
      pinnedBits == [j \in 1..Len(G.kinds[k].bits) |-> G.kinds[k].bits[j].bit]
      textConsts == Decl.masks[k]
  IN
  /\ e.all = G.kinds[k].all /\ e.all = OrAll(pinnedBits, 1)
  /\ e.accepted_or = e.all                       \* every declared bit is accepted (alone and together)
  /\ e.bad_accept = <<>> /\ e.bad_reject = <<>> /\ e.bad_back = <<>>
  \* the declared constants: same names and values as the source text and as the snapshot
  /\ Len(e.consts) = Len(textConsts)
  /\ \A j \in 1..Len(e.consts) :
       /\ e.consts[j].name = textConsts[j][1]
       /\ e.consts[j].value = <<e.consts[j].decl>>
       /\ e.consts[j].decl = WordOfInt(textConsts[j][2])
       /\ SubMask(e.consts[j].decl, e.all)
       /\ (IsSingleBit(e.consts[j].decl) =>
             \E b \in 1..Len(G.kinds[k].bits) : G.kinds[k].bits[b].bit = e.consts[j].decl /\ e.consts[j].name \in ToSet(G.kinds[k].bits[b].names))
  /\ e.all = OrAll([j \in 1..Len(e.consts) |-> e.consts[j].decl], 1)
  \* the printed name of every declared bit is the pinned one; the empty mask prints as pinned ("None")
  /\ e.disas = MaskNames[k].bits /\ e.disas_zero = MaskNames[k].zero

---------------------------------------------------------------------------
(* C09 *)
TableOf(t) == G[t]
DeclaredOpcodes(t) == { TableOf(t)[k].opcode : k \in DOMAIN TableOf(t) }
\* "at most one result type immediately followed by at most one result id at the front, no
\*  required operand after an optional one, a variadic operand only last"
WellFormed(ops) ==
  LET n == Len(ops) IN
  /\ \A j \in 1..n : ops[j].k = "IdResultType" => j = 1
  /\ \A j \in 1..n : ops[j].k = "IdResult" => (j = 1 \/ (j = 2 /\ ops[1].k = "IdResultType"))
  /\ \A j \in 1..n : ops[j].k \in {"IdResultType", "IdResult"} => ops[j].q = "One"
  /\ \A i, j \in 1..n : (i < j /\ ops[i].q # "One") => ops[j].q # "One"
  /\ \A j \in 1..n : ops[j].q = "ZeroOrMore" => j = n
LookupOK(e) == e.wrong = <<>> /\ ToSet(e.found) = DeclaredOpcodes(e.table) /\ Len(e.found) = Cardinality(ToSet(e.found))
GetOK(e) ==
  /\ e.from_u32
  /\ ToString(e.n) \in DOMAIN TableOf(e.table)
  /\ e.get = <<e.n, TableOf(e.table)[ToString(e.n)].name>>      \* "looking up by opcode value never fails"
  /\ e.op_debug = TableOf(e.table)[ToString(e.n)].name
IterOK(e) == Cardinality(ToSet(e.opcodes)) = Len(e.opcodes) /\ ToSet(e.opcodes) = DeclaredOpcodes(e.table)
EntryOK(e) ==
  LET en == e.entry  key == ToString(en.opcode) IN
  /\ key \in DOMAIN TableOf(e.table)
  \* name, opcode, operand kinds and quantifiers in order; capabilities and extensions as SETS (the grammar lists
  \* alternatives, their order carries no meaning)
  /\ LET g == TableOf(e.table)[key] IN
       /\ en.name = g.name /\ en.opcode = g.opcode /\ en.ops = g.ops
       /\ ToSet(en.caps) = ToSet(g.caps) /\ ToSet(en.exts) = ToSet(g.exts)
       /\ DOMAIN en = DOMAIN g
  /\ WellFormed(en.ops)
  /\ \A j \in 1..Len(en.ops) : en.ops[j].k \in Kinds /\ en.ops[j].q \in {"One", "ZeroOrOne", "ZeroOrMore"}
  /\ (e.table = "insts" /\ en.name \in DOMAIN InstAnchors =>
        /\ en.opcode = InstAnchors[en.name][1]
        /\ [j \in 1..Len(en.ops) |-> <<en.ops[j].k, en.ops[j].q>>] = InstAnchors[en.name][2])

---------------------------------------------------------------------------
(* C17 *)
Count(s, x) == Cardinality({j \in 1..Len(s) : s[j] = x})
SameBag(a, b) == Len(a) = Len(b) /\ \A j \in 1..Len(a) : Count(a, a[j]) = Count(b, a[j])
RECURSIVE BitsCaps(_, _, _, _)
BitsCaps(k, w, j, field) ==
  IF j > Len(G.kinds[k].bits) THEN {}
  ELSE (IF HasBit(w, G.kinds[k].bits[j].bit) THEN ToSet(G.kinds[k].bits[j][field]) ELSE {}) \cup BitsCaps(k, w, j + 1, field)
ReflectOK(e) ==
  IF e.cat = "ValueEnum"
  THEN LET v == G.kinds[e.kind].values IN
       /\ e.key \in DOMAIN v
       /\ e.params = v[e.key].params           \* "the same sequence for an enumerant"
       /\ ToSet(e.caps) = ToSet(v[e.key].caps) /\ ToSet(e.exts) = ToSet(v[e.key].exts)
  ELSE /\ IsDeclaredMask(e.kind, e.value)
       /\ SameBag(e.params, MaskParams(e.kind, e.value))        \* "the same multiset for a bit-mask"
       /\ ToSet(e.caps) = (IF e.value = Zero THEN ToSet(e.caps) ELSE BitsCaps(e.kind, e.value, 1, "caps"))
       /\ ToSet(e.exts) = (IF e.value = Zero THEN ToSet(e.exts) ELSE BitsCaps(e.kind, e.value, 1, "exts"))
IdKinds == {"IdRef", "IdScope", "IdMemorySemantics"}
OperandOK(e) ==
  /\ e.st = "ok"
  \* "An operand reports an id exactly when it is one of the three id kinds"
  /\ (e.variant \in IdKinds => e.id_ref_any = <<e.payload[1]>> /\ e.id_ref_any_mut)
  /\ (e.variant \notin IdKinds => e.id_ref_any = <<>> /\ ~e.id_ref_any_mut)
  \* "rewriting that id changes exactly the corresponding word of the assembled instruction"
  \*   instruction = first word, result type, result id, a literal, THE OPERAND, a literal: word index 4
  /\ (e.variant \in IdKinds => e.changed_words = <<4>> /\ e.after[5] = <<85, 21845>>)
  /\ (e.variant \notin IdKinds => e.changed_words = <<>>)
  \* "converting a payload into an operand and extracting it again returns the payload"
  /\ e.from_ok /\ e.unwrap_ok

---------------------------------------------------------------------------
Code(e) ==
  IF "st" \in DOMAIN e /\ e.st = "panic" THEN 5
  ELSE IF CASE e.ev = "sweep" -> SweepOK(e) [] e.ev = "name" -> NameOK(e) [] e.ev = "alias" -> AliasOK(e)
            [] e.ev = "nearmiss" -> NearMissOK(e) [] e.ev = "mask" -> MaskOK(e)
            [] e.ev = "lookup" -> LookupOK(e) [] e.ev = "get" -> GetOK(e) [] e.ev = "iter" -> IterOK(e) [] e.ev = "entry" -> EntryOK(e)
            [] e.ev = "interleaved" -> e.mismatches = <<>>      \* a lookup is a function of (table, number) alone
            [] e.ev = "reflect" -> ReflectOK(e) [] e.ev = "operand" -> OperandOK(e)
            [] OTHER -> TRUE
       THEN 0 ELSE 1

Init == l = 1 /\ bad = <<>>
Next == /\ l <= Len(Rec)
        /\ LET c == Code(Rec[l]) IN bad' = IF c = 0 THEN bad ELSE (IF Len(bad) >= 5000 THEN bad ELSE Append(bad, <<l, c>>))
        /\ l' = l + 1
Spec == Init /\ [][Next]_vars
Done == l = Len(Rec) + 1
Report == Done => PrintT(<<"TRACE-RESULT", Len(Rec), bad>>)

\* static agreement of the pinned snapshot with the hand-transcribed anchors (checked once, in the initial state)
AnchorsAgree ==
  /\ AllNamesExist
  /\ \A n \in DOMAIN InstAnchors :
       /\ n \in DeclaredNames
       /\ LET en == Inst(InstAnchors[n][1]) IN
            en.name = n /\ [j \in 1..Len(en.ops) |-> <<en.ops[j].k, en.ops[j].q>>] = InstAnchors[n][2]
  /\ \A a \in EnumAnchors : LET key == ToString(a[3]) IN
       key \in DOMAIN G.kinds[a[1]].values /\ G.kinds[a[1]].values[key].name = a[2]
  /\ \A a \in MaskAnchors : \E b \in 1..Len(G.kinds[a[1]].bits) :
       G.kinds[a[1]].bits[b].bit = <<0, a[3]>> /\ a[2] \in ToSet(G.kinds[a[1]].bits[b].names)
=============================================================================
