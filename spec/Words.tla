------------------------------- MODULE Words -------------------------------
(***************************************************************************)
(* 32-bit SPIR-V words as pairs <<hi16, lo16>> (TLC integers are 32-bit    *)
(* signed), little-endian byte packing, literal strings, UTF-8.            *)
(* Everything here is transcribed from the SPIR-V specification, sections  *)
(* 2.2.1 (word, literal string), 2.3 (physical layout) and from RFC 3629.  *)
(***************************************************************************)
EXTENDS Naturals, Sequences, FiniteSets, Bitwise

Half == 0..65535
Byte == 0..255

\* little endian: b[1] is the least significant byte
WordOfBytes(b) == << b[3] + 256 * b[4], b[1] + 256 * b[2] >>
BytesOfWord(w) == << w[2] % 256, w[2] \div 256, w[1] % 256, w[1] \div 256 >>

\* first word of an instruction: (word count << 16) | opcode
FirstWord(wc, opcode) == << wc, opcode >>
WordCountOf(w) == w[1]
OpcodeOf(w)    == w[2]

Zero == <<0, 0>>
MagicWord   == <<1827, 515>>       \* 0x07230203
SwappedMagic == <<770, 8967>>      \* 0x03022307

\* (w & ~all) = 0  <=>  every set bit of w is a bit of all
SubMask(w, all) == /\ (w[1] & (65535 - all[1])) = 0
                   /\ (w[2] & (65535 - all[2])) = 0
HasBit(w, bit)  == \/ (w[1] & bit[1]) # 0
                   \/ (w[2] & bit[2]) # 0
IsSingleBit(w)  == \E k \in 0..15 : w = <<0, 2^k>> \/ w = <<2^k, 0>>
OrWord(a, b)    == << a[1] | b[1], a[2] | b[2] >>
\* numeric order on words
WordLess(a, b)  == a[1] < b[1] \/ (a[1] = b[1] /\ a[2] < b[2])

RECURSIVE FlattenBytes(_)
FlattenBytes(ws) == IF ws = <<>> THEN <<>> ELSE BytesOfWord(Head(ws)) \o FlattenBytes(Tail(ws))

\* A literal string: UTF-8 bytes, NUL terminated, zero padded to a word boundary.
\* A string whose length is a multiple of 4 gets one extra all-zero word.
PadLen(n) == 4 - (n % 4)
PackString(bs) ==
  LET p == bs \o [i \in 1..PadLen(Len(bs)) |-> 0]
  IN  [w \in 1..(Len(p) \div 4) |-> WordOfBytes(SubSeq(p, 4*w - 3, 4*w))]
StringWords(n) == (n \div 4) + 1      \* words taken by a string of n bytes

\* position (1-based) of the first 0 in bs at or after position from, or 0 if none
RECURSIVE FirstNulFrom(_, _, _)
FirstNulFrom(bs, i, last) ==
  IF i > last THEN 0 ELSE IF bs[i] = 0 THEN i ELSE FirstNulFrom(bs, i + 1, last)

Cont(b) == b >= 128 /\ b <= 191
\* RFC 3629 well-formed byte sequences; bs is a sequence of bytes, checked on i..last
RECURSIVE Utf8From(_, _, _)
Utf8From(bs, i, last) ==
  IF i > last THEN TRUE
  ELSE LET b == bs[i]
           has(k) == i + k <= last
       IN
       IF b <= 127 THEN Utf8From(bs, i + 1, last)
       ELSE IF b >= 194 /\ b <= 223
            THEN has(1) /\ Cont(bs[i+1]) /\ Utf8From(bs, i + 2, last)
       ELSE IF b = 224
            THEN has(2) /\ bs[i+1] >= 160 /\ bs[i+1] <= 191 /\ Cont(bs[i+2]) /\ Utf8From(bs, i + 3, last)
       ELSE IF (b >= 225 /\ b <= 236) \/ b = 238 \/ b = 239
            THEN has(2) /\ Cont(bs[i+1]) /\ Cont(bs[i+2]) /\ Utf8From(bs, i + 3, last)
       ELSE IF b = 237
            THEN has(2) /\ bs[i+1] >= 128 /\ bs[i+1] <= 159 /\ Cont(bs[i+2]) /\ Utf8From(bs, i + 3, last)
       ELSE IF b = 240
            THEN has(3) /\ bs[i+1] >= 144 /\ bs[i+1] <= 191 /\ Cont(bs[i+2]) /\ Cont(bs[i+3]) /\ Utf8From(bs, i + 4, last)
       ELSE IF b >= 241 /\ b <= 243
            THEN has(3) /\ Cont(bs[i+1]) /\ Cont(bs[i+2]) /\ Cont(bs[i+3]) /\ Utf8From(bs, i + 4, last)
       ELSE IF b = 244
            THEN has(3) /\ bs[i+1] >= 128 /\ bs[i+1] <= 143 /\ Cont(bs[i+2]) /\ Cont(bs[i+3]) /\ Utf8From(bs, i + 4, last)
       ELSE FALSE
ValidUtf8(bs) == Utf8From(bs, 1, Len(bs))

Min2(a, b) == IF a <= b THEN a ELSE b
Max2(a, b) == IF a >= b THEN a ELSE b
=============================================================================
