---------------------------- MODULE BuilderIds ----------------------------
(***************************************************************************)
(* The id counter of Builder.tla for an UNBOUNDED inductive argument       *)
(* (Apalache), C13: for every history of id-allocating calls - fresh ids,  *)
(* calls that fail after reserving an id, calls with an explicit id,       *)
(* starting at 1 or at the bound of an existing module - every fresh id is *)
(* larger than all earlier ones and the bound a finished module gets       *)
(* (the counter) exceeds every allocated id.  MC_Builder checks the same   *)
(* on all call sequences within small bounds; this removes the bound.      *)
(***************************************************************************)
EXTENDS Integers

VARIABLES
  \* @type: Int;
  next,      \* the next id that would be allocated (= header bound of the finished module)
  \* @type: Int;
  maxFresh,  \* the largest id handed out so far (0: none)
  \* @type: Int;
  last       \* the id handed out by the most recent allocating call (0: the call allocated nothing)

Init == /\ next \in Int /\ next >= 1            \* 1 for a new builder, the header bound when continuing a module
        /\ maxFresh = 0 /\ last = 0
\* a call that allocates a fresh id (id(), or an instruction emitted without an explicit id)
Fresh == last' = next /\ maxFresh' = next /\ next' = next + 1
\* a call that fails: it may have reserved (burnt) an id, which is then never handed out
FailBurn == last' = 0 /\ UNCHANGED maxFresh /\ (next' = next \/ next' = next + 1)
\* a call with an explicit id, a deduplicated type request, a call that allocates nothing
NoAlloc == last' = 0 /\ UNCHANGED <<next, maxFresh>>
Next == Fresh \/ FailBurn \/ NoAlloc

IndInv == next >= 1 /\ maxFresh >= 0 /\ maxFresh < next /\ last >= 0 /\ last <= maxFresh
IndInit == next \in Int /\ maxFresh \in Int /\ last \in Int /\ IndInv
\* "the finished module's header bound equals the next id that would have been allocated, hence exceeds every allocated id"
Safety == maxFresh < next /\ last <= maxFresh
\* "pairwise distinct and strictly increasing": a fresh id is larger than every earlier one (action property, checked
\* as an invariant of the step: see StepInv with --length=1)
=============================================================================
