----------------------------- MODULE BuilderSel -----------------------------
(***************************************************************************)
(* The selection automaton of Builder.tla (property C12) over counters,    *)
(* for an UNBOUNDED inductive argument (Apalache): for call histories of   *)
(* ANY length over modules with ANY number of functions and blocks,        *)
(*   "the function/block selection always designates an existing function  *)
(*    and block or nothing"                                                *)
(* when every call fails exactly when Builder!MustFail says and selects    *)
(* what Builder!SelectionAfter admits.  State: number of functions, the    *)
(* selected function (-1 = none), the number of blocks of the SELECTED     *)
(* function (the other functions' block counts are arbitrary: selecting a  *)
(* function draws any count), the selected block (-1 = none).              *)
(* MC_Builder checks SelectionValid with full modules up to 2 functions x  *)
(* 2 blocks; this module removes the bounds for the selection part.        *)
(***************************************************************************)
EXTENDS Integers

VARIABLES
  \* @type: Int;
  nF,
  \* @type: Int;
  selF,
  \* @type: Int;
  nbSel,
  \* @type: Int;
  selB

Init == nF \in Nat /\ selF = -1 /\ nbSel = 0 /\ selB = -1      \* Builder::new (nF = 0) or new_from_module (any nF)

Same == UNCHANGED <<nF, selF, nbSel, selB>>
\* a failing call leaves everything as it was (MC_Builder!Fail)
BeginFunction == IF selF # -1 THEN Same ELSE nF' = nF + 1 /\ selF' = nF /\ nbSel' = 0 /\ selB' = selB
EndFunction   == IF selF = -1 THEN Same ELSE selF' = -1 /\ selB' = -1 /\ nbSel' = 0 /\ UNCHANGED nF
BeginBlock    == IF selF = -1 \/ selB # -1 THEN Same ELSE nbSel' = nbSel + 1 /\ selB' = nbSel /\ UNCHANGED <<nF, selF>>
Terminator    == IF selB = -1 THEN Same ELSE selB' = -1 /\ UNCHANGED <<nF, selF, nbSel>>
Other         == Same                                         \* block instructions, parameters, module-level calls, pop, id
SelectFunction == \E i \in Int :
                    IF i >= 0 /\ ~(i < nF) THEN Same           \* an index that designates nothing is refused
                    ELSE IF i < 0 THEN selF' = -1 /\ selB' = -1 /\ nbSel' = 0 /\ UNCHANGED nF      \* select_function(None)
                    ELSE \E c \in Nat :                        \* the newly selected function has c blocks
                           /\ selF' = i /\ nbSel' = c /\ UNCHANGED nF
                           /\ (selB' = -1 \/ (selB # -1 /\ selB < c /\ selB' = selB))
SelectBlock   == \E i \in Int :
                    IF i >= 0 /\ (selF = -1 \/ ~(i < nbSel)) THEN Same
                    ELSE selB' = (IF i < 0 THEN -1 ELSE i) /\ UNCHANGED <<nF, selF, nbSel>>
Next == BeginFunction \/ EndFunction \/ BeginBlock \/ Terminator \/ Other \/ SelectFunction \/ SelectBlock

\* Builder!SelectionValid
Safety == /\ (selF # -1 => selF >= 0 /\ selF < nF)
          /\ (selB # -1 => selF # -1 /\ selB >= 0 /\ selB < nbSel)
IndInv == nF >= 0 /\ nbSel >= 0 /\ selF >= -1 /\ selB >= -1 /\ Safety
IndInit == nF \in Int /\ selF \in Int /\ nbSel \in Int /\ selB \in Int /\ IndInv
=============================================================================
