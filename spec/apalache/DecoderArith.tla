---------------------------- MODULE DecoderArith ----------------------------
(***************************************************************************)
(* The offset / limit arithmetic of Decoder.tla without the bytes, for an  *)
(* UNBOUNDED inductive argument (Apalache): for every buffer length, limit *)
(* and request sequence the offset stays inside the buffer on a word       *)
(* boundary and no more words are consumed than the most recent limit      *)
(* allows (C11), and every request has an outcome (the disjuncts of Next   *)
(* cover all states, C04).  A request's data-dependent choices (where the  *)
(* NUL is, whether a value is declared) are nondeterministic here.         *)
(***************************************************************************)
EXTENDS Integers

VARIABLES
  \* @type: Int;
  len,
  \* @type: Int;
  off,
  \* @type: Int;
  lim,
  \* @type: Int;
  budget

NoLimit == -1
Dec(l, k) == IF l = NoLimit THEN NoLimit ELSE l - k

Init == /\ len \in Nat /\ off = 0 /\ lim = NoLimit /\ budget = NoLimit

\* one raw word (word / id / bit32 / typed requests)
WordOk == /\ lim # 0 /\ off + 4 <= len
          /\ off' = off + 4 /\ lim' = Dec(lim, 1) /\ budget' = Dec(budget, 1) /\ UNCHANGED len
WordFail == /\ (lim = 0 \/ off + 4 > len)
            /\ off' = off /\ UNCHANGED <<len, budget>>
            /\ (lim' = lim \/ (lim > 0 /\ lim' = lim - 1))       \* the limit may have been charged
\* a string occupying k whole words inside buffer and limit; or a failure consuming j whole words
StringOk == \E k \in 1..1000000 :
              /\ off + 4 * k <= len /\ (lim = NoLimit \/ k <= lim)
              /\ off' = off + 4 * k /\ lim' = Dec(lim, k) /\ budget' = Dec(budget, k) /\ UNCHANGED len
StringFail == \E j \in 0..1000000 : \E c \in 0..1000000 :
              /\ off + 4 * j <= len /\ (lim = NoLimit \/ (j <= lim /\ c <= lim /\ j <= c))
              /\ off' = off + 4 * j /\ lim' = Dec(lim, IF lim = NoLimit THEN 0 ELSE c) /\ budget' = Dec(budget, j) /\ UNCHANGED len
SetLimit == \E n \in 0..2000000000 : lim' = n /\ budget' = n /\ UNCHANGED <<len, off>>
ClearLimit == lim' = NoLimit /\ budget' = NoLimit /\ UNCHANGED <<len, off>>
Next == WordOk \/ WordFail \/ StringOk \/ StringFail \/ SetLimit \/ ClearLimit

\* the inductive invariant
IndInv == /\ len >= 0 /\ off >= 0 /\ off <= len /\ off % 4 = 0
          /\ lim >= NoLimit /\ budget >= NoLimit
          /\ (lim = NoLimit <=> budget = NoLimit)
          /\ (lim # NoLimit => lim <= budget)          \* charged at least as much as consumed
\* IndInv as an initial predicate (every variable assigned from Int, then constrained)
IndInit == len \in Int /\ off \in Int /\ lim \in Int /\ budget \in Int /\ IndInv
\* what C11 asks: inside the buffer, whole words, never more than the limit allows (budget never negative)
Safety == off >= 0 /\ off <= len /\ off % 4 = 0 /\ budget >= NoLimit
=============================================================================
