----------------------------- MODULE LoaderInv -----------------------------
(***************************************************************************)
(* The bracket automaton of Loader.tla (function open / block open /       *)
(* counts of closed functions and blocks) for an UNBOUNDED inductive       *)
(* argument (Apalache): for every instruction sequence of any length,      *)
(*   - an open block implies an open function (the invariant the real      *)
(*     loader's `unwrap`s rely on: C04 / C20),                             *)
(*   - loading succeeds at the end iff nothing is open (C05),              *)
(*   - every closed function owns exactly one end, every closed block      *)
(*     exactly one terminator (counted),                                   *)
(* and every instruction class has an outcome in every state (the          *)
(* disjuncts of Next cover all states).  Module-level classes never touch  *)
(* the bracket state.  MC_Loader checks the same automaton WITH module     *)
(* contents up to a bounded length; this module removes the bound for the  *)
(* structural part.                                                        *)
(***************************************************************************)
EXTENDS Integers

VARIABLES
  \* @type: Bool;
  fnOpen,
  \* @type: Bool;
  blkOpen,
  \* @type: Bool;
  failed,
  \* @type: Int;
  fns,        \* functions closed so far
  \* @type: Int;
  ends,       \* OpFunctionEnd accepted so far
  \* @type: Int;
  blks,       \* blocks closed so far
  \* @type: Int;
  terms       \* terminators accepted so far

Init == /\ fnOpen = FALSE /\ blkOpen = FALSE /\ failed = FALSE
        /\ fns = 0 /\ ends = 0 /\ blks = 0 /\ terms = 0

Keep == UNCHANGED <<fnOpen, blkOpen, fns, ends, blks, terms>>
Fail == failed' = TRUE /\ Keep
Ok(f, b) == failed' = FALSE /\ fnOpen' = f /\ blkOpen' = b

\* one step per instruction class (Loader!StepClass), enabled only while no error has been returned
ModuleLevel == ~failed /\ failed' = FALSE /\ Keep
Line        == ~failed /\ failed' = FALSE /\ Keep
VarOrUndef  == ~failed /\ (IF fnOpen /\ ~blkOpen THEN Fail ELSE failed' = FALSE /\ Keep)
Fn          == ~failed /\ (IF fnOpen THEN Fail ELSE Ok(TRUE, blkOpen) /\ UNCHANGED <<fns, ends, blks, terms>>)
FnEnd       == ~failed /\ (IF ~fnOpen \/ blkOpen THEN Fail
                           ELSE Ok(FALSE, FALSE) /\ fns' = fns + 1 /\ ends' = ends + 1 /\ UNCHANGED <<blks, terms>>)
Param       == ~failed /\ (IF ~fnOpen THEN Fail ELSE failed' = FALSE /\ Keep)
Label       == ~failed /\ (IF ~fnOpen \/ blkOpen THEN Fail ELSE Ok(fnOpen, TRUE) /\ UNCHANGED <<fns, ends, blks, terms>>)
Term        == ~failed /\ (IF ~blkOpen THEN Fail
                           ELSE Ok(fnOpen, FALSE) /\ blks' = blks + 1 /\ terms' = terms + 1 /\ UNCHANGED <<fns, ends>>)
BlockInst   == ~failed /\ (IF ~blkOpen THEN Fail ELSE failed' = FALSE /\ Keep)
Stutter     == failed /\ UNCHANGED <<fnOpen, blkOpen, failed, fns, ends, blks, terms>>
Next == ModuleLevel \/ Line \/ VarOrUndef \/ Fn \/ FnEnd \/ Param \/ Label \/ Term \/ BlockInst \/ Stutter

\* the inductive invariant
IndInv == /\ (blkOpen => fnOpen)
          /\ fns >= 0 /\ blks >= 0 /\ ends = fns /\ terms = blks
IndInit == /\ fnOpen \in BOOLEAN /\ blkOpen \in BOOLEAN /\ failed \in BOOLEAN
           /\ fns \in Int /\ ends \in Int /\ blks \in Int /\ terms \in Int /\ IndInv
\* what the properties ask of the structure
Safety == /\ (blkOpen => fnOpen)                       \* "labels occur only inside a function"; no unwrap on None
          /\ ends = fns /\ terms = blks                \* "every function owns its ... ending instruction", "every block is closed by exactly one ..."
\* finalize: success iff nothing is open
FinalizeOk == ~failed /\ ~fnOpen /\ ~blkOpen
=============================================================================
