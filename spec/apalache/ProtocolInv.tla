---------------------------- MODULE ProtocolInv ----------------------------
(***************************************************************************)
(* The consumer protocol of MC_Protocol (property C14) with the callback   *)
(* log reduced to counters, for an UNBOUNDED inductive argument            *)
(* (Apalache): for a binary of ANY number n of well-formed instructions,   *)
(* any fault class and any consumer,                                       *)
(*   - initialize, header and finalize are called at most once, in this    *)
(*     order, and exactly k <= n instruction callbacks lie between header  *)
(*     and finalize,                                                       *)
(*   - finalize is called only when there is no fault and all n            *)
(*     instructions were delivered,                                        *)
(*   - after an answer other than continue no callback is made and the     *)
(*     result is the consumer's (stop-requested / consumer-error),         *)
(*   - a header fault or a malformed instruction ends the parse without    *)
(*     finalize.                                                           *)
(* MC_Protocol checks the same sentences with the full log for n <= 3 (4). *)
(***************************************************************************)
EXTENDS Integers

VARIABLES
  \* @type: Int;
  n,          \* well-formed instructions before the fault / the end
  \* @type: Str;
  fault,      \* "none", "header" (short / bad / swapped magic), "malformed" (instruction n+1)
  \* @type: Str;
  pc,
  \* @type: Int;
  k,          \* instruction callbacks made
  \* @type: Int;
  cInit,      \* initialize callbacks made
  \* @type: Int;
  cHdr,
  \* @type: Int;
  cFin,
  \* @type: Bool;
  refused,    \* some callback was answered with stop / error
  \* @type: Int;
  after,      \* callbacks made after a refusing answer (must stay 0)
  \* @type: Str;
  result

Faults == {"none", "header", "malformed"}
Pcs == {"initialize", "parse-header", "consume-header", "parse-inst", "consume-inst", "finalize", "done"}
Results == {"none", "complete", "stop-requested", "consumer-error", "header-error", "parse-error"}

Init == /\ n \in Nat /\ fault \in Faults
        /\ pc = "initialize" /\ k = 0 /\ cInit = 0 /\ cHdr = 0 /\ cFin = 0
        /\ refused = FALSE /\ after = 0 /\ result = "none"

\* one callback: counted; made after a refusal it would be counted in `after'
Answer(nextpc, a) ==
  /\ after' = IF refused THEN after + 1 ELSE after
  /\ IF a = "C" THEN pc' = nextpc /\ result' = result /\ refused' = refused
     ELSE pc' = "done" /\ refused' = TRUE /\ result' = (IF a = "S" THEN "stop-requested" ELSE "consumer-error")

Initialize == /\ pc = "initialize" /\ \E a \in {"C", "S", "E"} : Answer("parse-header", a)
              /\ cInit' = cInit + 1 /\ UNCHANGED <<n, fault, k, cHdr, cFin>>
ParseHeader == /\ pc = "parse-header"
               /\ IF fault = "header" THEN pc' = "done" /\ result' = "header-error" ELSE pc' = "consume-header" /\ result' = result
               /\ UNCHANGED <<n, fault, k, cInit, cHdr, cFin, refused, after>>
ConsumeHeader == /\ pc = "consume-header" /\ \E a \in {"C", "S", "E"} : Answer("parse-inst", a)
                 /\ cHdr' = cHdr + 1 /\ UNCHANGED <<n, fault, k, cInit, cFin>>
ParseInst == /\ pc = "parse-inst"
             /\ IF k < n THEN pc' = "consume-inst" /\ result' = result
                ELSE IF fault = "malformed" THEN pc' = "done" /\ result' = "parse-error"
                ELSE pc' = "finalize" /\ result' = result
             /\ UNCHANGED <<n, fault, k, cInit, cHdr, cFin, refused, after>>
ConsumeInst == /\ pc = "consume-inst" /\ \E a \in {"C", "S", "E"} : Answer("parse-inst", a)
               /\ k' = k + 1 /\ UNCHANGED <<n, fault, cInit, cHdr, cFin>>
Finalize == /\ pc = "finalize"
            /\ \E a \in {"C", "S", "E"} :
                 /\ after' = IF refused THEN after + 1 ELSE after
                 /\ pc' = "done" /\ refused' = (a # "C")
                 /\ result' = (IF a = "C" THEN "complete" ELSE IF a = "S" THEN "stop-requested" ELSE "consumer-error")
            /\ cFin' = cFin + 1 /\ UNCHANGED <<n, fault, k, cInit, cHdr>>
Stutter == pc = "done" /\ UNCHANGED <<n, fault, pc, k, cInit, cHdr, cFin, refused, after, result>>
Next == Initialize \/ ParseHeader \/ ConsumeHeader \/ ParseInst \/ ConsumeInst \/ Finalize \/ Stutter

IndInv ==
  /\ n >= 0 /\ fault \in Faults /\ pc \in Pcs /\ result \in Results
  /\ k >= 0 /\ k <= n /\ after = 0
  /\ cInit = (IF pc = "initialize" THEN 0 ELSE 1)
  /\ cHdr = (IF pc \in {"initialize", "parse-header", "consume-header"} THEN 0
             ELSE IF pc = "done" THEN cHdr ELSE 1) /\ cHdr \in {0, 1}
  /\ cFin \in {0, 1} /\ (cFin = 1 => pc = "done" /\ fault = "none" /\ k = n /\ cHdr = 1)
  /\ (pc \in {"initialize", "parse-header", "consume-header"} => k = 0)
  /\ (k > 0 => cHdr = 1)
  /\ (pc = "consume-header" => fault # "header") /\ (pc \in {"parse-inst", "consume-inst", "finalize"} => fault # "header")
  /\ (pc = "consume-inst" => k < n)
  /\ (pc = "finalize" => k = n /\ fault = "none")
  /\ (refused => pc = "done" /\ result \in {"stop-requested", "consumer-error"})
  /\ (pc # "done" => result = "none" /\ ~refused)
  /\ (pc = "done" => result # "none")
  /\ (result = "complete" => cFin = 1 /\ ~refused)
  /\ (result \in {"header-error", "parse-error"} => cFin = 0 /\ ~refused)
  /\ (result = "header-error" => cHdr = 0 /\ k = 0)
  /\ (result = "parse-error" => fault = "malformed" /\ k = n)

IndInit == /\ n \in Int /\ fault \in Faults /\ pc \in Pcs /\ k \in Int /\ cInit \in Int /\ cHdr \in Int /\ cFin \in Int
           /\ refused \in BOOLEAN /\ after \in Int /\ result \in Results /\ IndInv

\* the sentences of C14
Safety ==
  /\ cInit <= 1 /\ cHdr <= 1 /\ cFin <= 1 /\ k <= n                       \* "each at most once per event", one call per instruction
  /\ (cHdr = 1 => cInit = 1) /\ (k > 0 => cHdr = 1) /\ (cFin = 1 => cHdr = 1)   \* order
  /\ (cFin = 1 => fault = "none" /\ k = n)                                \* "finalize only if the whole binary was parsed without error"
  /\ after = 0                                                            \* "no further callback is made"
  /\ (refused => pc = "done" /\ result \in {"stop-requested", "consumer-error"})   \* "parsing ends at once with the corresponding ... result"
  /\ (result \in {"header-error", "parse-error"} => cFin = 0)             \* "a parse error likewise ends the parse without calling finalize"
  /\ (result = "complete" => cFin = 1 /\ k = n /\ fault = "none")         \* the loader yields a module only for binaries parsed to the end
=============================================================================
