--------------------------- MODULE StorageSafety ---------------------------
(***************************************************************************)
(* Unbounded safety of the storage design (C19), proved with TLAPS: for    *)
(* ANY value set, ANY equality relation Eq (reflexive or not, transitive   *)
(* or not) and storages of ANY size,                                       *)
(*   Dense      every token handed out is an index of a stored value       *)
(*   Fresh      the token an append returns was never handed out before    *)
(*   Stable     stored values never change or disappear                    *)
(* The operations are those of Storage.tla (AppendOp / FetchOrAppend) with *)
(* the set of tokens handed out as history.  MC_Storage checks the same    *)
(* sentences exhaustively up to 5-6 operations; this module removes the    *)
(* bound.  Checked by `tlapm` in the thorough tier of C19.                 *)
(***************************************************************************)
EXTENDS Integers, Sequences, TLAPS
CONSTANTS Val, Eq(_, _)
VARIABLES data, toks
vars == <<data, toks>>

Init == data = <<>> /\ toks = {}
Hits(v) == {i \in 1..Len(data) : Eq(data[i], v)}
DoAppend(v) == data' = Append(data, v) /\ toks' = toks \cup {Len(data)}
DoFetch(v) == IF Hits(v) # {}
              THEN \E i \in Hits(v) : (\A j \in Hits(v) : i <= j) /\ data' = data /\ toks' = toks \cup {i - 1}
              ELSE DoAppend(v)
Next == \E v \in Val : DoAppend(v) \/ DoFetch(v)
Spec == Init /\ [][Next]_vars

Dense == data \in Seq(Val) /\ toks \subseteq 0..(Len(data) - 1)
Stable == [][Len(data') >= Len(data) /\ \A i \in 1..Len(data) : data'[i] = data[i]]_vars

LEMMA InitDense == Init => Dense
  BY DEF Init, Dense

LEMMA AppendDense == ASSUME Dense, NEW v \in Val, DoAppend(v) PROVE Dense'
  <1>1. data' \in Seq(Val) /\ Len(data') = Len(data) + 1
    BY DEF Dense, DoAppend
  <1>2. toks' \subseteq 0..(Len(data') - 1)
    BY <1>1 DEF Dense, DoAppend
  <1> QED BY <1>1, <1>2 DEF Dense

LEMMA NextDense == Dense /\ [Next]_vars => Dense'
  <1> SUFFICES ASSUME Dense, [Next]_vars PROVE Dense'
    OBVIOUS
  <1>1. CASE UNCHANGED vars
    BY <1>1 DEF Dense, vars
  <1>2. ASSUME NEW v \in Val, DoAppend(v) PROVE Dense'
    BY <1>2, AppendDense
  <1>3. ASSUME NEW v \in Val, DoFetch(v) PROVE Dense'
    <2>1. CASE Hits(v) # {}
      <3>1. PICK i \in Hits(v) : data' = data /\ toks' = toks \cup {i - 1}
        BY <1>3, <2>1 DEF DoFetch
      <3>2. i \in 1..Len(data)
        BY DEF Hits
      <3> QED BY <3>1, <3>2 DEF Dense
    <2>2. CASE Hits(v) = {}
      <3>1. DoAppend(v)
        BY <1>3, <2>2 DEF DoFetch
      <3> QED BY <3>1, AppendDense
    <2> QED BY <2>1, <2>2
  <1> QED BY <1>1, <1>2, <1>3 DEF Next

THEOREM DenseAlways == Spec => []Dense
  BY InitDense, NextDense, PTL DEF Spec

\* "each append returns a token not returned before": the token of an append is Len(data), and by Dense
\* every token handed out so far is smaller
THEOREM Fresh == ASSUME Dense PROVE Len(data) \notin toks
  BY DEF Dense

\* "lookups through earlier tokens keep yielding their values"
LEMMA NextStable == Dense /\ [Next]_vars => (Len(data') >= Len(data) /\ \A i \in 1..Len(data) : data'[i] = data[i])
  <1> SUFFICES ASSUME Dense, [Next]_vars PROVE Len(data') >= Len(data) /\ \A i \in 1..Len(data) : data'[i] = data[i]
    OBVIOUS
  <1>1. CASE UNCHANGED vars
    BY <1>1 DEF Dense, vars
  <1>2. ASSUME NEW v \in Val, DoAppend(v) PROVE Len(data') >= Len(data) /\ \A i \in 1..Len(data) : data'[i] = data[i]
    BY <1>2 DEF Dense, DoAppend
  <1>3. ASSUME NEW v \in Val, DoFetch(v) PROVE Len(data') >= Len(data) /\ \A i \in 1..Len(data) : data'[i] = data[i]
    <2>1. CASE Hits(v) # {}
      BY <1>3, <2>1 DEF DoFetch, Dense
    <2>2. CASE Hits(v) = {}
      BY <1>3, <2>2, <1>2 DEF DoFetch
    <2> QED BY <2>1, <2>2
  <1> QED BY <1>1, <1>2, <1>3 DEF Next

THEOREM StableAlways == Spec => Stable
  BY DenseAlways, NextStable, PTL DEF Spec, Stable
=============================================================================
