#!/usr/bin/env python3
"""Regenerates MANIFEST.json from the table below (single source of truth for the
interface).  Properties without an entry in CHECKS are listed under not_applicable."""
import json, os
HERE = os.path.dirname(os.path.dirname(os.path.abspath(__file__)))

CHECKS = {
 "C11": dict(
    text="Decoder.tla states, as successor-set operators, the weakest behaviour set compatible with C11 (one action per public Decoder request). TLC checks the C11 sentences as invariants/action properties on every buffer <= 5 (8) bytes and every request sequence to depth 3 (4); every explored (state, request) edge is replayed on the real Decoder and the recorded behaviour - plus thousands of random histories on buffers up to 64 bytes with limits up to usize::MAX - is trace-validated against the specification (remaining limit inferred by TLC). Every typed request is swept over every declared value and its neighbours. Thorough tier: Apalache additionally discharges an inductive invariant of the offset / limit arithmetic for unbounded buffers (spec/apalache/DecoderArith.tla; extra evidence, never the verdict).",
    note="Trusted: TLC, the pinned GrammarData.json for typed requests (Declared sets), the harness's logging of offset()/has_limit()/limit_reached() and of DecodeError's derived Debug text. The reported offset of a failed *string* request and the exact error kind at limit/end for typed requests are deliberately unconstrained (property silent).",
    technique="TLA+ model checking (TLC) of Decoder.tla + model-generated histories replayed on the real Decoder + TLC trace validation (DecoderTrace.tla)",
    design="5 C11"),
 "C02": dict(
    text="Assembler.tla (EncodeOperand/EncodeInst: the encoding the SPIR-V specification prescribes) and Parser.tla (ParseInst: the operational grammar) are checked against the real code on conforming instructions generated from the pinned grammar: every one of the 787 opcodes, every enumerant of every enum-kinded operand with its parameters, every mask bit / none / all (pairs at thorough), optional and variadic counts 0..3, OpConstant/OpSpecConstant/OpSwitch under every supported width, OpSpecConstantOp embedding every embeddable opcode, strings of every length mod 4. TLC checks words = EncodeInst(i) AND parsed = i independently, so a compensating pair of bugs is still caught. MC_Parser additionally model-checks, on every word stream of <= 3 (4) words over 15 real first words (7 opcodes, one per signature shape incl. two optional parameterised masks) x 8 operand words, that re-encoding what the operational grammar delivers parses back to the same instructions, and every such stream is parsed by the real parser and validated.",
    note="Literal values are sampled, not enumerated (they influence no branch except through enumerant tables, which are swept). Conformance of each generated instruction is itself decided by the specification (ParseInst(EncodeInst(i)) = i); a generator slip is a tool error.",
    technique="TLC model checking (MC_Parser: operational grammar vs declarative language, re-encoding) + TLC trace validation (ParserTrace.tla) of assemble/parse behaviours against Assembler.tla and Parser.tla over model-generated streams and grammar-directed inputs",
    design="5 C02"),
 "C03": dict(
    text="Parser.tla is an operational TLA+ definition of the SPIR-V binary language (header, framing, quantifier loop, enumerant/mask parameters, context-dependent literals, OpSpecConstantOp) with fault classes and the set of error values C03 admits per class. Every real parse of thousands of well-formed random modules and of their single-fault mutants (truncation at any byte, word count, opcode, operand word substitution/insertion/deletion, header faults, extents past the end, trailing bytes, OpSpecConstantOp embedding every opcode number) is validated by TLC: accept/reject, delivered prefix, error class, instruction number and offset interval. MC_Parser model-checks the operational grammar against a DECLARATIVE definition of the language (set of encodings of conforming instructions) on every word stream of <= 3 (4) words over 15 real first words (7 opcodes, one per signature shape incl. two optional parameterised masks) x 8 operand words: accepted iff in the language, delivered = the conforming prefix, fault at the first non-conforming instruction; every such stream is replayed on the real parser. The conforming sweep of C02 (must be accepted) and the tracker histories of C10 (literal widths under late / missing declarations) are validated too.",
    note="Readings of ambiguous sentences are fixed in DESIGN.md 4.6 (each the one that demands less of the code). Grammar facts come from the pinned GrammarData.json.",
    technique="TLC model checking (MC_Parser: operational vs declarative grammar, bounded) + replay of every model stream on the real parser + TLC trace validation (ParserTrace.tla) of real parses against Parser.tla",
    design="5 C03"),
 "C04": dict(
    text="The Decoder and Parser specifications are total (TLC checks Decoder totality as an invariant over limits 0..3 and Huge); a panic is a result no specification action produces. Hostile inputs: >100k decoder requests with limits up to usize::MAX on buffers of every length mod 4, all C03 mutant classes, OpSpecConstantOp with every opcode, scripted consumers, and the load/assemble/disassemble pipeline on every module the loader accepts; every call runs under catch_unwind with overflow checks on.",
    note="Memory safety proper is not visible to TLA+: out-of-bounds accesses are observed as panics of safe Rust; the single unsafe slice construction (parse_words) is exercised by every words-API event.",
    technique="TLC model checking of totality (MC_Decoder) + TLC trace validation of hostile-input behaviours (DecoderTrace/ParserTrace/PipeTrace): a Panic event is not a behaviour of the specification",
    design="5 C04"),
 "C10": dict(
    text="MC_Tracker explores every history of int/float declarations (widths 7..128), type-propagating definitions and literal consumers over 2 (3) ids, checks the width rule as an invariant and emits a shortest history per (state, instruction); each history becomes a binary whose literals have the word count the SPECIFICATION prescribes, plus +-1 word variants and a second parse of the consumer alone; ParserTrace validates what the real parser delivers (LiteralBit32/LiteralBit64/TypeUnsupported, rejection of the variants, independence of successive parses). Random histories of up to 40 instructions over 20 ids are added.",
    note="ids are defined once per binary, as in the property's quantifier.",
    technique="TLC model checking (MC_Tracker) + model-generated histories replayed through the real parser + TLC trace validation (ParserTrace.tla)",
    design="5 C10"),
 "C14": dict(
    text="MC_Protocol models Parser::parse as a state machine (initialize, parse header, consume header, per-instruction parse/consume, finalize) with nondeterministic consumer answers and binary faults; TLC checks the C14 sentences as invariants and emits every complete behaviour; each is concretised (several binaries per behaviour) with a scripted logging consumer and the real callback log and result are validated by ParserTrace (protocol shape checked independently of the grammar: order, at-most-once, obedience to the answers, and - by framing on word counts alone - the k-th instruction callback is for the k-th frame and a parse that ends in finalize called back for every frame). Plus every callback position x {stop, error of four payload types, ParseState values included} on random small modules and mutants; OpSpecConstantOp occurs often inside the streams.",
    note="The consumer's own error value is a unique token per callback position recovered through Display.",
    technique="TLC model checking (MC_Protocol) + model-generated behaviours replayed on the real parser + per-opcode and bad-value sweeps + TLC trace validation (ParserTrace.tla ShapeOK, callbacks compared with Parser!Run); thorough: Apalache inductive invariant for any number of instructions (apalache/ProtocolInv.tla)",
    design="5 C14"),
 "C05": dict(
    text="Loader.tla gives the loader as one step per consumed instruction (error table, section placement from the hand-transcribed SpecFacts!LoaderClass) AND a declarative, positional definition of well-bracketedness following the sentences of C05; MC_Loader checks them equivalent (accept iff well-bracketed, error of the FIRST offending instruction, post-conditions) on every class sequence up to length 5 (6). Every sequence is replayed on a real Loader both directly (per-instruction outcome and index) and through load_words; every one of the 787 opcodes is additionally fed in the three contexts (module level / function / block); random loadable and faulty modules are added. LoaderTrace validates outcome, error variant, index and the loaded module section by section. Thorough tier: Apalache discharges an inductive invariant of the bracket automaton for input of any length (spec/apalache/LoaderInv.tla; extra evidence, never the verdict).",
    note="Vendor opcodes and context-dependent ones (OpExtInst, OpUntypedVariableKHR) are 'don't care' (the property excludes them): the specification then admits each treatment. Error variants are observed through the Debug name of the boxed loader error.",
    technique="TLC model checking (MC_Loader: operational vs declarative bracket grammar) + replay of all model sequences on the real Loader + TLC trace validation (LoaderTrace.tla)",
    design="5 C05"),
 "C01": dict(
    text="For every binary the real loader accepts in the C05 corpus (all model sequences, the 787x3 opcode sweep, random layout-ordered and shuffled modules with any mix of opcodes) LoaderTrace checks that assemble(load(B)) is the header with the input's version and bound followed by exactly Assembler!EncodeInsts(Module!AllInsts(m)) for a module m that equals Loader!Load of the input section by section, that layout-ordered inputs come back word-identical from the first instruction on, and that loading the output again gives an equal module. MC_Loader proves at the design level that Load files every instruction exactly once with relative order preserved (Preserve, Identity).",
    note="Inputs are zero-padded after string terminators so re-encoding must be word-identical. The two exclusions of the property are guards of the specification.",
    technique="TLC model checking (MC_Loader Preserve/Identity) + TLC trace validation of load/assemble/reload round trips (LoaderTrace.tla RoundTripOK)",
    design="5 C01"),
 "C15": dict(
    text="Module.tla defines GlobalInsts, FnInsts, AllInsts and AssembleModule; ModuleTrace validates the six traversals and assemble() of real dr::Module values of every shape: all 32 present/absent combinations of header, memory model, def, end, label; exactly-one-nonempty / exactly-one-empty section cases; random shapes; at thorough every combination of section sizes 0..2 over the ten vector sections (3^10). Mutable traversals are shown to reach the same objects by marking every instruction they yield.",
    note="Pure algebraic identity; there is no separate bounded model, TLC's states are those of the trace specification.",
    technique="TLC trace validation (ModuleTrace.tla) over an exhaustive small-scope enumeration of module values",
    design="5 C15"),
 "C12": dict(
    text="Builder.tla states when each kind of call must fail, where it files its instruction and what the selection is afterwards; MC_Builder checks SelectionValid, ErrLeavesModule, id monotonicity on all call sequences within 2 functions x 1-2 blocks x 1-2 instructions, and emits a shortest history per abstract situation x call. Sampled (quick) / all (thorough) histories are mapped to concrete methods (every terminator, a dozen block instructions, all module-level methods, selections with in- and out-of-range indices, all four insert points) and replayed; every public method is called once in a legal and once in an illegal situation; random histories over ALL ~1150 callable methods are added. BuilderTrace validates result, selection and the whole module after every call (a failing call must leave instructions AND selection as they were, as MC_Builder!Fail states); panics are data. BuilderExtraTrace (select_function_by_name, find_return_block_indices, insert_types_global_values, dedup_insert_type, version) is specification growth beyond the property: reported in the evidence, never a verdict.",
    note="Which error variant a failing call returns is unconstrained. Insertion offsets stay within the selected block, as the property says.",
    technique="TLC model checking (MC_Builder) + model-generated histories replayed on the real Builder + TLC trace validation (BuilderTrace.tla); thorough: Apalache inductive invariant for SelectionValid over any number of functions / blocks / calls (apalache/BuilderSel.tla)",
    design="5 C12"),
 "C13": dict(
    text="BuilderTrace tracks the set of values the hidden id counter may have (a failing call may burn one id) and checks: fresh ids are the counter value, strictly increasing, never repeated; new()/default() start at 1, new_from_module at the bound; module() writes a bound equal to the counter and above every allocated id; an implicit type request returns the first earlier declaration with the same opcode and operands and adds nothing, otherwise appends exactly one declaration with a fresh id; explicit requests always append. Driven by the MC_Builder histories (type keys x implicit/explicit, constants, failing calls, three constructors), by every generated type method, and by random histories. Thorough tier: Apalache discharges an inductive invariant of the id counter for histories of any length (spec/apalache/BuilderIds.tla; extra evidence).",
    note="'same opcode and operands' is decided on flattened operand words.",
    technique="TLC model checking (MC_Builder: BoundAbove, IdsDistinct, NoDuplicateTypes, FreshIncreasing) + TLC trace validation (BuilderTrace.tla id bits)",
    design="5 C13"),
 "C06": dict(
    text="harness/gen_builder.py regenerates, from the CURRENT Builder sources, one call per public method (1158 callable of 1172 pub fn; an unparseable signature is a tool error) with pairwise distinct, grammar-conforming arguments. For every method BuilderTrace checks: opcode = pinned method table, operand words in argument order, result type / result id, the instruction conforms to its grammar (Parser!ParseInst of its encoding), it is filed where SpecFacts says, and - after completing the history - assemble-then-load returns a module equal to the built one section by section with the version set and a bound above every id. Random complete histories over all methods are validated the same way.",
    note="Known finding (recorded, not patched): type_struct_continued_intel(_id) gives OpTypeStructContinuedINTEL a result id. begin_block_no_label and terminators inserted before the end make a history incomplete (judged by C12 only).",
    technique="TLC trace validation (BuilderTrace.tla content / round-trip bits) over one generated call per public Builder method + random complete histories",
    design="5 C06"),
 "C16": dict(
    text="Exhaustive: all 12 predicates of grammar::reflect on all 787 declared opcodes are validated by PredTrace against the class lists of SpecFacts.tla (hand-transcribed from the SPIR-V specification; must / don't-care / must-not), the union laws of the derived predicates and pairwise disjointness of the base classes; PredTrace!Covered proves every opcode of the grammar was evaluated. The Builder clause is checked by calling every block-level and terminator method once (BuilderTrace bit 16: the block selection after the call) and by comparing the observed set of block-ending opcodes with the terminator predicate's set.",
    note="Vendor OpType*/constant opcodes and OpModuleProcessed (for the non-location debug predicate) are don't-care.",
    technique="TLC trace validation (PredTrace.tla, exhaustive over 787 x 12) + BuilderTrace.tla over every generated block/terminator method",
    design="5 C16"),
 "C08": dict(
    text="Thorough tier: ALL 2^32 numbers go through every from_u32 (45 enumerations) and from_bits (15 masks) on 16 threads; the accepted set is recorded as maximal intervals (masks: OR of accepted values and counter-examples) and TablesTrace checks it equal to the declared discriminants three ways: pinned snapshot, the enum declarations in the current source text, and `as u32` of every accepted value; every declared value's Debug name parses back, every alias parses to its target, near-miss names are rejected; mask constants agree with the declarations. Quick tier: boundary probes (0..2^20, every declared value and range bound +-1, powers of two, 10^6 random).",
    note="Khronos agreement: relative to the pinned snapshot + source declarations + ~250 hand-transcribed enumerant anchors (the Khronos JSON is not in the sealed sandbox).",
    technique="TLC trace validation (TablesTrace.tla) of an exhaustive 2^32 sweep of every from_u32/from_bits + names/aliases, against GrammarData.json, the textual declarations and SpecFacts anchors",
    design="5 C08"),
 "C09": dict(
    text="lookup_opcode for all 65536 numbers, get(op) for every declared opcode, iter() of the three tables, lookups of the extended tables on 0..4095 and far numbers; every entry is compared field by field (name, opcode, capabilities, extensions, operand kinds and quantifiers) with the pinned snapshot, with the well-formedness predicate of the property and, for ~110 core instructions, with operand layouts transcribed by hand from the SPIR-V specification (SpecFacts!InstAnchors).",
    note="Khronos agreement as for C08: snapshot + anchors.",
    technique="TLC trace validation (TablesTrace.tla) over the complete opcode space and every table entry",
    design="5 C09"),
 "C17": dict(
    text="For every enumerant of every operand kind and for every single bit, every pair of bits, all bits and random combinations of every mask, additional_operands / required_capabilities / required_extensions are compared with the snapshot (sequence for enumerants, multiset for masks); the parser side is observed by parsing conforming instructions that carry every enumerant and bit with the snapshot's parameters (C02 suite); every Operand variant is checked for id_ref_any, the one-word effect of id_ref_any_mut on assemble(), and From/unwrap round trips.",
    note="Khronos agreement as for C08.",
    technique="TLC trace validation (TablesTrace.tla ReflectOK/OperandOK + ParserTrace.tla) over all enumerants, bits, bit pairs and operand variants",
    design="5 C17"),
 "C19": dict(
    text="Storage.tla (append / fetch_or_append with a possibly non-reflexive equality); MC_Storage checks the C19 sentences on every operation sequence up to 5 (6) for three element types: f64 with +0.0 / -0.0 (equal but distinguishable) and NaN (unequal to itself); a key/tag type equal iff same key and different tag (non-reflexive); numbers equal iff at distance <= 1 (reflexive, symmetric, NOT transitive). Every sequence is replayed on the corresponding real Storage<T>, with lookups through ALL tokens handed out so far after every step; random sequences up to 150 operations are added; StorageTrace validates tokens and lookups. At scale: StorageBulk.tla reduces the operations on the value list 0, 1, 2, ... to a counter (MC_StorageBulk checks that the reduction is Storage!Apply), and StorageBulkTrace validates runs over 70 000 (quick) / 400 000 (thorough) values of a real Storage<u32> - beyond 2^16 - with lookups through all tokens after every run (observations run-length encoded without loss).",
    note="Values are compared by label (class, tag, equality mode); a lookup must yield the STORED value, not merely an equal one.",
    technique="TLC model checking (MC_Storage, MC_StorageBulk refinement) + replay of all model sequences on the real Storage + TLC trace validation (StorageTrace.tla, StorageBulkTrace.tla); thorough: TLAPS proof of Dense / Fresh / Stable for any equality and size (tlaps/StorageSafety.tla)",
    design="5 C19"),
 "C07": dict(
    text="MC_Disasm model-checks that the line format is injective on a bounded universe over 720 opcodes of the pinned grammar and that the vocabulary is unambiguous. Disasm.tla gives the header comment (version, registered generator tool names, bound), the one-line-per-instruction rule and the token structure of every line (optional '%id =', 'Op'+name, result type, one token per operand: ids as %n, enumerants and every mask kind by name joined with '|', 'None' for the empty mask, decimals); DisasmTrace checks them on real disassemblies of random loadable modules (any mix of opcodes), of every opcode once and every enumerant / mask bit once, of OpConstant/OpSpecConstant over every int/float width with boundary patterns (plus undeclared / bool types), of OpExtInst with known/unknown sets and numbers and of strings with quotes, backslashes, newlines and non-ASCII. The text is read back by an independent reader that knows only the vocabulary, and TLC checks the result equals the instruction stream (NaN payloads excepted), which also gives injectivity.",
    note="Tokens TLC cannot spell (large decimals, floats, escaped strings, extended-instruction names) are wildcards in the forward check and decided through the reader. Mask bit names are pinned in spec/DisasmNames.json and cross-checked against the constant names.",
    technique="TLC model checking (MC_Disasm: injectivity of the line format, unambiguous vocabulary) + TLC trace validation (DisasmTrace.tla: token structure per Disasm.tla + read-back equality) of real disassemblies",
    design="5 C07"),
 "C20": dict(
    text="DisCli.tla models the tool as read -> load -> print with exit 0 as the only terminal state (TLC checks it); rspirv-dis is built from the current tree and run on a corpus (empty file, every byte prefix of a valid module and of a module with 64-bit constants and a 64-bit OpSwitch, OpConstant of undeclared / bool type, OpSpecConstantOp embedding sampled opcode numbers, every sequence of <= 4 structural instructions, OpExtInst with boundary numbers of known and unknown sets, loadable random modules, single-fault mutants, random bytes); every run (and the library's own result, computed in a child process) has a 20 s deadline; DisCliTrace checks termination, exit status 0, no signal, no panic message, stdout = the library's own result on the same bytes + newline, error messages are one line.",
    note="The expected text is computed in-process by the harness built from the same tree, so this check is independent of C07.",
    technique="TLC model checking (DisCli.tla) + TLC trace validation (DisCliTrace.tla) of real process runs",
    design="5 C20"),
 "C18": dict(
    text="Lift.tla states what the structured module must contain for a data-representation module of the supported subset: version word, capabilities in order, memory model; one type / constant entry per declaration in order with operands carried over positionally (type and constant ids replaced by the token of the referenced entry); one operation per result-producing non-phi block instruction; per function its control mask, result type token, block count, each block's terminator, and each phi's result type among the block arguments. LiftTrace validates random subset modules (repeated capabilities, constants that lift to equal values, phis of scalar, pointer, struct, vector and array type, every non-switch terminator) and, for each of the 592 result-producing opcodes the pinned tree lifts (enum / mask operands included), one module carrying that opcode with positionally distinct operands.",
    note="Only the subset the lifter handles today, as the property says; the set of liftable opcodes is pinned (spec/LiftSupported.json) so that breaking one opcode cannot hide as 'unsupported'. Float constants are not compared numerically.",
    technique="TLC trace validation (LiftTrace.tla against Lift.tla) of real LiftContext::convert results, with a per-opcode probing sweep",
    design="5 C18"),
}

def main():
    props = [json.loads(l)["id"] for l in open(os.path.join(HERE, "properties.jsonl"))]
    checks = []
    for p in props:
        if p in CHECKS:
            c = CHECKS[p]
            checks.append({
                "property_id": p,
                "quick_cmd": "./check %s --tier quick" % p,
                "thorough_cmd": "./check %s --tier thorough" % p,
                "evidence_file": "/verif/evidence/%s.json" % p,
                "replay_cmd_template": "./check %s --replay {path}" % p,
                "engine": "tla-suite",
                "level_claimed": {"category": c.get("category", "model_checking"), "text": c["text"], "design_ref": "DESIGN.md section " + c["design"]},
                "level_note": c["note"],
                "technique": c["technique"],
            })
    na = [{"property_id": p, "reason": "check under construction in this build phase (TLA+ model and conformance binding not yet committed); it will be claimed once they exist"}
          for p in props if p not in CHECKS]
    m = {
        "version": 1,
        "setup_cmd": "./setup.sh",
        "hooks": {"guard": "rspirv_verif",
                  "enable": "the harness is built with RUSTFLAGS --cfg rspirv_verif (harness/.cargo/config.toml); no source hook exists in /repo, all observations go through the public API",
                  "baseline_off_cmd": "cd /repo && cargo test --workspace --no-fail-fast --offline",
                  "source_commits": [], "add_only": True},
        "engines": [{"name": "tla-suite", "path": "/verif/spec", "serves_properties": sorted(CHECKS),
                     "kind_free_text": "explicit TLA+ specification suite checked with TLC (bounded exhaustive model checking), bound to the implementation by replaying model-generated histories into the real code and by TLC trace validation of behaviours recorded from the real code (Rust harness /verif/harness, driver /verif/check)"}],
        "checks": checks,
        "not_applicable": na,
        "notes": "Driver: ./check <id> --tier quick|thorough [--replay file]; exit 0 held / 1 VIOLATION / 2 tool error. Genuine defects repaired in /repo as 'fix:' commits are listed in known_findings.json (status fixed).",
    }
    json.dump(m, open(os.path.join(HERE, "MANIFEST.json"), "w"), indent=1)

if __name__ == "__main__":
    main()
