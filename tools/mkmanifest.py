#!/usr/bin/env python3
"""Regenerates MANIFEST.json from the table below (single source of truth for the
interface).  Properties without an entry in CHECKS are listed under not_applicable."""
import json, os
HERE = os.path.dirname(os.path.dirname(os.path.abspath(__file__)))

CHECKS = {
 "C11": dict(
    text="Decoder.tla states, as successor-set operators, the weakest behaviour set compatible with C11 (one action per public Decoder request). TLC checks the C11 sentences as invariants/action properties on every buffer <= 5 (8) bytes and every request sequence to depth 3 (4); every explored (state, request) edge is replayed on the real Decoder and the recorded behaviour - plus thousands of random histories on buffers up to 64 bytes with limits up to usize::MAX - is trace-validated against the specification (remaining limit inferred by TLC).",
    note="Trusted: TLC, the pinned GrammarData.json for typed requests (Declared sets), the harness's logging of offset()/has_limit()/limit_reached() and of DecodeError's derived Debug text. The reported offset of a failed *string* request and the exact error kind at limit/end for typed requests are deliberately unconstrained (property silent).",
    technique="TLA+ model checking (TLC) of Decoder.tla + model-generated histories replayed on the real Decoder + TLC trace validation (DecoderTrace.tla)",
    design="5 C11"),
}

def main():
    props = [json.loads(l)["id"] for l in open(os.path.join(HERE, "properties.jsonl"))]
    checks = []
    for p in props:
        if p in CHECKS:
            c = CHECKS[p]
            checks.append({
                "property_id": p,
                "quick_cmd": "./check %s --tier quick" % p,
                "thorough_cmd": "./check %s --tier thorough" % p,
                "evidence_file": "/verif/evidence/%s.json" % p,
                "replay_cmd_template": "./check %s --replay {path}" % p,
                "engine": "tla-suite",
                "level_claimed": {"category": c.get("category", "model_checking"), "text": c["text"], "design_ref": "DESIGN.md section " + c["design"]},
                "level_note": c["note"],
                "technique": c["technique"],
            })
    na = [{"property_id": p, "reason": "check under construction in this build phase (TLA+ model and conformance binding not yet committed); it will be claimed once they exist"}
          for p in props if p not in CHECKS]
    m = {
        "version": 1,
        "setup_cmd": "./setup.sh",
        "hooks": {"guard": "rspirv_verif",
                  "enable": "the harness is built with RUSTFLAGS --cfg rspirv_verif (harness/.cargo/config.toml); no source hook exists in /repo, all observations go through the public API",
                  "baseline_off_cmd": "cd /repo && cargo test --workspace --no-fail-fast --offline",
                  "source_commits": [], "add_only": True},
        "engines": [{"name": "tla-suite", "path": "/verif/spec", "serves_properties": sorted(CHECKS),
                     "kind_free_text": "explicit TLA+ specification suite checked with TLC (bounded exhaustive model checking), bound to the implementation by replaying model-generated histories into the real code and by TLC trace validation of behaviours recorded from the real code (Rust harness /verif/harness, driver /verif/check)"}],
        "checks": checks,
        "not_applicable": na,
        "notes": "Driver: ./check <id> --tier quick|thorough [--replay file]; exit 0 held / 1 VIOLATION / 2 tool error. Genuine defects repaired in /repo as 'fix:' commits are listed in known_findings.json (status fixed).",
    }
    json.dump(m, open(os.path.join(HERE, "MANIFEST.json"), "w"), indent=1)

if __name__ == "__main__":
    main()
