#!/usr/bin/env python3
"""Regenerates MANIFEST.json from the table below (single source of truth for the
interface).  Properties without an entry in CHECKS are listed under not_applicable."""
import json, os
HERE = os.path.dirname(os.path.dirname(os.path.abspath(__file__)))

CHECKS = {
 "C11": dict(
    text="Decoder.tla states, as successor-set operators, the weakest behaviour set compatible with C11 (one action per public Decoder request). TLC checks the C11 sentences as invariants/action properties on every buffer <= 5 (8) bytes and every request sequence to depth 3 (4); every explored (state, request) edge is replayed on the real Decoder and the recorded behaviour - plus thousands of random histories on buffers up to 64 bytes with limits up to usize::MAX - is trace-validated against the specification (remaining limit inferred by TLC).",
    note="Trusted: TLC, the pinned GrammarData.json for typed requests (Declared sets), the harness's logging of offset()/has_limit()/limit_reached() and of DecodeError's derived Debug text. The reported offset of a failed *string* request and the exact error kind at limit/end for typed requests are deliberately unconstrained (property silent).",
    technique="TLA+ model checking (TLC) of Decoder.tla + model-generated histories replayed on the real Decoder + TLC trace validation (DecoderTrace.tla)",
    design="5 C11"),
 "C02": dict(
    text="Assembler.tla (EncodeOperand/EncodeInst: the encoding the SPIR-V specification prescribes) and Parser.tla (ParseInst: the operational grammar) are checked against the real code on conforming instructions generated from the pinned grammar: every one of the 787 opcodes, every enumerant of every enum-kinded operand with its parameters, every mask bit / none / all (pairs at thorough), optional and variadic counts 0..3, OpConstant/OpSpecConstant/OpSwitch under every supported width, OpSpecConstantOp embedding every embeddable opcode, strings of every length mod 4. TLC checks words = EncodeInst(i) AND parsed = i independently, so a compensating pair of bugs is still caught.",
    note="Literal values are sampled, not enumerated (they influence no branch except through enumerant tables, which are swept). Conformance of each generated instruction is itself decided by the specification (ParseInst(EncodeInst(i)) = i); a generator slip is a tool error.",
    technique="TLC trace validation (ParserTrace.tla) of assemble/parse behaviours against Assembler.tla and Parser.tla over grammar-directed inputs",
    design="5 C02"),
 "C03": dict(
    text="Parser.tla is an operational TLA+ definition of the SPIR-V binary language (header, framing, quantifier loop, enumerant/mask parameters, context-dependent literals, OpSpecConstantOp) with fault classes and the set of error values C03 admits per class. Every real parse of thousands of well-formed random modules and of their single-fault mutants (truncation at any byte, word count, opcode, operand word substitution/insertion/deletion, header faults, extents past the end, trailing bytes, OpSpecConstantOp embedding every opcode number) is validated by TLC: accept/reject, delivered prefix, error class, instruction number and offset interval.",
    note="Readings of ambiguous sentences are fixed in DESIGN.md 4.6 (each the one that demands less of the code). Grammar facts come from the pinned GrammarData.json.",
    technique="TLC trace validation (ParserTrace.tla) of real parses against the operational grammar Parser.tla",
    design="5 C03"),
 "C04": dict(
    text="The Decoder and Parser specifications are total (TLC checks Decoder totality as an invariant over limits 0..3 and Huge); a panic is a result no specification action produces. Hostile inputs: >100k decoder requests with limits up to usize::MAX on buffers of every length mod 4, all C03 mutant classes, OpSpecConstantOp with every opcode, scripted consumers, and the load/assemble/disassemble pipeline on every module the loader accepts; every call runs under catch_unwind with overflow checks on.",
    note="Memory safety proper is not visible to TLA+: out-of-bounds accesses are observed as panics of safe Rust; the single unsafe slice construction (parse_words) is exercised by every words-API event.",
    technique="TLC model checking of totality (MC_Decoder) + TLC trace validation of hostile-input behaviours (DecoderTrace/ParserTrace/PipeTrace): a Panic event is not a behaviour of the specification",
    design="5 C04"),
 "C10": dict(
    text="MC_Tracker explores every history of int/float declarations (widths 7..128), type-propagating definitions and literal consumers over 2 (3) ids, checks the width rule as an invariant and emits a shortest history per (state, instruction); each history becomes a binary whose literals have the word count the SPECIFICATION prescribes, plus +-1 word variants and a second parse of the consumer alone; ParserTrace validates what the real parser delivers (LiteralBit32/LiteralBit64/TypeUnsupported, rejection of the variants, independence of successive parses). Random histories of up to 40 instructions over 20 ids are added.",
    note="ids are defined once per binary, as in the property's quantifier.",
    technique="TLC model checking (MC_Tracker) + model-generated histories replayed through the real parser + TLC trace validation (ParserTrace.tla)",
    design="5 C10"),
 "C14": dict(
    text="MC_Protocol models Parser::parse as a state machine (initialize, parse header, consume header, per-instruction parse/consume, finalize) with nondeterministic consumer answers and binary faults; TLC checks the C14 sentences as invariants and emits every complete behaviour; each is concretised (several binaries per behaviour) with a scripted logging consumer and the real callback log and result are validated by ParserTrace (protocol shape checked independently of the grammar). Plus every callback position x {stop, error} on random small modules and mutants.",
    note="The consumer's own error value is a unique token per callback position recovered through Display.",
    technique="TLC model checking (MC_Protocol) + model-generated behaviours replayed on the real parser + TLC trace validation (ParserTrace.tla ShapeOK)",
    design="5 C14"),
}

def main():
    props = [json.loads(l)["id"] for l in open(os.path.join(HERE, "properties.jsonl"))]
    checks = []
    for p in props:
        if p in CHECKS:
            c = CHECKS[p]
            checks.append({
                "property_id": p,
                "quick_cmd": "./check %s --tier quick" % p,
                "thorough_cmd": "./check %s --tier thorough" % p,
                "evidence_file": "/verif/evidence/%s.json" % p,
                "replay_cmd_template": "./check %s --replay {path}" % p,
                "engine": "tla-suite",
                "level_claimed": {"category": c.get("category", "model_checking"), "text": c["text"], "design_ref": "DESIGN.md section " + c["design"]},
                "level_note": c["note"],
                "technique": c["technique"],
            })
    na = [{"property_id": p, "reason": "check under construction in this build phase (TLA+ model and conformance binding not yet committed); it will be claimed once they exist"}
          for p in props if p not in CHECKS]
    m = {
        "version": 1,
        "setup_cmd": "./setup.sh",
        "hooks": {"guard": "rspirv_verif",
                  "enable": "the harness is built with RUSTFLAGS --cfg rspirv_verif (harness/.cargo/config.toml); no source hook exists in /repo, all observations go through the public API",
                  "baseline_off_cmd": "cd /repo && cargo test --workspace --no-fail-fast --offline",
                  "source_commits": [], "add_only": True},
        "engines": [{"name": "tla-suite", "path": "/verif/spec", "serves_properties": sorted(CHECKS),
                     "kind_free_text": "explicit TLA+ specification suite checked with TLC (bounded exhaustive model checking), bound to the implementation by replaying model-generated histories into the real code and by TLC trace validation of behaviours recorded from the real code (Rust harness /verif/harness, driver /verif/check)"}],
        "checks": checks,
        "not_applicable": na,
        "notes": "Driver: ./check <id> --tier quick|thorough [--replay file]; exit 0 held / 1 VIOLATION / 2 tool error. Genuine defects repaired in /repo as 'fix:' commits are listed in known_findings.json (status fixed).",
    }
    json.dump(m, open(os.path.join(HERE, "MANIFEST.json"), "w"), indent=1)

if __name__ == "__main__":
    main()
