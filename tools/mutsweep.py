#!/usr/bin/env python3
"""mutsweep.py: a mechanical mutation campaign that complements the hand-seeded changes of seeded/.

  mutsweep.py gen [--seed N] [--per-file K]     write build/mutants.jsonl: syntactic mutants of /repo sources
  mutsweep.py run [--workers W] [--limit N]     try them: scratch worktree per worker (under /tmp, removed at the end),
                                                 the repository's tests must still pass (else the mutant is uninteresting),
                                                 then the checks mapped to the file run against the mutated worktree
                                                 through a mirror of /verif; results -> build/mutsweep_results.jsonl
  mutsweep.py report                             survivors (tests pass, every mapped check exits 0) and tool errors

Nothing here touches /repo's working tree; survivors are triaged by hand (equivalent mutant / outside every
property / blind spot -> strengthen the check) and the outcome is recorded in DESIGN.md.
"""
import json, os, random, re, subprocess, sys, time, threading, queue
sys.path.insert(0, os.path.dirname(os.path.abspath(__file__)))
import runseeds

BUILD = "/verif/build"
FILES = {
    "rspirv/binary/decoder.rs": ["C11", "C04"],
    "rspirv/binary/parser.rs": ["C03", "C02", "C14", "C10", "C04"],
    "rspirv/binary/tracker.rs": ["C10", "C03"],
    "rspirv/binary/assemble.rs": ["C02", "C15", "C01"],
    "rspirv/binary/disassemble.rs": ["C07", "C20"],
    "rspirv/dr/loader.rs": ["C05", "C01", "C04"],
    "rspirv/dr/constructs.rs": ["C15", "C07", "C01", "C13"],
    "rspirv/dr/build/mod.rs": ["C12", "C13", "C06", "C16"],
    "rspirv/grammar/reflect.rs": ["C16", "C05"],
    "rspirv/grammar/syntax.rs": ["C09", "C07"],
    "rspirv/sr/storage.rs": ["C19"],
    "rspirv/lift/mod.rs": ["C18"],
    "rspirv/lift/storage.rs": ["C18"],
    "dis/main.rs": ["C20"],
    # generated code: sampled
    "rspirv/binary/autogen_parse_operand.rs": ["C02", "C03", "C17"],
    "rspirv/binary/autogen_decode_operand.rs": ["C11", "C08", "C02"],
    "rspirv/binary/autogen_disas_operand.rs": ["C07"],
    "rspirv/dr/autogen_operand.rs": ["C17", "C02"],
    "rspirv/dr/build/autogen_norm_insts.rs": ["C06", "C12"],
    "rspirv/dr/build/autogen_terminator.rs": ["C06", "C12", "C16"],
    "rspirv/dr/build/autogen_type.rs": ["C13", "C06"],
    "rspirv/dr/build/autogen_constant.rs": ["C06", "C13"],
    "rspirv/dr/build/autogen_annotation.rs": ["C06"],
    "rspirv/dr/build/autogen_debug.rs": ["C06"],
    "rspirv/grammar/autogen_table.rs": ["C09", "C03", "C02"],
    "rspirv/grammar/autogen_glsl_std_450.rs": ["C09", "C07"],
    "rspirv/grammar/autogen_opencl_std_100.rs": ["C09", "C07"],
    "rspirv/lift/autogen_context.rs": ["C18"],
    "spirv/autogen_spirv.rs": ["C08", "C11", "C16"],
}

OPS = [
    ("lt-le", r" < ", " <= "), ("le-lt", r" <= ", " < "), ("gt-ge", r" > ", " >= "), ("ge-gt", r" >= ", " > "),
    ("eq-ne", r" == ", " != "), ("ne-eq", r" != ", " == "), ("and-or", r" && ", " || "), ("or-and", r" \|\| ", " && "),
    ("drop-not", r"if !", "if "), ("plus-minus", r" \+ ", " - "), ("minus-plus", r" - ", " + "),
    ("drop-plus1", r" \+ 1\b", ""), ("drop-minus1", r" - 1\b", ""), ("mul4-mul2", r"\* 4\b", "* 2"),
    ("one-opt", r"OperandQuantifier::One\b", "OperandQuantifier::ZeroOrOne"), ("opt-one", r"OperandQuantifier::ZeroOrOne\b", "OperandQuantifier::One"),
    ("some-none-sel", r"= Some\((\w+)\);", "= None;"),
]


def code_lines(path):
    """(index, line) of mutable lines: no comments, attributes, uses, and nothing after #[cfg(test)]."""
    out = []
    lines = open(path).read().split("\n")
    for i, l in enumerate(lines):
        t = l.strip()
        if t.startswith("#[cfg(test)]"):
            break
        if not t or t.startswith("//") or t.startswith("#") or t.startswith("use ") or t.startswith("pub use ") or t.startswith("///"):
            continue
        out.append((i, l))
    return lines, out


def gen(seed, per_file, only=None, prefix="M"):
    rng = random.Random(seed)
    muts = []
    for f, checks in FILES.items():
        path = os.path.join("/repo", f)
        if not os.path.exists(path):
            print("missing", f); continue
        lines, cl = code_lines(path)
        cands = []
        for i, l in cl:
            code = l.split("//")[0]
            for name, pat, rep in OPS:
                m = re.search(pat, code)
                if m:
                    new = code[:m.start()] + re.sub(pat, rep, code[m.start():], count=1)
                    if new != code:
                        cands.append((name, i, l, new))
            # number literal + 1 (decimal, standalone, small)
            for m in re.finditer(r"(?<![\w.])(\d{1,5})(?![\w.])", code):
                n = int(m.group(1))
                new = code[:m.start()] + str(n + 1) + code[m.end():]
                cands.append(("num+1", i, l, new))
                break
            t = l.strip()
            # match arms on one line: delete the arm (a wildcard arm must exist, else it does not compile) / exchange the
            # right-hand sides of two neighbouring arms
            arm = re.match(r"^(\s*)([^=]+?) => ([^{]+),$", code.rstrip())
            if arm and not t.startswith("_ =>"):
                cands.append(("arm-delete", i, l, ""))
                if i + 1 < len(lines):
                    arm2 = re.match(r"^(\s*)([^=]+?) => ([^{]+),$", lines[i + 1].split("//")[0].rstrip())
                    if arm2 and arm2.group(3) != arm.group(3) and not lines[i + 1].strip().startswith("_ =>"):
                        cands.append(("arm-rhs-swap", i, l, "%s%s => %s," % (arm.group(1), arm.group(2), arm2.group(3)), "%s%s => %s," % (arm2.group(1), arm2.group(2), arm.group(3))))
            # two simple arguments exchanged
            am = re.search(r"(\w+)\((\w+), (\w+)\)", code)
            if am and am.group(2) != am.group(3) and not am.group(1)[0].isupper() is False:
                pass
            if am and am.group(2) != am.group(3):
                cands.append(("arg-swap", i, l, code[:am.start()] + "%s(%s, %s)" % (am.group(1), am.group(3), am.group(2)) + code[am.end():]))
            sm = re.search(r'"([A-Za-z][A-Za-z0-9_.]{2,})"', code)
            if sm and "expect(" not in code and "panic!" not in code and "doc" not in code:
                cands.append(("str-tweak", i, l, code[:sm.end() - 1] + "X" + code[sm.end() - 1:]))
            # statement deletion: assignments to self / pushes / bare calls ending in ';'
            if re.match(r"^(self\.[\w.\[\]]+ (=|\+=|-=) .*;|[\w.]+\.push\(.*\);|self\.\w+\(.*\)\?;|[\w.]+\.(clear|pop|truncate|extend)\(.*\);)$", t):
                cands.append(("del-stmt", i, l, ""))
            # swap with the next line when both are simple statements / list entries of the same shape
            if i + 1 < len(lines):
                t2 = lines[i + 1].strip()
                if t and t2 and t != t2 and t[-1] in ";," and t2[-1] == t[-1] and not t2.startswith("//") and ("{" not in t and "}" not in t and "{" not in t2 and "}" not in t2) \
                   and re.sub(r"\W+", "", t)[:4].isalpha() and "=>" not in t and "=>" not in t2 and not re.match(r"^\w+,$", t):
                    cands.append(("swap-next", i, l, None))
        rng.shuffle(cands)
        k = per_file if "autogen" not in f else max(6, per_file // 3)
        # at most 40% line swaps per file
        if only:
            cands = [c for c in cands if c[0] in only]
        swaps = [c for c in cands if c[0] == "swap-next"][:max(2, (2 * k) // 5)]
        others = [c for c in cands if c[0] != "swap-next"]
        cands = others[:k - min(len(swaps), k // 2)] + swaps
        rng.shuffle(cands)
        for cnd in cands[:k]:
            name, i, l, new = cnd[:4]
            muts.append({"file": f, "line": i + 1, "op": name, "old": l, "new": new, "new_next": cnd[4] if len(cnd) > 4 else None, "checks": checks})
    rng.shuffle(muts)
    for n, m in enumerate(muts):
        m["id"] = "%s%04d" % (prefix, n)
    with open(os.path.join(BUILD, "mutants.jsonl"), "a" if prefix != "M" else "w") as fo:
        for m in muts:
            fo.write(json.dumps(m) + "\n")
    print(len(muts), "mutants")


def apply(wt, m):
    p = os.path.join(wt, m["file"])
    lines = open(p).read().split("\n")
    i = m["line"] - 1
    assert lines[i] == m["old"], "source moved"
    if m["new"] is None:
        lines[i], lines[i + 1] = lines[i + 1], lines[i]
    else:
        lines[i] = m["new"]
        if m.get("new_next") is not None:
            lines[i + 1] = m["new_next"]
    open(p, "w").write("\n".join(lines))


def worker(k, q, lock, resf):
    wt = "/tmp/mut_w%d" % k
    runseeds.sh("git worktree remove --force %s" % wt, cwd="/repo")
    runseeds.sh("rm -rf %s" % wt)
    runseeds.sh("git worktree add -q --detach %s HEAD" % wt, cwd="/repo")
    try:
        while True:
            try:
                m = q.get_nowait()
            except queue.Empty:
                break
            t0 = time.time()
            runseeds.sh("git checkout -q -- .", cwd=wt)
            res = {"id": m["id"], "file": m["file"], "line": m["line"], "op": m["op"], "old": m["old"].strip(), "new": (m["new"] or "<swap with next line>").strip()}
            try:
                apply(wt, m)
            except AssertionError:
                res["status"] = "stale"; out_line(lock, resf, res); continue
            rc, out = runseeds.sh("cargo test --workspace --offline --lib --tests --bins 2>&1 | grep -E '^test result|FAILED|^error|panicked' | head -6", cwd=wt, timeout=1800)
            if "error" in out and "test result" not in out:
                res["status"] = "no-compile"
            elif "FAILED" in out or "test result: ok" not in out:
                res["status"] = "killed-by-tests"
            else:
                mdir = runseeds.mirror(wt)
                res["checks"] = {}
                res["status"] = "survived"
                for c in m["checks"]:
                    try:
                        rc, out = runseeds.sh("./check %s --tier quick" % c, cwd=mdir, env={"VERIF_REPO": wt}, timeout=2400)
                    except subprocess.TimeoutExpired:
                        rc, out = 2, "TOOL ERROR timeout"
                    res["checks"][c] = rc
                    if rc == 1:
                        res["status"] = "detected"; res["by"] = c
                        res["line1"] = ([l for l in out.split("\n") if l.startswith("VIOLATION")] or [""])[0]
                        break
                    if rc != 0:
                        res["status"] = "tool-error"; res["by"] = c
                        res["line1"] = ([l for l in out.split("\n") if "TOOL ERROR" in l] or [out[-300:]])[0][:400]
                        break
            res["wall_s"] = round(time.time() - t0, 1)
            out_line(lock, resf, res)
    finally:
        runseeds.sh("git worktree remove --force %s" % wt, cwd="/repo")
        runseeds.sh("rm -rf %s /tmp/vseed_mut_w%d" % (wt, k))
        runseeds.sh("git worktree prune", cwd="/repo")


def out_line(lock, resf, res):
    with lock:
        with open(resf, "a") as fo:
            fo.write(json.dumps(res) + "\n")
        print(res["id"], res["status"], res.get("by", ""), res["file"], res["line"], res["op"], flush=True)


def run(workers, limit):
    muts = [json.loads(l) for l in open(os.path.join(BUILD, "mutants.jsonl"))]
    resf = os.path.join(BUILD, "mutsweep_results.jsonl")
    done = set()
    if os.path.exists(resf):
        done = {json.loads(l)["id"] for l in open(resf)}
    q = queue.Queue()
    n = 0
    for m in muts:
        if m["id"] in done:
            continue
        q.put(m); n += 1
        if limit and n >= limit:
            break
    lock = threading.Lock()
    ts = [threading.Thread(target=worker, args=(k, q, lock, resf)) for k in range(workers)]
    for t in ts: t.start()
    for t in ts: t.join()


def recheck(pairs):
    """recheck M0020:C06 M0047:C07 ...: run the named check against already tried mutants again (after strengthening)."""
    muts = {json.loads(l)["id"]: json.loads(l) for l in open(os.path.join(BUILD, "mutants.jsonl"))}
    wt = "/tmp/mut_w9"
    runseeds.sh("git worktree remove --force %s" % wt, cwd="/repo"); runseeds.sh("rm -rf %s" % wt)
    runseeds.sh("git worktree add -q --detach %s HEAD" % wt, cwd="/repo")
    out = []
    try:
        for pr in pairs:
            mid, chk = pr.split(":")
            runseeds.sh("git checkout -q -- .", cwd=wt)
            apply(wt, muts[mid])
            mdir = runseeds.mirror(wt)
            rc, o = runseeds.sh("./check %s --tier quick" % chk, cwd=mdir, env={"VERIF_REPO": wt}, timeout=2400)
            line = ([l for l in o.split("\n") if l.startswith("VIOLATION") or "TOOL ERROR" in l] or [""])[0]
            print(mid, chk, "rc=%d" % rc, line[:160], flush=True)
            out.append({"id": mid, "check": chk, "rc": rc, "file": muts[mid]["file"], "line": muts[mid]["line"], "op": muts[mid]["op"]})
    finally:
        runseeds.sh("git worktree remove --force %s" % wt, cwd="/repo")
        runseeds.sh("rm -rf %s /tmp/vseed_mut_w9" % wt)
        runseeds.sh("git worktree prune", cwd="/repo")
    with open(os.path.join(BUILD, "mutsweep_rechecks.jsonl"), "a") as fo:
        for r in out:
            fo.write(json.dumps(r) + "\n")


def report():
    resf = os.path.join(BUILD, "mutsweep_results.jsonl")
    rs = [json.loads(l) for l in open(resf)]
    from collections import Counter
    print(Counter(r["status"] for r in rs))
    for st in ("survived", "tool-error"):
        print("==", st)
        for r in rs:
            if r["status"] == st:
                print(r["id"], r["file"], r["line"], r["op"], "|", r["old"][:110], "=>", r["new"][:110], "|", r.get("by", ""), r.get("line1", "")[:200])


if __name__ == "__main__":
    a = sys.argv[1:]
    def opt(name, d):
        return int(a[a.index(name) + 1]) if name in a else d
    if a[0] == "gen":
        only = a[a.index("--only") + 1].split(",") if "--only" in a else None
        gen(opt("--seed", 1), opt("--per-file", 30), only, a[a.index("--prefix") + 1] if "--prefix" in a else "M")
    elif a[0] == "run":
        run(opt("--workers", 4), opt("--limit", 0))
    elif a[0] == "recheck":
        recheck(a[1:])
    else:
        report()
