#!/usr/bin/env python3
"""Turns a live grammar dump (vh dump-grammar) into the keyed form the TLA+ modules read.
Used once on the pinned tree to create spec/GrammarData.json, and on every run to key the
live dump the same way (build/gen/live_grammar_keyed.json) for comparison by TLC."""
import json, sys

def keyed(d):
    out = dict(d)
    for lst, name in (("inst_list", "insts"), ("glsl_list", "glsl"), ("opencl_list", "opencl")):
        m = {}
        for e in d[lst]:
            m.setdefault(str(e["opcode"]), e)          # first entry wins, like lookup_opcode's find()
        out[name] = m
    return out

if __name__ == "__main__":
    src, dst = sys.argv[1], sys.argv[2]
    d = json.load(open(src))
    json.dump(keyed(d), open(dst, "w"), sort_keys=True, separators=(",", ":"))
