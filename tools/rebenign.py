#!/usr/bin/env python3
"""rebenign.py <id>:<check>[,<check>] ...: re-run checks against behaviour-preserving / unspecified-behaviour changes of benign/ (after the machinery was corrected)."""
import sys, os, json
sys.path.insert(0, os.path.dirname(os.path.abspath(__file__)))
import runseeds
for pr in sys.argv[1:]:
    sid, checks = pr.split(":")
    prop = sid.split("-")[0]
    wt = "/tmp/ben_" + prop
    created = False
    if not os.path.isdir(wt):
        runseeds.sh("git worktree add -q --detach %s HEAD" % wt, cwd="/repo"); created = True
    runseeds.sh("git checkout -q -- . && git checkout -q --detach main", cwd=wt)
    rc, out = runseeds.sh("git apply /verif/benign/%s/patch.diff" % sid, cwd=wt)
    assert rc == 0, out
    mdir = runseeds.mirror(wt)
    meta = json.load(open("/verif/benign/%s/meta.json" % sid))
    for c in checks.split(","):
        rc, out = runseeds.sh("./check %s --tier quick" % c, cwd=mdir, env={"VERIF_REPO": wt})
        vl = [l for l in out.split("\n") if l.startswith("VIOLATION") or "TOOL ERROR" in l]
        meta.setdefault("rerun_after_correction", {})[c] = {"rc": rc, "lines": vl[:2]}
        print(sid, c, rc, vl[:2], flush=True)
    json.dump(meta, open("/verif/benign/%s/meta.json" % sid, "w"), indent=1)
    runseeds.sh("git checkout -q -- .", cwd=wt)
    if created:
        runseeds.sh("git worktree remove --force %s" % wt, cwd="/repo")
