#!/usr/bin/env python3
"""rebenign_all.py [--workers W] [--props C01,C07,...] : regression of the machinery against false alarms - re-run, for
every behaviour-preserving / unspecified-behaviour change of benign/ that had no alarm of its own property's check
when it was last judged, the quick check of that property (scratch worktrees /tmp/ben_w<k>, removed at the end).
Every line must say rc=0.  Writes tools/rebenign_all_last.json."""
import sys, os, json, glob, threading, queue
sys.path.insert(0, os.path.dirname(os.path.abspath(__file__)))
import runseeds
a = sys.argv[1:]
W = int(a[a.index("--workers") + 1]) if "--workers" in a else 4
props = a[a.index("--props") + 1].split(",") if "--props" in a else None
ids = sorted(os.path.basename(d) for d in glob.glob("/verif/benign/*") if os.path.exists(d + "/patch.diff"))
if props: ids = [i for i in ids if i.split("-")[0] in props]
q = queue.Queue()
for i in ids: q.put(i)
res = {}
lock = threading.Lock()
def last_verdict(meta, prop):
    r = meta.get("rerun_after_correction", {}).get(prop) or meta.get("ran", {}).get("checks", {}).get(prop)
    return r["rc"] if r else None
def worker(k):
    wt = "/tmp/ben_w%d" % k
    runseeds.sh("git worktree remove --force %s" % wt, cwd="/repo"); runseeds.sh("rm -rf %s" % wt)
    runseeds.sh("git worktree add -q --detach %s HEAD" % wt, cwd="/repo")
    try:
        while True:
            try: sid = q.get_nowait()
            except queue.Empty: break
            prop = sid.split("-")[0]
            meta = json.load(open("/verif/benign/%s/meta.json" % sid))
            was = last_verdict(meta, prop)
            runseeds.sh("git checkout -q -- .", cwd=wt)
            rc, out = runseeds.sh("git apply /verif/benign/%s/patch.diff" % sid, cwd=wt)
            if rc != 0:
                with lock: res[sid] = {"rc": -1, "note": "patch does not apply"}; print(sid, "patch does not apply", flush=True)
                continue
            mdir = runseeds.mirror(wt)
            rc, out = runseeds.sh("./check %s --tier quick" % prop, cwd=mdir, env={"VERIF_REPO": wt}, timeout=3000)
            vl = [l for l in out.split("\n") if l.startswith("VIOLATION") or "TOOL ERROR" in l]
            with lock:
                res[sid] = {"rc": rc, "was": was, "lines": vl[:2]}
                print(sid, "rc=%d" % rc, "was=%s" % was, vl[:1], flush=True)
    finally:
        runseeds.sh("git worktree remove --force %s" % wt, cwd="/repo")
        runseeds.sh("rm -rf %s /tmp/vseed_ben_w%d" % (wt, k)); runseeds.sh("git worktree prune", cwd="/repo")
ts = [threading.Thread(target=worker, args=(k,)) for k in range(W)]
for t in ts: t.start()
for t in ts: t.join()
json.dump(res, open("/verif/tools/rebenign_all_last.json", "w"), indent=1, sort_keys=True)
new = {k: v for k, v in res.items() if v["rc"] != 0 and v.get("was") == 0}
print("SUMMARY: %d changes, %d quiet, alarms where there was none before: %s; still alarming as documented: %s"
      % (len(res), sum(1 for v in res.values() if v["rc"] == 0), sorted(new), sorted(k for k, v in res.items() if v["rc"] != 0 and v.get("was") != 0)))
