#!/usr/bin/env python3
"""reseed.py <seed-id> <check...>: re-run checks against one already confirmed seeded mutation (patch from /verif/seeded/<id>)."""
import sys, os, json, subprocess
sys.path.insert(0, os.path.dirname(os.path.abspath(__file__)))
import runseeds
sid = sys.argv[1]; checks = sys.argv[2:]
prop = sid.split("-")[0]
wt = "/tmp/seed_" + prop
created = False
if not os.path.isdir(wt):
    runseeds.sh("git worktree add -q --detach %s HEAD" % wt, cwd="/repo"); created = True
runseeds.sh("git checkout -q -- . && git checkout -q --detach main", cwd=wt)
rc, out = runseeds.sh("git apply /verif/seeded/%s/patch.diff" % sid, cwd=wt)
assert rc == 0, out
mdir = runseeds.mirror(wt)
meta = json.load(open("/verif/seeded/%s/meta.json" % sid))
for c in checks:
    rc, out = runseeds.sh("./check %s --tier quick" % c, cwd=mdir, env={"VERIF_REPO": wt})
    vl = [l for l in out.split("\n") if l.startswith("VIOLATION") or "TOOL ERROR" in l or l.startswith("KNOWN")]
    meta["ran"]["checks"][c] = {"rc": rc, "lines": vl[:3]}
    print(sid, c, rc, vl[:2])
meta["detected_by"] = [c for c, v in meta["ran"]["checks"].items() if v["rc"] == 1]
json.dump(meta, open("/verif/seeded/%s/meta.json" % sid, "w"), indent=1)
runseeds.sh("git checkout -q -- .", cwd=wt)
if created:
    runseeds.sh("git worktree remove --force %s" % wt, cwd="/repo")
