#!/usr/bin/env python3
"""reseed_all.py [--workers W] [ids...]: regression of the machinery - re-run, for every confirmed seeded change in
seeded/, the quick check of the property it was written against (scratch worktrees /tmp/seed_w<k>, removed at the
end).  Prints one line per seed and a summary; writes build/reseed_all.json.  Every line must say rc=1."""
import sys, os, json, glob, threading, queue
sys.path.insert(0, os.path.dirname(os.path.abspath(__file__)))
import runseeds
a = sys.argv[1:]
W = int(a[a.index("--workers") + 1]) if "--workers" in a else 4
ids = [x for x in a if not x.startswith("--") and not x.isdigit()] or sorted(os.path.basename(d) for d in glob.glob("/verif/seeded/*"))
q = queue.Queue()
for i in ids: q.put(i)
res = {}
lock = threading.Lock()
def worker(k):
    wt = "/tmp/seed_w%d" % k
    runseeds.sh("git worktree remove --force %s" % wt, cwd="/repo"); runseeds.sh("rm -rf %s" % wt)
    runseeds.sh("git worktree add -q --detach %s HEAD" % wt, cwd="/repo")
    try:
        while True:
            try: sid = q.get_nowait()
            except queue.Empty: break
            prop = sid.split("-")[0]
            runseeds.sh("git checkout -q -- .", cwd=wt)
            rc, out = runseeds.sh("git apply /verif/seeded/%s/patch.diff" % sid, cwd=wt)
            if rc != 0:
                with lock: res[sid] = {"rc": -1, "note": "patch does not apply any more: " + out[-200:]}; print(sid, "patch does not apply", flush=True)
                continue
            mdir = runseeds.mirror(wt)
            rc, out = runseeds.sh("./check %s --tier quick" % prop, cwd=mdir, env={"VERIF_REPO": wt}, timeout=3000)
            vl = [l for l in out.split("\n") if l.startswith("VIOLATION") or "TOOL ERROR" in l]
            with lock:
                res[sid] = {"rc": rc, "lines": vl[:2]}
                print(sid, "rc=%d" % rc, vl[:1], flush=True)
    finally:
        runseeds.sh("git worktree remove --force %s" % wt, cwd="/repo")
        runseeds.sh("rm -rf %s /tmp/vseed_seed_w%d" % (wt, k)); runseeds.sh("git worktree prune", cwd="/repo")
ts = [threading.Thread(target=worker, args=(k,)) for k in range(W)]
for t in ts: t.start()
for t in ts: t.join()
json.dump(res, open("/verif/build/reseed_all.json", "w"), indent=1)
bad = {k: v for k, v in res.items() if v["rc"] != 1}
print("SUMMARY: %d seeds, %d detected, not detected: %s" % (len(res), len(res) - len(bad), sorted(bad)))
