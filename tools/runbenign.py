#!/usr/bin/env python3
"""runbenign.py <prop> [<prop>...]: false-alarm round.  For every behaviour-preserving change a sub-agent left in
/tmp/ben_<prop>/seeds/b*, confirm that the repository's tests pass with it, then run the property's quick check and
its neighbours (EXTRA) against the changed worktree through a mirror of /verif.  Expected: every check exits 0.
Results: /verif/benign/<prop>-b<i>/ (patch.diff, meta.json with what was run)."""
import json, os, shutil, sys, glob, time
sys.path.insert(0, os.path.dirname(os.path.abspath(__file__)))
import runseeds

EXTRA = {"C01": ["C05", "C15"], "C02": ["C03", "C17"], "C03": ["C02", "C10", "C14", "C04"], "C04": ["C11", "C03", "C05"], "C05": ["C01", "C04"],
         "C06": ["C12", "C13", "C16"], "C07": ["C20", "C04"], "C08": ["C11"], "C09": ["C17", "C07"], "C10": ["C03", "C07"], "C11": ["C04", "C08", "C03"],
         "C12": ["C06", "C13", "C16"], "C13": ["C12", "C06"], "C14": ["C03", "C05"], "C15": ["C01", "C07"], "C16": ["C05", "C12"],
         "C17": ["C02", "C09"], "C18": ["C19"], "C19": ["C18"], "C20": ["C07", "C04"]}


def main():
    for prop in sys.argv[1:]:
        wt = "/tmp/ben_" + prop
        runseeds.sh("git checkout -q -- .", cwd=wt)
        for d in sorted(glob.glob(wt + "/seeds/[buvw][0-9]*")):
            bi = os.path.basename(d)
            sid = "%s-%s" % (prop, bi)
            dst = "/verif/benign/" + sid
            os.makedirs(dst, exist_ok=True)
            shutil.copy(os.path.join(d, "patch.diff"), dst)
            try:
                meta = json.load(open(os.path.join(d, "meta.json")))
            except Exception:
                meta = {}
            res = {"property": prop, "summary": meta.get("summary"), "why_preserving": meta.get("why_preserving"), "files": meta.get("files"), "ran": {}}
            rc, out = runseeds.sh("git checkout -q -- . && git apply %s/patch.diff" % d, cwd=wt)
            if rc != 0:
                res["ran"]["apply_out"] = out[-400:]
                json.dump(res, open(dst + "/meta.json", "w"), indent=1); print(sid, "patch does not apply"); continue
            rc, out = runseeds.sh("cargo test --workspace --offline 2>&1 | grep -E '^test result|FAILED|^error' | head -8", cwd=wt)
            res["ran"]["tests_with_patch"] = out.strip().split("\n")
            tests_ok = "FAILED" not in out and "error" not in out and "test result: ok" in out
            mdir = runseeds.mirror(wt)
            det = {}
            for c in [prop] + EXTRA.get(prop, []):
                t0 = time.time()
                rc, out = runseeds.sh("./check %s --tier quick" % c, cwd=mdir, env={"VERIF_REPO": wt})
                vl = [l for l in out.split("\n") if l.startswith("VIOLATION") or "TOOL ERROR" in l]
                det[c] = {"rc": rc, "lines": vl[:3], "wall_s": round(time.time() - t0, 1)}
                if rc != 0:
                    # keep the replay files of an alarm for the investigation
                    runseeds.sh("mkdir -p %s/replays && cp -r %s/replays/. %s/replays/ 2>/dev/null; cp %s/build/*.out %s/ 2>/dev/null" % (dst, mdir, dst, mdir, dst))
            res["ran"]["checks"] = det
            res["tests_ok"] = tests_ok
            res["alarms"] = [c for c, v in det.items() if v["rc"] != 0]
            runseeds.sh("git checkout -q -- .", cwd=wt)
            json.dump(res, open(dst + "/meta.json", "w"), indent=1)
            print(sid, "tests_ok=%s" % tests_ok, "alarms=%s" % res["alarms"], {c: v["rc"] for c, v in det.items()}, flush=True)


if __name__ == "__main__":
    main()
