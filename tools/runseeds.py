#!/usr/bin/env python3
"""runseeds.py <prop> [<prop>...]: for every mutation a seeding agent left in /tmp/seed_<prop>/seeds/m*,
confirm it in its scratch worktree (test suite passes, demo fails with it and passes without), run the
property's quick check (and any extra checks named in EXTRA) against the mutated worktree through a
mirror of /verif, and record everything under /verif/seeded/<prop>-m<i>/."""
import json, os, shutil, subprocess, sys, glob, time

EXTRA = {"C02": ["C03", "C08", "C17"], "C03": ["C02", "C10", "C08"], "C04": ["C11", "C05", "C03"], "C10": ["C03"], "C11": ["C04", "C08"], "C14": [],
         "C05": ["C01", "C16"], "C01": ["C05"], "C16": ["C05", "C06"], "C06": ["C12", "C16"], "C12": ["C06"], "C13": ["C06"]}
MIRROR = "/tmp/vseed"   # + "_" + property: one mirror per property so that concurrent runs do not collide

def sh(cmd, cwd=None, env=None, timeout=3600):
    e = dict(os.environ); e["CARGO_NET_OFFLINE"] = "true"
    if env: e.update(env)
    p = subprocess.run(cmd, shell=True, cwd=cwd, env=e, capture_output=True, text=True, timeout=timeout)
    return p.returncode, p.stdout + p.stderr

def mirror(wt):
    m = MIRROR + "_" + os.path.basename(wt)
    os.makedirs(m, exist_ok=True)
    sh("rsync -a --delete --exclude build --exclude .git --exclude evidence --exclude replays --exclude seeded /verif/ %s/" % m)
    sh("sed -i 's#/repo/#%s/#g' %s/harness/Cargo.toml" % (wt, m))
    os.makedirs(m + "/build", exist_ok=True)
    return m

def main():
    for prop in sys.argv[1:]:
        wt = "/tmp/seed_" + prop
        sh("git checkout -q -- . && git checkout -q --detach main", cwd=wt)
        for d in sorted(glob.glob(wt + "/seeds/*m[0-9]*")):
            mi = os.path.basename(d)
            sid = "%s-%s" % (prop, mi)
            dst = "/verif/seeded/" + sid
            os.makedirs(dst, exist_ok=True)
            for f in ("patch.diff", "demo.rs"):
                shutil.copy(os.path.join(d, f), dst)
            meta = json.load(open(os.path.join(d, "meta.json")))
            ex = "seed_demo_" + mi
            res = {"property": prop, "summary": meta.get("summary"), "needs": meta.get("needs"), "files": meta.get("files"), "ran": {}}
            rc, out = sh("git checkout -q -- . && git apply %s/patch.diff" % d, cwd=wt)
            res["ran"]["apply"] = rc
            if rc != 0:
                res["ran"]["apply_out"] = out[-500:]
                json.dump(res, open(dst + "/meta.json", "w"), indent=1); print(sid, "patch does not apply"); continue
            rc, out = sh("cargo test --workspace --offline 2>&1 | grep -E '^test result|FAILED|^error' | head -8", cwd=wt)
            res["ran"]["tests_with_patch"] = out.strip().split("\n")
            tests_ok = "FAILED" not in out and "error" not in out and "test result: ok" in out
            rc, out = sh("cargo run --offline -q -p rspirv --example %s 2>&1 | tail -3" % ex, cwd=wt)
            rcx, _ = sh("cargo run --offline -q -p rspirv --example %s >/dev/null 2>&1" % ex, cwd=wt)
            res["ran"]["demo_with_patch"] = {"exit": rcx, "tail": out.strip()[-300:]}
            mdir = mirror(wt)
            checks = [prop] + ([] if os.environ.get("RUNSEEDS_NO_EXTRA") else EXTRA.get(prop, []))
            det = {}
            for c in checks:
                if not os.path.exists("%s/vlib/%s.py" % (mdir, c.lower())):
                    continue
                t0 = time.time()
                rc, out = sh("./check %s --tier quick" % c, cwd=mdir, env={"VERIF_REPO": wt})
                vl = [l for l in out.split("\n") if l.startswith("VIOLATION") or "TOOL ERROR" in l or l.startswith("KNOWN")]
                det[c] = {"rc": rc, "lines": vl[:3], "wall_s": round(time.time() - t0, 1)}
            res["ran"]["checks"] = det
            sh("git checkout -q -- .", cwd=wt)
            rcy, _ = sh("cargo run --offline -q -p rspirv --example %s >/dev/null 2>&1" % ex, cwd=wt)
            res["ran"]["demo_without_patch_exit"] = rcy
            res["confirmed"] = bool(tests_ok and rcx != 0 and rcy == 0)
            res["detected_by"] = [c for c, v in det.items() if v["rc"] == 1]
            json.dump(res, open(dst + "/meta.json", "w"), indent=1)
            print(sid, "confirmed=%s" % res["confirmed"], "detected_by=%s" % res["detected_by"], {c: v["rc"] for c, v in det.items()}, flush=True)

if __name__ == "__main__":
    main()
