#!/bin/sh
# runs every quick check under several seeds; prints one line per (seed, check); used to shake out false alarms
for s in "$@"; do
  for p in C01 C02 C03 C04 C05 C06 C07 C08 C09 C10 C11 C12 C13 C14 C15 C16 C17 C18 C19 C20; do
    VERIF_SEED=$s ./check $p --tier quick > sweep_${s}_$p.out 2>&1; rc=$?
    echo "seed=$s $p rc=$rc $(grep -c '^VIOLATION' sweep_${s}_$p.out) violations $(grep -c 'TOOL ERROR' sweep_${s}_$p.out) toolerr"
  done
done
