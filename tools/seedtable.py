#!/usr/bin/env python3
"""seedtable.py <tag>: markdown table rows (seeded change | needs | caught by) for the seeds whose id contains <tag>."""
import json, glob, os, sys
tag = sys.argv[1]
for d in sorted(glob.glob("/verif/seeded/*%s*" % tag)):
    m = json.load(open(d + "/meta.json"))
    sid = os.path.basename(d)
    cl = lambda s: (s or "").replace("|", "/").replace("\n", " ")
    print("| %s %s | %s | %s |" % (sid, cl(m.get("summary"))[:160], cl(m.get("needs"))[:110], " ".join(m.get("detected_by") or ["-"])))
