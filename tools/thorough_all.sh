#!/bin/sh
# runs every thorough check once, sequentially; one summary line per check
for p in "$@"; do
  s=$(date +%s); ./check $p --tier thorough > thorough_$p.out 2>&1; rc=$?; e=$(date +%s)
  echo "$p rc=$rc $((e-s))s $(grep -c '^VIOLATION' thorough_$p.out) violations $(grep -c 'TOOL ERROR' thorough_$p.out) toolerr"
done
