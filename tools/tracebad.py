#!/usr/bin/env python3
"""usage: tracebad.py <TraceModule> <trace.ndjson> : runs TLC trace validation, prints rejected events compactly"""
import sys, os, json
sys.path.insert(0, os.path.dirname(os.path.dirname(os.path.abspath(__file__))))
from vlib.common import *
mod, trace = sys.argv[1], os.path.abspath(sys.argv[2])
n, bad, dt = tlc_trace(mod + ".tla", mod + ".cfg", trace, "dbg")
ev = read_trace(trace)
print("events", n, "bad", len(bad), "time", dt)
lim = int(sys.argv[3]) if len(sys.argv) > 3 else 15
for idx, code in bad[:lim]:
    e = ev[idx - 1]
    d = dict(e)
    if "words" in d and isinstance(d["words"], list) and d.get("ev") == "parse":
        ws = [(w[0] << 16) | w[1] for w in d["words"]]
        d["words"] = " ".join("%x" % w for w in ws[5:])
        d["calls"] = [c["n"] + (":" + str(c["inst"]["op"]) if c["n"] == "inst" else "") for c in d["calls"]]
    print(idx, code, json.dumps(d)[:900])
