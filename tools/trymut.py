#!/usr/bin/env python3
"""trymut.py <file-in-repo> <old> <new> <check ids...>: apply a textual mutation to /repo, make sure the
repo's own tests still pass (optional, --tests), run the given checks, revert."""
import subprocess, sys, os
args = sys.argv[1:]
tests = "--tests" in args
args = [a for a in args if a != "--tests"]
f, old, new, checks = args[0], args[1], args[2], args[3:]
p = os.path.join("/repo", f)
s = open(p).read()
assert s.count(old) >= 1, "pattern not found"
open(p, "w").write(s.replace(old, new, 1))
try:
    if tests:
        r = subprocess.run("cd /repo && cargo test --workspace --offline 2>&1 | grep -E '^test result|FAILED|error(\\[|:)' | head -5", shell=True, capture_output=True, text=True)
        print(r.stdout)
    for c in checks:
        r = subprocess.run(["/verif/check", c, "--tier", "quick"], capture_output=True, text=True)
        lines = [l for l in (r.stdout + r.stderr).split("\n") if any(k in l for k in ("VIOLATION", "TOOL ERROR", "KNOWN", "rejected"))]
        print(c, "rc=%d" % r.returncode, "|", " / ".join(lines[:4])[:600])
finally:
    subprocess.run(["git", "-C", "/repo", "checkout", "--", "."])
