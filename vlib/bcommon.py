"""Shared by the Builder-family checks (C06, C12, C13, C16): vh drive-builder suites validated by
BuilderTrace.tla (code bits: 1 structure C12, 2 ids C13, 4 panic, 8 content/round trip C06, 16 terminator-ness C16)."""
import json, os, re, time
from .common import *
from .pcommon import BASE_ASSUMPTIONS

METHODS = os.path.join(SPEC, "BuilderMethods.json")
B_STRUCT, B_IDS, B_PANIC, B_CONTENT, B_TERM = 1, 2, 4, 8, 16


def run_suite(name, suite, seed, extra=None):
    trace = os.path.join(BUILD, name + ".ndjson")
    info = vh(["drive-builder", "--grammar", GRAMMAR, "--methods", METHODS, "--suite", suite, "--seed", str(seed), "--out", trace] + (extra or []))
    return trace, info


def history_bounds(events, idx):
    i = idx - 1
    s = i
    while s > 0 and events[s]["ev"] != "bnew":
        s -= 1
    t = i
    while t < len(events) - 1 and events[t]["ev"] != "bfinish":
        t += 1
    return s, t


def validate(rep, trace, name, mask):
    n, bad, dt = tlc_trace("BuilderTrace.tla", "BuilderTrace.cfg", trace, name, env={"METHODS": METHODS}, timeout=3000)
    counted = 0
    if bad:
        events = read_trace(trace)
        flagged = {}
        for idx, code in bad:
            flagged[idx] = code
        for idx, code in bad:
            if not (code & mask):
                continue
            e = events[idx - 1]
            s, t = history_bounds(events, idx)
            hist = events[s:idx]
            if e["ev"] == "bcall":
                r = e["res"]
                sig = r[0] + (":" + re.sub(r"\d+", "N", str(r[1]))[:50] if r[0] in ("Err", "Panic") else "")
                key = "builder:%s:code%d:%s" % (e["m"], code & mask, sig)
            else:
                culprits = sorted({events[j]["m"] for j in range(s, idx) if events[j]["ev"] == "bcall" and (flagged.get(j + 1, 0) & B_CONTENT)})
                last = [x["m"] for x in hist if x["ev"] == "bcall" and x["m"] not in ("ret", "end_function")]
                who = "after:" + ",".join(culprits) if culprits else "last:" + (last[-1] if last else "none")
                key = "builder:finish:%s:code%d:%s" % (who, code & mask, e.get("load_err", ""))
            rep.violation(key, {"component": "builder",
                                "history": [{k: x.get(k) for k in ("ev", "how", "bound", "m", "rt", "rid_explicit", "ip", "idx", "flat", "res", "selF", "selB")} for x in hist],
                                "observed": {k: e.get(k) for k in ("res", "selF", "selB", "st", "load_err")},
                                "expected": "BuilderTrace!CallBits / FinishBits = {} for this event", "spec_ref": "BuilderTrace"})
            counted += 1
    return n, len(bad), counted, dt


def builder_check(prop, tier, seed, replay, mask, suites, model=None, assumptions=(), required=None):
    t0 = time.time()
    rep = Report(prop)
    build_harness()
    if replay:
        raise ToolError("replay of builder histories: re-run the check with VERIF_SEED=%d; histories are deterministic per seed" % seed)
    mc = None
    ef = os.path.join(BUILD, prop.lower() + "_builder.hist")
    if model:
        inv_cfg, emit_cfg, sample = model
        mc = tlc_mc("MC_Builder.tla", inv_cfg, prop.lower() + "_mcinv", timeout=3000)
        log("model (invariants): %s" % mc)
        em = tlc_mc("MC_Builder.tla", emit_cfg, prop.lower() + "_mcemit", timeout=3000, edges_out=ef, sample=sample, seed=seed)
        log("model (emission): %s" % em)
        mc["emitted_edges"] = em["edges"]
    total, samples, methods_cov, kinds = 0, [], set(), {}
    for sname, suite, extra, use_model in suites:
        args = list(extra) + (["--histories", ef] if use_model else [])
        trace, info = run_suite("%s_%s" % (prop.lower(), sname), suite, seed, args)
        n, nbad, counted, dt = validate(rep, trace, "%s_%s" % (prop.lower(), sname), mask)
        log("suite %s: %d events, %d rejected (%d count for %s), %.1fs" % (sname, n, nbad, counted, prop, dt))
        total += n
        with open(trace) as f:
            for k, l in enumerate(f):
                e = json.loads(l)
                if e["ev"] == "bcall":
                    methods_cov.add(e["m"])
                    r = e["res"][0]
                    kinds[r] = kinds.get(r, 0) + 1
                    if len(samples) < 3 and k % 50 == 7:
                        samples.append({k2: e[k2] for k2 in ("m", "rt", "flat", "res", "selF", "selB")})
        if suite == "methods":
            if info.get("methods", 0) + 14 != info.get("pub_fn", -1):
                log("note: %s callable methods, %s pub fn in the Builder sources" % (info.get("methods"), info.get("pub_fn")))
    if required:
        missing = [r for r in required if kinds.get(r, 0) == 0]
        if missing:
            if not rep.new:
                raise ToolError("vacuous run: call outcomes never exercised: %s" % missing)
    rc = rep.finish()
    cov = {"traces_validated_against_impl": total, "samples": samples or [{"note": "no call sampled"}], "methods_called": len(methods_cov),
           "call_outcomes": kinds, "exhaustive": False}
    if mc:
        cov.update({"states": mc["states"], "transitions": mc["transitions"], "model": {"module": "spec/MC_Builder.tla", "configs": list(model[:2]), "depth": mc["depth"], "edges_emitted": mc["emitted_edges"], "edge_sample_rate": model[2]}})
    else:
        cov.update({"states": total + 1, "transitions": total, "states_note": "states of the trace specification BuilderTrace (one per validated call)"})
    if tier == "thorough" and prop == "C13":
        # unbounded argument for the id counter (any history length); extra evidence
        cov["apalache_inductive_invariant"] = apalache_check("BuilderIds.tla")
    if tier == "thorough" and prop == "C12":
        # unbounded argument for SelectionValid (any number of functions, blocks and calls); extra evidence
        cov["apalache_inductive_invariant"] = apalache_check("BuilderSel.tla")
    write_evidence(prop, tier, seed, cov, list(assumptions), time.time() - t0, len(rep.new))
    return rc
