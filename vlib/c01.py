"""C01 Load-then-assemble reproduces every instruction of the input binary."""
from .lcommon import *

def run_check(tier, seed, replay=None):
    quick = tier == "quick"
    return loader_check("C01", tier, seed, replay, CODE_ROUNDTRIP | CODE_PANIC, "MC_Loader_%s.cfg" % tier,
        suites=[("model", "classes", ["--reps", "1"], True),
                ("sweep", "sweep", [], False),
                ("random", "random", ["--n", "1200" if quick else "20000"], False),
                ("enums", "enums", [], False),
                # context-dependent literals of every width with boundary bit patterns (high bits above a narrow type's width)
                ("literals", "literals", [], False),
                ("raw", "raw", ["--n", "400" if quick else "8000"], False)],
        required_outcomes=["ok"],
        assumptions=BASE_ASSUMPTIONS + ["inputs are zero-padded after string terminators, so re-encoding must be word-identical (the property tolerates differences there only)",
                                        "'none dropped, duplicated or invented' is decided through Loader!Load, which files each instruction exactly once (MC_Loader!Preserve, Identity, checked on all class sequences up to the bound); the real module must equal it section by section",
                                        "exclusions of the property are guards of the specification: OpLine/OpNoLine inside a function outside a block, more than one OpMemoryModel"])
