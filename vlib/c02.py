"""C02 Assemble and parse are exact inverses on grammar-conforming instructions."""
from .pcommon import *

def run_check(tier, seed, replay=None):
    extra = ["--thorough"] if tier == "thorough" else []
    return parser_family_check("C02", tier, seed, replay, CODE_CONTENT | CODE_PANIC,
        models=[("parser", "MC_Parser.tla", "MC_Parser_quick.cfg")],     # Equivalence / DeliveredPrefix: parse(encode(i)) = i at the design level
        suites=[("asm", "c02", extra, None)],
        required_tags=["c02-random", "c02-counts", "c02-enum", "c02-param", "c02-specop", "c02-literal"],
        assumptions=BASE_ASSUMPTIONS + ["conforming instructions are generated from the pinned grammar (every opcode, every enumerant of every enum operand, every mask bit, none/all bits, optional/variadic counts 0..3, 32/64-bit literals under matching declarations, strings of every length mod 4 incl. multi-byte UTF-8); literal VALUES are sampled, not enumerated",
                                         "each generated instruction is first checked conforming by the specification itself (ParseInst(EncodeInst(i)) = i), a generator slip is a tool error, never a verdict"])
