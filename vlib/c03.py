"""C03 Parser accepts exactly the grammar and reports the first malformed instruction."""
from .pcommon import *

def run_check(tier, seed, replay=None):
    n, m = (400, 10) if tier == "quick" else (6000, 25)
    return parser_family_check("C03", tier, seed, replay, CODE_CONTENT | CODE_PANIC,
        models=[("parser", "MC_Parser.tla", "MC_Parser_%s.cfg" % tier), ("tracker", "MC_Tracker.tla", "MC_Tracker_%s.cfg" % tier)],
        suites=[("model", "words", [], "parser"),      # every stream of the bounded model, on the real parser
                ("conforming", "c02", [], None),   # every opcode / enumerant / mask bit must be ACCEPTED and delivered intact
                ("mut", "c03", ["--n", str(n), "--mutants", str(m)], None),
                ("specop", "specop", [], None),
                # context-dependent literal widths: the grammar of OpConstant / OpSwitch depends on the declarations seen
                # so far, also when a type is declared after a first use (histories of the tracker model)
                ("widths", "c10", ["--n", "200" if tier == "quick" else "3000"], "tracker")],
        required_tags=["wellformed", "truncate", "wordcount", "opcode", "substitute", "delete-word", "insert-word", "header",
                       "extent-past-end", "trailing", "specop"],
        required_results=["Ok", "Err:WordCountZero", "Err:OpcodeUnknown", "Err:OperandExpected", "Err:OperandExceeded",
                          "Err:HeaderIncomplete:StreamExpected", "Err:HeaderIncorrect", "Err:EndiannessUnsupported",
                          "Err:OperandError:Unknown", "Err:SpecConstantOpIntegerIncorrect"],
        assumptions=BASE_ASSUMPTIONS + ["readings of DESIGN.md 4.6: a trailing partial word may be ignored or rejected; error offsets must lie in the closed extent [start, start+4*wc]; each fault class admits a small set of error values"])
