"""C04 Parsing, loading, assembling and disassembling never panic on any input.
The specifications of Decoder, Parser (and Loader / Disasm, see PipeTrace) are TOTAL: every
request / input has an Ok or Err outcome and none has a panic outcome, so a recorded event with
outcome Panic is by construction not a behaviour of the specification."""
import os, time, json
from .common import *
from . import pcommon, c11


def run_check(tier, seed, replay=None):
    t0 = time.time()
    rep = Report("C04")
    build_harness()
    if replay:
        r = json.load(open(replay))
        if r.get("component") == "decoder":
            hp = os.path.join(BUILD, "c04.replay.hist")
            open(hp, "w").write(json.dumps(r["history"]) + "\n")
            tp = os.path.join(BUILD, "c04.replay.ndjson")
            vh(["drive-decoder", "--histories", hp, "--out", tp])
            c11.validate_decoder_trace(rep, tp, "c04_replay", only_panics=True)
            return rep.finish()
        return pcommon.replay_parse(rep, replay, pcommon.CODE_PANIC, "c04")
    quick = tier == "quick"
    # totality of the decoder specification (model) + hostile decoder histories
    mc = tlc_mc("MC_Decoder.tla", "MC_Decoder_total.cfg", "c04_mc", timeout=900)
    dtrace = os.path.join(BUILD, "c04.decoder.ndjson")
    dinfo = vh(["drive-decoder", "--typed-sweep", GRAMMAR, "--random", str(4000 if quick else 80000), "--seed", str(seed + 17), "--out", dtrace])
    dn, dbad, ddt = c11.validate_decoder_trace(rep, dtrace, "c04_decoder", only_panics=True)
    log("decoder: %d events, %d rejected" % (dn, len(dbad)))
    total = dn
    classes = {}
    samples = []
    suites = [("conforming", "c02", []),
              ("mut", "c03", ["--n", str(500 if quick else 8000), "--mutants", str(12 if quick else 30)]),
              ("specop", "specop", []),
              ("proto", "c14", ["--n", str(20 if quick else 200)])]
    for sname, suite, extra in suites:
        trace, info = pcommon.run_suite("c04_" + sname, suite, seed + 3, extra)
        n, nbad, counted, dt = pcommon.validate(rep, trace, "c04_" + sname, pcommon.CODE_PANIC)
        log("suite %s: %d events, %d rejected, %d panics" % (sname, n, nbad, counted))
        total += n
        for k, v in pcommon.tag_counts(trace).items():
            classes[k] = classes.get(k, 0) + v
        with open(trace) as f:
            samples.append(json.loads(f.readline()))
    # the loader on well-bracketed and ill-bracketed instruction sequences (panics only)
    from . import lcommon
    lhist = os.path.join(BUILD, "c04_loader.hist")
    lmc = tlc_mc("MC_Loader.tla", "MC_Loader_c04.cfg" if quick else "MC_Loader_thorough.cfg", "c04_lmc", edges_out=lhist, timeout=2400)
    for sname, suite, extra in [("lmodel", "classes", ["--histories", lhist]), ("lsweep", "sweep", []), ("lrandom", "random", ["--n", "300" if quick else "5000"]),
                                # the other entry points of the loader (load_bytes with trailing bytes, Loader::default(), a Loader used again after an error)
                                ("lraw", "raw", ["--n", "200" if quick else "3000"])]:
        trace, info = lcommon.run_suite("c04_" + sname, suite, seed + 5, extra)
        n, nbad, counted, dt = lcommon.validate(rep, trace, "c04_" + sname, lcommon.CODE_PANIC)
        log("loader suite %s: %d events, %d rejected, %d panics" % (sname, n, nbad, counted))
        total += n
    # every module the loader accepts: assemble (LoaderTrace above) and disassemble without panicking
    from . import c07
    dn, dtrace2 = c07.run_disasm(rep, "C04", seed + 9, 200 if quick else 4000, mask_panic_only=True)
    total += dn
    pipe_cov = {"disassembled_modules": dn}
    rc = rep.finish()
    write_evidence("C04", tier, seed, {
        "states": mc["states"], "transitions": mc["transitions"],
        "traces_validated_against_impl": total, "samples": samples[:3],
        "model": {"module": "spec/MC_Decoder.tla", "config": "MC_Decoder_total.cfg", "invariant": "Total (every request has an outcome in every state, limits 0..3 and Huge)"},
        "decoder_events": dn, "input_classes": classes, "pipeline": pipe_cov, "exhaustive": False,
    }, pcommon.BASE_ASSUMPTIONS + ["a panic of the code under test is caught with catch_unwind and recorded as an ordinary result value no specification action produces",
        "the harness is built with overflow-checks and debug-assertions on, so arithmetic overflow is observed as a panic",
        "reads outside the buffer: safe Rust turns them into panics; the one unsafe slice construction (parse_words) is exercised by every words-API event"],
        time.time() - t0, len(rep.new))
    return rc
