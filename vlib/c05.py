"""C05 Loader accepts exactly well-bracketed function/block structure."""
from .lcommon import *

def run_check(tier, seed, replay=None):
    quick = tier == "quick"
    return loader_check("C05", tier, seed, replay, CODE_LOADER | CODE_PANIC, "MC_Loader_%s.cfg" % tier,
        suites=[("model", "classes", ["--reps", "1"], True),
                ("sweep", "sweep", [], False),
                ("random", "random", ["--n", "400" if quick else "6000"], False)],
        required_outcomes=["ok", "err:NestedFunction", "err:UnclosedFunction", "err:MismatchedFunctionEnd", "err:DetachedFunctionParameter",
                           "err:DetachedBlock", "err:NestedBlock", "err:UnclosedBlock", "err:MismatchedTerminator", "err:DetachedInstruction"],
        assumptions=BASE_ASSUMPTIONS + ["SpecFacts.tla: the loader class of every opcode is transcribed by hand from the SPIR-V specification (logical layout, instruction groups); vendor opcodes and context-dependent ones (OpExtInst, OpUntypedVariableKHR) are 'don't care' as the property says",
                                        "the operational Loader!Load is proved equivalent to the declarative positional WellBracketed/FirstBad on all class sequences up to the model bound"])
