"""C06 Every module built with the Builder survives assemble-then-load unchanged."""
from .bcommon import *

def run_check(tier, seed, replay=None):
    q = tier == "quick"
    return builder_check("C06", tier, seed, replay, B_CONTENT | B_PANIC,
        suites=[("methods", "methods", [], False),
                # ids reserved from the builder, a failing call, then the same ids used for real: "a bound above every id used"
                ("ids", "ids", [], False),
                ("random", "random", ["--n", "200" if q else "6000", "--len", "30" if q else "60"], False)],
        required=["Ok"],
        assumptions=BASE_ASSUMPTIONS + ["every public Builder method of the CURRENT tree gets one generated call (harness/gen_builder.py parses the signatures; a shape it cannot handle is a tool error); argument values are pairwise distinct so that any swap is visible",
            "arguments conform to the grammar: parameters of enumerants / mask bits are supplied per the pinned grammar, optional arguments only as a trailing run, *_bit64 constants get a declared 64-bit type",
            "complete histories only: begin_block_no_label and terminators inserted before the end make a module incomplete (BuilderTrace!Complete) and are judged by C12 only"])
