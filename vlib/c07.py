"""C07 Disassembly is a complete, unambiguous rendering of the instruction stream."""
import json, re, os, time
from .common import *
from .pcommon import BASE_ASSUMPTIONS

NAMES = os.path.join(SPEC, "DisasmNames.json")


def run_disasm(rep, prop, seed, n, mask_panic_only=False):
    trace = os.path.join(BUILD, prop.lower() + "_disasm.ndjson")
    info = vh(["drive-disasm", "--grammar", GRAMMAR, "--names", NAMES, "--n", str(n), "--seed", str(seed), "--out", trace])
    nev, bad, dt = tlc_trace("DisasmTrace.tla", "DisasmTrace.cfg", trace, prop.lower() + "_disasm", env={"DISASMNAMES": NAMES}, timeout=3000)
    events = read_trace(trace) if bad else []
    names = {k: v["name"] for k, v in json.load(open(GRAMMAR))["insts"].items()}
    counted = 0
    for idx, code in bad:
        if mask_panic_only and code not in (4, 5):
            continue
        e = events[idx - 1]
        if e["ev"] == "hdrpair":
            rep.violation("disasm:header-pair:tool%d" % e["g1"], {"component": "disassembler", "input": {"header_pair": [e["g1"], e["g2"]]},
                          "observed": {"tok1": e["tok1"], "tok2": e["tok2"]}, "expected": "DisasmTrace!PairCode: a registered tool and a tool id outside the pinned list never share a header comment", "spec_ref": "DisasmTrace!PairCode"})
            counted += 1
            continue
        if code == 4:
            if mask_panic_only:
                rep.violation("load:panic:%s" % e["panic"][1][:50], {"component": "loader", "input": {"words": e["words"]},
                              "observed": {"panic": e["panic"]}, "expected": "Ok or Err", "spec_ref": "Loader!Load is total"})
                counted += 1
            else:
                log("note: the loader panicked on a generated module (C04's business): %s" % e["panic"][1][:80])
            continue
        # first line that does not read back / whose instruction differs
        culprit = ""
        if e["st"] == "ok":
            m = e["m"]
            alli = []
            for s in ("capabilities", "extensions", "ext_inst_imports", "memory_model", "entry_points", "execution_modes", "debug_string_source", "debug_names", "debug_module_processed", "annotations", "types_global_values"):
                alli += m[s]
            for f in m["functions"]:
                alli += f["def"] + f["params"]
                for b in f["blocks"]:
                    alli += b["label"] + b["insts"]
                alli += f["end"]
            for a, b in zip(alli, e["reread"]):
                if a != b:
                    culprit = names.get(str(a["op"]), str(a["op"])) + ":" + ",".join(o["k"] for o in a["ops"])[:60]
                    break
            if not culprit and len(alli) + e.get("nh", 0) != len(e["lines"]):
                culprit = "linecount"
        else:
            culprit = "panic:" + e["panic"][1][:50]
        rep.violation("disasm:%s:code%d:%s" % (e["tag"], code, culprit), {"component": "disassembler", "input": {"module": e["m"]},
                      "observed": {"lines": e["lines"][:200], "st": e["st"]}, "expected": "DisasmTrace!OK", "spec_ref": "DisasmTrace!OK"})
        counted += 1
    log("disassembly: %d modules, %d rejected (%d counted), %.1fs" % (nev, len(bad), counted, dt))
    return nev, trace


def run_check(tier, seed, replay=None):
    t0 = time.time()
    rep = Report("C07")
    build_harness()
    # design level: the line format of Disasm.tla is injective on a bounded universe over the whole pinned grammar,
    # and the vocabulary (opcode / enumerant / mask-bit names) is unambiguous
    mc = None
    if not replay:
        mc = tlc_mc("MC_Disasm.tla", "MC_Disasm.cfg", "c07_mc", timeout=900, workers=2, env={"DISASMNAMES": NAMES})
        m = re.search(r'"opcodes checked", (\d+), "of", (\d+)', open(os.path.join(BUILD, "c07_mc.mc.out")).read())
        mc["opcodes_checked"] = int(m.group(1)) if m else 0
        log("model MC_Disasm: %s" % mc)
    n, trace = run_disasm(rep, "C07", seed, 300 if tier == "quick" else 6000)
    tags = {}
    lines = 0
    sample = None
    with open(trace) as f:
        for l in f:
            e = json.loads(l)
            tags[e["tag"]] = tags.get(e["tag"], 0) + 1
            lines += len(e.get("lines", []))
            if e["tag"] == "extinst-strings" and "lines" in e:
                sample = {"lines": e["lines"][:12]}
    for t in ("random", "sweep", "constants", "extinst-strings"):
        if tags.get(t, 0) == 0:
            if not rep.new:
                raise ToolError("vacuous run: no '%s' module was disassembled" % t)
    rc = rep.finish()
    write_evidence("C07", tier, seed, {
        "states": n + 1, "transitions": n, "states_note": "states of the trace specification DisasmTrace (one per disassembled module)",
        "traces_validated_against_impl": n, "samples": [sample], "lines_validated": lines, "input_classes": tags, "exhaustive": False,
        "model": {"module": "spec/MC_Disasm.tla", "config": "MC_Disasm.cfg", "opcodes_with_injective_line_format": (mc or {}).get("opcodes_checked"),
                  "invariants": ["Injective", "OpNamesUnique", "EnumNamesUnique", "MaskNamesUnique", "MaskNamesCoverGrammar"]},
    }, BASE_ASSUMPTIONS + ["spec/DisasmNames.json: printed names of all mask bits, pinned from the pinned tree's Disassemble impls and cross-checked against the constant names",
        "the VALUE of tokens TLC cannot spell (large decimals, floats, escaped strings, OpenCL/GLSL instruction names) is decided by an independent reader in the harness that knows only the vocabulary; TLC compares what it reads with the module (NaN payloads excepted) and checks the token structure of every line itself",
        "the generator tool name is checked for the registered ids 0..15 (names transcribed from the SPIR-V registry); the rendering of unregistered ids is not constrained"], time.time() - t0, len(rep.new))
    return rc
