"""C08 spirv enums and bit-masks map numbers and names exactly as declared."""
import os, time
from .tcommon import *

def run_check(tier, seed, replay=None):
    t0 = time.time()
    rep = Report("C08")
    build_harness()
    exhaustive = tier == "thorough"
    n, nbad, events = run_tables(rep, "C08", "c08", seed, ["--exhaustive"] if exhaustive else [])
    # the decoder's typed requests are the second entry point of every conversion (autogen_decode_operand.rs):
    # every declared value and its neighbours, every bit, through Decoder::<kind>()
    from . import c11
    dtrace = os.path.join(BUILD, "c08_typed.ndjson")
    vh(["drive-decoder", "--typed-sweep", GRAMMAR, "--out", dtrace])
    dn, dbad, ddt = c11.validate_decoder_trace(rep, dtrace, "c08_typed")
    log("typed decoder requests: %d events, %d rejected" % (dn, len(dbad)))
    n += dn
    kinds = {}
    for e in events:
        kinds[e["ev"]] = kinds.get(e["ev"], 0) + 1
    sweeps = [e for e in events if e["ev"] in ("sweep", "mask")]
    rc = rep.finish()
    write_evidence("C08", tier, seed, {
        "states": n + 1, "transitions": n, "states_note": "states of the trace specification TablesTrace (one per validated observation)",
        "traces_validated_against_impl": n, "samples": [sweeps[1], sweeps[-1]],
        "evaluations": (len(sweeps) * (1 << 32)) if exhaustive else sum(int(e["probes"]) for e in sweeps),
        "distinct_nontrivial": len(sweeps), "rule": "one sweep per enumeration / mask type (45 + 15); thorough: ALL 2^32 numbers through every from_u32 / from_bits (16 threads), recorded as maximal accepted intervals; quick: 0..2^20, every declared value and range bound +-1, every power of two +-1, 2^32-1, 10^6 random numbers",
        "exhaustive": exhaustive, "event_kinds": kinds,
    }, BASE_ASSUMPTIONS + [KHRONOS, "an accepted value is observed through `as u32` only and Debug-printed only after acceptance"], time.time() - t0, len(rep.new))
    return rc
