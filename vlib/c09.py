"""C09 Grammar tables are total, unique and match the Khronos grammar."""
import time
from .tcommon import *

def run_check(tier, seed, replay=None):
    t0 = time.time()
    rep = Report("C09")
    build_harness()
    n, nbad, events = run_tables(rep, "C09", "c09", seed)
    kinds = {}
    for e in events:
        kinds[e["ev"]] = kinds.get(e["ev"], 0) + 1
    entry = next(e for e in events if e["ev"] == "entry")
    rc = rep.finish()
    write_evidence("C09", tier, seed, {
        "states": n + 1, "transitions": n, "states_note": "states of the trace specification TablesTrace (one per validated observation)",
        "traces_validated_against_impl": n, "samples": [entry],
        "evaluations": 65536 + 2 * 4100 + kinds.get("entry", 0) + kinds.get("get", 0), "distinct_nontrivial": kinds.get("entry", 0),
        "rule": "lookup_opcode for all 65536 numbers; get(op) for every declared Op / GLOp / CLOp; every entry of the three tables compared field by field with the snapshot, with WellFormed and with the hand-transcribed InstAnchors; extended tables probed on 0..4095 and far numbers",
        "exhaustive": True, "event_kinds": kinds,
    }, BASE_ASSUMPTIONS + [KHRONOS], time.time() - t0, len(rep.new))
    return rc
