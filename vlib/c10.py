"""C10 Context-dependent literal widths follow the types declared earlier."""
from .pcommon import *

def run_check(tier, seed, replay=None):
    n = 500 if tier == "quick" else 10000
    return parser_family_check("C10", tier, seed, replay, CODE_CONTENT | CODE_PANIC,
        models=[("tracker", "MC_Tracker.tla", "MC_Tracker_%s.cfg" % tier)],
        suites=[("hist", "c10", ["--n", str(n)], "tracker")],
        required_tags=["c10-exact", "c10-plus", "c10-minus", "c10-alone", "c10-random", "c10-defop", "c10-asm"],
        required_results=["Ok", "Err:TypeUnsupported", "Err:OperandExceeded"],
        assumptions=BASE_ASSUMPTIONS + ["ids are defined once per binary (as in the property's quantifier)"])
