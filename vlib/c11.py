"""C11 Decoder consumes exactly what it returns and honours limits.
   M : MC_Decoder (exhaustive bounded model of Decoder.tla, C11 statements as invariants/action properties)
   B→: every (state, request) edge of the model replayed on the real Decoder
   ←T: random request histories on random buffers, validated against Decoder.tla by DecoderTrace"""
import json, os, time
from .common import *

TIERS = {
    "quick": {"cfg": "MC_Decoder_quick.cfg", "random": 3000, "mc_timeout": 600},
    "thorough": {"cfg": "MC_Decoder_thorough.cfg", "random": 60000, "mc_timeout": 3000},
}


def decoder_key(e):
    r = e["res"]
    k = "decoder:%s:%s" % (e["call"][0], r[0])
    if r[0] == "Panic":
        import re
        k += ":" + re.sub(r"\d+", "N", r[1])[:60] + ":" + r[2]
    elif r[0] == "Err":
        k += ":" + r[1]
    return k


def validate_decoder_trace(rep, trace, name, only_panics=False):
    n, bad, dt = tlc_trace("DecoderTrace.tla", "DecoderTrace.cfg", trace, name)
    if bad:
        events = read_trace(trace)
        for idx, code in bad:
            e = events[idx - 1]
            if only_panics and not (code & 4):
                continue
            s, hist = history_of(events, idx)
            rep.violation(decoder_key(e), {
                "component": "decoder",
                "history": {"bytes": hist[0]["bytes"], "calls": [x["call"] for x in hist[1:]]},
                "observed": e,
                "expected": "a step of Decoder!Succ (spec/Decoder.tla) for this call in the state reached by the preceding calls",
                "spec_ref": "Decoder!Succ"})
    return n, bad, dt


def selftest_binding():
    """Corrupt one recorded field / drop one event of a trace recorded from the real decoder:
    the trace specification must accept the original and reject both corruptions, otherwise
    the binding is vacuous (tool error)."""
    hp = os.path.join(BUILD, "c11.selftest.hist")
    open(hp, "w").write(json.dumps({"bytes": [1, 0, 0, 0, 2, 0, 0, 0, 97, 98, 0, 0],
                                    "calls": [["word"], ["set_limit", 2], ["word"], ["string"], ["word"]]}) + "\n")
    tp = os.path.join(BUILD, "c11.selftest.ndjson")
    vh(["drive-decoder", "--histories", hp, "--out", tp])
    events = read_trace(tp)
    _, bad0, _ = tlc_trace("DecoderTrace.tla", "DecoderTrace.cfg", tp, "c11_self_0")
    a = [dict(e) for e in events]
    a[3]["off"] = a[3]["off"] + 4                      # (a) corrupt the offset after the 2nd word
    pa = os.path.join(BUILD, "c11.selftest_a.ndjson")
    open(pa, "w").write("".join(json.dumps(e) + "\n" for e in a))
    _, bad_a, _ = tlc_trace("DecoderTrace.tla", "DecoderTrace.cfg", pa, "c11_self_a")
    b = [e for i, e in enumerate(events) if i != 3]    # (b) drop the 2nd word request
    pb = os.path.join(BUILD, "c11.selftest_b.ndjson")
    open(pb, "w").write("".join(json.dumps(e) + "\n" for e in b))
    _, bad_b, _ = tlc_trace("DecoderTrace.tla", "DecoderTrace.cfg", pb, "c11_self_b")
    if bad0 or not bad_a or not bad_b:
        raise ToolError("selftest: original rejected (%s) or corrupted trace accepted (a=%s b=%s): binding is vacuous" % (bad0, bad_a, bad_b))
    return {"original_accepted": True, "corrupted_offset_rejected_at": bad_a[:3], "dropped_event_rejected_at": bad_b[:3]}


def apalache_inductive():
    return apalache_check("DecoderArith.tla")


def coverage_classes(trace):
    cls = {}
    with open(trace) as f:
        for l in f:
            e = json.loads(l)
            if e["ev"] != "call":
                continue
            k = e["call"][0] + ":" + e["res"][0] + (":" + e["res"][1] if e["res"][0] == "Err" else "")
            cls[k] = cls.get(k, 0) + 1
    return cls


REQUIRED_CLASSES = ["word:Ok", "word:Err:LimitReached", "word:Err:StreamExpected", "words:Ok", "words:Err:StreamExpected",
                    "bit64:Ok", "string:Ok", "string:Err:LimitReached", "string:Err:StreamExpected",
                    "string:Err:DecodeStringFailed", "typed:Ok", "typed:Err:Unknown", "set_limit:Unit", "clear_limit:Unit"]


def run_check(tier, seed, replay=None):
    t0 = time.time()
    rep = Report("C11")
    build_harness()
    if replay:
        r = json.load(open(replay))
        hp = os.path.join(BUILD, "c11.replay.hist")
        open(hp, "w").write(json.dumps(r["history"]) + "\n")
        tp = os.path.join(BUILD, "c11.replay.ndjson")
        vh(["drive-decoder", "--histories", hp, "--out", tp])
        validate_decoder_trace(rep, tp, "c11_replay")
        return rep.finish()
    T = TIERS[tier]
    hist = os.path.join(BUILD, "c11.hist")
    mc = tlc_mc("MC_Decoder.tla", T["cfg"], "c11_mc", timeout=T["mc_timeout"], edges_out=hist)
    log("model: %s" % mc)
    trace = os.path.join(BUILD, "c11.trace.ndjson")
    info = vh(["drive-decoder", "--histories", hist, "--typed-sweep", GRAMMAR, "--random", str(T["random"]), "--seed", str(seed), "--out", trace])
    n, bad, dt = validate_decoder_trace(rep, trace, "c11_trace")
    log("trace: %d events, %d rejected, %.1fs" % (n, len(bad), dt))
    cls = coverage_classes(trace)
    missing = [c for c in REQUIRED_CLASSES if cls.get(c, 0) == 0]
    if not rep.new:
        soft_required(missing, all(any(k.startswith(c + ":Ok") and v > 0 for k, v in cls.items()) for c in ("word", "words", "bit64", "string", "typed"))
                               and any(":Err:" in k and v > 0 for k, v in cls.items()))
    st = selftest_binding()
    events = read_trace(trace)
    sample = events[:6]
    rc = rep.finish()
    write_evidence("C11", tier, seed, {
        "states": mc["states"], "transitions": mc["transitions"],
        "traces_validated_against_impl": info["histories"],
        "samples": sample,
        "model": {"module": "spec/MC_Decoder.tla", "config": T["cfg"], "depth": mc["depth"], "edges_replayed": mc["edges"]},
        "events_validated": n, "events_rejected": len(bad),
        "outcome_classes": cls, "binding_selftest": st,
        "random_histories": T["random"],
        "apalache_inductive_invariant": apalache_inductive(),
        "exhaustive": False,
    }, ["TLC 1.8.0 and the CommunityModules", "GrammarData.json (pinned projection of SPIR-V grammar sdk-1.4.309.0) for the typed requests",
        "harness projection: Decoder::offset/has_limit/limit_reached and the DecodeError Debug text"],
        time.time() - t0, len(rep.new))
    return rc
