"""C12 Builder calls never panic, failed calls change nothing, structure is enforced."""
import os
from .bcommon import *

def extras(tier, seed):
    """Specification growth beyond the listed properties (BuilderExtraTrace.tla): never a verdict."""
    import json
    trace = os.path.join(BUILD, "c12_extra.ndjson")
    vh(["drive-builder-extra", "--n", "150" if tier == "quick" else "3000", "--seed", str(seed), "--out", trace])
    n, bad, dt = tlc_trace("BuilderExtraTrace.tla", "BuilderExtraTrace.cfg", trace, "c12_extra")
    if bad:
        ev = read_trace(trace)
        for idx, code in bad[:5]:
            log("EXTRA-OBSERVATION (not a property verdict): %s rejected by BuilderExtraTrace: %s" % (ev[idx - 1].get("what"), json.dumps(ev[idx - 1])[:300]))
    path = os.path.join(EVIDENCE, "C12.json")
    e = json.load(open(path))
    e["coverage"]["extra_behaviours"] = {"spec": "spec/BuilderExtraTrace.tla", "behaviours": ["select_function_by_name", "find_return_block_indices", "insert_types_global_values", "dedup_insert_type", "version/set_version"],
                                         "events_validated": n, "rejected": len(bad), "note": "beyond the listed properties; reported, never a verdict"}
    json.dump(e, open(path, "w"), indent=1)


def run_check(tier, seed, replay=None):
    q = tier == "quick"
    rc = _run(tier, seed, replay, q)
    try:
        extras(tier, seed)
    except ToolError as e:
        log("extras skipped: %s" % str(e)[:200])
    return rc


def _run(tier, seed, replay, q):
    return builder_check("C12", tier, seed, replay, B_STRUCT | B_PANIC,
        model=("MC_Builder_%s_inv.cfg" % tier, "MC_Builder_%s_emit.cfg" % tier, 120 if q else 8),
        suites=[("model", "histories", [], True),
                # every public method once in its legal and in an illegal situation: "a terminator closes the block"
                # holds for EACH terminator method (appending and inserting form), not for the sampled ones only
                ("methods", "methods", [], False),
                ("random", "random", ["--n", "150" if q else "3000", "--len", "30" if q else "60"], False)],
        required=["Ok", "Err"],
        assumptions=BASE_ASSUMPTIONS + ["which error variant a failing call returns is not constrained (the property fixes only when calls fail)",
            "insertion offsets are chosen within the selected block, as the property says",
            "spec/BuilderMethods.json: pinned table method -> opcode / kind; the block vs terminator distinction is taken from SpecFacts.tla, not from the tree"])
