"""C12 Builder calls never panic, failed calls change nothing, structure is enforced."""
from .bcommon import *

def run_check(tier, seed, replay=None):
    q = tier == "quick"
    return builder_check("C12", tier, seed, replay, B_STRUCT | B_PANIC,
        model=("MC_Builder_%s_inv.cfg" % tier, "MC_Builder_%s_emit.cfg" % tier, 120 if q else 8),
        suites=[("model", "histories", [], True),
                ("random", "random", ["--n", "150" if q else "3000", "--len", "30" if q else "60"], False)],
        required=["Ok", "Err"],
        assumptions=BASE_ASSUMPTIONS + ["which error variant a failing call returns is not constrained (the property fixes only when calls fail)",
            "insertion offsets are chosen within the selected block, as the property says",
            "spec/BuilderMethods.json: pinned table method -> opcode / kind; the block vs terminator distinction is taken from SpecFacts.tla, not from the tree"])
