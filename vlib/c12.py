"""C12 Builder calls never panic, failed calls change nothing, structure is enforced."""
import os
from .bcommon import *

def extras(tier, seed, patch_evidence=True):
    """Specification growth beyond the listed properties (BuilderExtraTrace.tla): never a verdict."""
    import json
    trace = os.path.join(BUILD, "c12_extra.ndjson")
    vh(["drive-builder-extra", "--n", "150" if tier == "quick" else "3000", "--seed", str(seed), "--out", trace])
    n, bad, dt = tlc_trace("BuilderExtraTrace.tla", "BuilderExtraTrace.cfg", trace, "c12_extra")
    verdicts = []
    if bad:
        ev = read_trace(trace)
        shown = 0
        for idx, code in bad:
            e = ev[idx - 1]
            # the two sentences of C12 that hold for EVERY Builder call: no panic, and a selection that designates
            # something that exists - select_function_by_name is a Builder call like any other
            if e.get("what") == "select_by_name" and code in (5, 17):
                verdicts.append(("builder:select_function_by_name:%s" % ("panic" if code == 5 else "selection"), {"component": "builder", "input": {"extra": "select_function_by_name", "name": e.get("name"), "pre": e.get("pre")},
                                 "observed": {"res": e.get("res"), "post": e.get("post"), "functions": len(e["module"][0]["functions"]) if e.get("module") else None},
                                 "expected": "Builder!SelectionValid after the call; no panic", "spec_ref": "BuilderExtraTrace (code 17 / 5)"}))
            elif shown < 5:
                shown += 1
                log("EXTRA-OBSERVATION (not a property verdict): %s rejected by BuilderExtraTrace: %s" % (e.get("what"), json.dumps(e)[:300]))
    if not patch_evidence:
        return verdicts
    path = os.path.join(EVIDENCE, "C12.json")
    e = json.load(open(path))
    e["coverage"]["extra_behaviours"] = {"spec": "spec/BuilderExtraTrace.tla", "behaviours": ["select_function_by_name", "find_return_block_indices", "insert_types_global_values", "dedup_insert_type", "version/set_version"],
                                         "events_validated": n, "rejected": len(bad), "note": "beyond the listed properties; reported, never a verdict - except that select_function_by_name, being a Builder call, falls under C12's 'no call panics' and 'the selection always designates an existing function and block or nothing'"}
    e["violations"] = e.get("violations", 0) + len({k for k, _ in verdicts})
    json.dump(e, open(path, "w"), indent=1)
    return verdicts


def run_check(tier, seed, replay=None):
    q = tier == "quick"
    if replay:
        import json
        if "extra" in json.load(open(replay)).get("input", {}):
            # the witness is a sentence about select_function_by_name: re-run that driver and judge it alone
            rep = Report("C12")
            for k, r in extras(tier, seed, patch_evidence=False):
                rep.violation(k, r)
            return rep.finish()
        return _run(tier, seed, replay, q)
    rc = _run(tier, seed, replay, q)
    try:
        verdicts = extras(tier, seed)
    except ToolError as e:
        log("extras skipped: %s" % str(e)[:200])
        return rc
    if verdicts:
        rep = Report("C12")
        for k, r in verdicts:
            rep.violation(k, r)
        rc = max(rc, rep.finish())
    return rc


def _run(tier, seed, replay, q):
    return builder_check("C12", tier, seed, replay, B_STRUCT | B_PANIC,
        model=("MC_Builder_%s_inv.cfg" % tier, "MC_Builder_%s_emit.cfg" % tier, 120 if q else 8),
        suites=[("model", "histories", [], True),
                # every public method once in its legal and in an illegal situation: "a terminator closes the block"
                # holds for EACH terminator method (appending and inserting form), not for the sampled ones only
                ("methods", "methods", [], False),
                ("random", "random", ["--n", "150" if q else "3000", "--len", "30" if q else "60"], False)],
        required=["Ok", "Err"],
        assumptions=BASE_ASSUMPTIONS + ["which error variant a failing call returns is not constrained (the property fixes only when calls fail)",
            "insertion offsets are chosen within the selected block, as the property says",
            "spec/BuilderMethods.json: pinned table method -> opcode / kind; the block vs terminator distinction is taken from SpecFacts.tla, not from the tree"])
