"""C13 Builder id discipline: fresh ids, exact bound, deduplicated implicit types."""
from .bcommon import *

def run_check(tier, seed, replay=None):
    q = tier == "quick"
    return builder_check("C13", tier, seed, replay, B_IDS,
        model=("MC_Builder_%s_inv.cfg" % tier, "MC_Builder_%s_emit.cfg" % tier, 120 if q else 8),
        suites=[("model", "histories", [], True),
                ("methods", "methods", [], False),
                ("ids", "ids", [], False),
                ("random", "random", ["--n", "150" if q else "3000", "--len", "30" if q else "60"], False)],
        required=["Ok", "Err"],
        assumptions=BASE_ASSUMPTIONS + ["the id counter is not observable: BuilderTrace carries the set of values it may have; a failing call may burn at most one id, a successful one none beyond the id it returns",
            "'same opcode and operands' is decided on the flattened operand words of earlier declarations against the request's arguments"])
