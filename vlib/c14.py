"""C14 Parser drives the consumer in protocol order and obeys its actions."""
from .pcommon import *

def run_check(tier, seed, replay=None):
    n, reps = (25, 3) if tier == "quick" else (300, 12)
    return parser_family_check("C14", tier, seed, replay, CODE_SHAPE | CODE_PANIC,
        models=[("protocol", "MC_Protocol.tla", "MC_Protocol_%s.cfg" % tier)],
        suites=[("proto", "c14", ["--n", str(n), "--reps", str(reps)], "protocol")],
        required_tags=["c14-model", "wellformed", "c14-sweep", "c14-badvalue"],
        required_results=["Ok", "Err:ConsumerStopRequested", "Err:ConsumerError"],
        extra_cov=(lambda: {"apalache_inductive_invariant": apalache_check("ProtocolInv.tla")}) if tier == "thorough" else None,
        assumptions=BASE_ASSUMPTIONS + ["the consumer's own error value is a unique token per callback position, recovered through Display of the returned error"])
