"""C15 Module traversals visit exactly the assembled instruction sequence."""
import json, os, time
from .common import *
from .pcommon import BASE_ASSUMPTIONS


def extras(tier, seed):
    """Specification growth beyond the listed properties (HeaderExtraTrace.tla): never a verdict."""
    trace = os.path.join(BUILD, "c15_header.ndjson")
    vh(["drive-module", "--header-api", "--n", "300" if tier == "quick" else "20000", "--seed", str(seed), "--out", trace])
    n, bad, dt = tlc_trace("HeaderExtraTrace.tla", "HeaderExtraTrace.cfg", trace, "c15_header", env={"DISASMNAMES": os.path.join(SPEC, "DisasmNames.json")})
    if bad:
        ev = read_trace(trace)
        for idx, code in bad[:5]:
            log("EXTRA-OBSERVATION (not a property verdict): ModuleHeader accessor rejected by HeaderExtraTrace: %s" % json.dumps(ev[idx - 1])[:300])
    path = os.path.join(EVIDENCE, "C15.json")
    e = json.load(open(path))
    e["coverage"]["extra_behaviours"] = {"spec": "spec/HeaderExtraTrace.tla", "behaviours": ["ModuleHeader::version", "ModuleHeader::generator", "ModuleHeader::set_version", "ModuleHeader::new"],
                                         "events_validated": n, "rejected": len(bad), "note": "beyond the listed properties; reported, never a verdict"}
    json.dump(e, open(path, "w"), indent=1)


def run_check(tier, seed, replay=None):
    rc = _run(tier, seed, replay)
    if not replay:
        try:
            extras(tier, seed)
        except ToolError as e:
            log("extras skipped: %s" % str(e)[:200])
    return rc


def _run(tier, seed, replay=None):
    t0 = time.time()
    rep = Report("C15")
    build_harness()
    trace = os.path.join(BUILD, "c15.ndjson")
    info = vh(["drive-module", "--out", trace, "--seed", str(seed), "--mode", tier, "--random", "3000" if tier == "quick" else "30000"])
    n, bad, dt = tlc_trace("ModuleTrace.tla", "ModuleTrace.cfg", trace, "c15_trace", timeout=3000)
    log("module traversals: %d events, %d rejected, %.1fs" % (n, len(bad), dt))
    events = None
    if bad:
        events = read_trace(trace)
        for idx, code in bad:
            e = events[idx - 1]
            m = e["m"]
            shape = "hdr%d-mm%d-" % (len(m["header"]), len(m["memory_model"])) + "".join(str(min(len(m[s]), 9)) for s in
                    ("capabilities", "extensions", "ext_inst_imports", "entry_points", "execution_modes", "debug_string_source", "debug_names",
                     "debug_module_processed", "annotations", "types_global_values")) + "-f%d" % len(m["functions"])
            # which observation differs first (coarse, for the witness key)
            rep.violation("module:code%d:%s" % (code, shape if len(rep.new) < 3 else "more"), {"component": "module", "input": {"module": m},
                          "observed": {k: e.get(k) for k in ("st", "all", "global", "fns", "words")},
                          "expected": "ModuleTrace!OK: the traversals and assemble() of Module.tla", "spec_ref": "ModuleTrace!OK"})
    sample = json.loads(open(trace).readline())
    rc = rep.finish()
    write_evidence("C15", tier, seed, {
        "states": n + 1, "transitions": n, "states_note": "states of the trace specification ModuleTrace (one per validated module value); the property is a pure algebraic identity, there is no separate bounded model",
        "traces_validated_against_impl": n, "samples": [{"m": sample["m"], "all_len": len(sample.get("all", []))}],
        "shapes": info.get("shapes"), "exhaustive": tier == "thorough",
        "exhaustive_note": "thorough enumerates every combination of section sizes 0..2 for the ten vector sections (3^10) with header / memory model alternating and random function parts; all 32 present/absent combinations of header, memory model, def, end, label on a fixed body in both tiers",
    }, ["TLC 1.8.0", "harness builds dr::Module values through the public fields and projects them by field copy", "instructions are uniquely tagged OpUndef %tag %tag"],
        time.time() - t0, len(rep.new))
    return rc
