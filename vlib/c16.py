"""C16 Opcode classification predicates agree with the SPIR-V specification."""
import json, os, time
from .common import *
from . import bcommon
from .pcommon import BASE_ASSUMPTIONS


def run_check(tier, seed, replay=None):
    t0 = time.time()
    rep = Report("C16")
    build_harness()
    trace = os.path.join(BUILD, "c16.ndjson")
    info = vh(["drive-preds", "--out", trace])
    n, bad, dt = tlc_trace("PredTrace.tla", "PredTrace.cfg", trace, "c16_preds")
    names = {k: v["name"] for k, v in json.load(open(GRAMMAR))["insts"].items()}
    events = read_trace(trace)
    for idx, code in bad:
        e = events[idx - 1]
        rep.violation("pred:%s:code%d" % (names.get(str(e["op"]), e["op"]), code),
                      {"component": "reflect", "input": {"opcode": e["op"], "name": names.get(str(e["op"]))}, "observed": e.get("flags"),
                       "expected": "PredTrace!OK: SpecFacts classes (must / don't-care / must-not), union laws, disjointness", "spec_ref": "PredTrace!OK"})
    log("predicates: %d opcodes x %d predicates, %d rejected" % (n, info.get("predicates", 0), len(bad)))
    # Builder clause: every block-level / terminator method of the Builder, once
    btrace, binfo = bcommon.run_suite("c16_methods", "methods", seed)
    bn, bnbad, bcounted, bdt = bcommon.validate(rep, btrace, "c16_methods", bcommon.B_TERM)
    log("builder methods: %d events, %d rejected (%d count for C16)" % (bn, bnbad, bcounted))
    # cross-check of the two observed sets (both are also individually held against SpecFacts by TLC)
    table = json.load(open(bcommon.METHODS))
    pred_term = {names[str(e["op"])] for e in events if e["st"] == "ok" and e["flags"].get("is_block_terminator")}
    ends, keeps = set(), set()
    prev_selb = None
    for e in read_trace(btrace):
        if e["ev"] == "bnew":
            prev_selb = []
        elif e["ev"] == "bcall":
            k = table.get(e["m"], {}).get("kind", "")
            if k in ("block", "term", "insert_block", "insert_term") and e["res"][0] == "Ok" and prev_selb:
                (ends if e["selB"] == [] else keeps).add(table[e["m"]]["op"])
            prev_selb = e["selB"]
    for op in sorted((ends - pred_term) | (keeps & pred_term)):
        rep.violation("builder-vs-predicate:%s" % op, {"component": "builder+reflect", "input": {"opcode_name": op},
                      "observed": {"builder_ends_block": op in ends, "is_block_terminator": op in pred_term},
                      "expected": "the Builder ends a block for exactly the opcodes the terminator predicate accepts"})
    rc = rep.finish()
    write_evidence("C16", tier, seed, {
        "states": n + bn + 2, "transitions": n + bn, "states_note": "states of the trace specifications PredTrace + BuilderTrace (one per evaluated opcode / validated call)",
        "traces_validated_against_impl": n + bn, "samples": [events[21], events[250]],
        "evaluations": n * info.get("predicates", 12), "distinct_nontrivial": n, "rule": "every declared opcode x every predicate of grammar::reflect; PredTrace!Covered proves all 787 opcodes of the grammar were evaluated",
        "exhaustive": True, "builder_ends_block_for": sorted(ends), "terminator_predicate": sorted(pred_term),
    }, BASE_ASSUMPTIONS + ["SpecFacts.tla: class lists transcribed by hand from the SPIR-V specification; vendor OpType*/constant opcodes and OpModuleProcessed (for the non-location debug predicate) are don't-care"],
        time.time() - t0, len(rep.new))
    return rc
