"""C17 Operand reflection agrees with the parser and the grammar."""
import time
from .tcommon import *
from . import pcommon

def run_check(tier, seed, replay=None):
    t0 = time.time()
    rep = Report("C17")
    build_harness()
    n, nbad, events = run_tables(rep, "C17", "c17", seed)
    # what the PARSER consumes after every enumerant / mask value: conforming instructions generated from the
    # snapshot's parameter lists must be accepted and delivered with exactly those parameter operands
    trace, info = pcommon.run_suite("c17_parser", "c02", seed, ["--thorough"] if tier == "thorough" else [])
    pn, pbad, pcounted, pdt = pcommon.validate(rep, trace, "c17_parser", pcommon.CODE_CONTENT | pcommon.CODE_PANIC)
    log("parser side: %d events, %d rejected" % (pn, pbad))
    kinds = {}
    for e in events:
        kinds[e["ev"] + ":" + e.get("cat", "")] = kinds.get(e["ev"] + ":" + e.get("cat", ""), 0) + 1
    rc = rep.finish()
    write_evidence("C17", tier, seed, {
        "states": n + pn + 2, "transitions": n + pn, "states_note": "states of the trace specifications TablesTrace + ParserTrace",
        "traces_validated_against_impl": n + pn, "samples": [events[5], events[-1]],
        "evaluations": n + pn, "distinct_nontrivial": n, "rule": "every enumerant of every operand kind (parameters, capabilities, extensions), every single bit / pair / all / 40 random combinations of every mask, every Operand variant (id_ref_any, id_ref_any_mut rewrite, From / unwrap); parser side: every enumerant and bit inside a conforming instruction",
        "exhaustive": False, "event_kinds": kinds,
    }, BASE_ASSUMPTIONS + [KHRONOS], time.time() - t0, len(rep.new))
    return rc
