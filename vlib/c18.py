"""C18 Lifting preserves module structure on the supported subset."""
import json, os, time
from .common import *
from .pcommon import BASE_ASSUMPTIONS

SUPPORTED = os.path.join(SPEC, "LiftSupported.json")


def run_check(tier, seed, replay=None):
    t0 = time.time()
    rep = Report("C18")
    build_harness()
    trace = os.path.join(BUILD, "c18.ndjson")
    info = vh(["drive-lift", "--grammar", GRAMMAR, "--n", "300" if tier == "quick" else "8000", "--probe", "--seed", str(seed), "--out", trace])
    n, bad, dt = tlc_trace("LiftTrace.tla", "LiftTrace.cfg", trace, "c18_trace", env={"LIFTSUPPORTED": SUPPORTED}, timeout=3000)
    log("lift: %d events, %d rejected, %.1fs" % (n, len(bad), dt))
    names = {k: v["name"] for k, v in json.load(open(GRAMMAR))["insts"].items()}
    events = read_trace(trace)
    for idx, code in bad:
        e = events[idx - 1]
        who = names.get(str(e["probe"][0]), "?") if e["probe"] else "subset"
        rep.violation("lift:%s:%s:code%d:%s" % (e["tag"], who, code, (e.get("err") or "")[:50]), {"component": "lifter", "input": {"module": e["m"]},
                      "observed": {k: e.get(k) for k in ("st", "err", "types", "constants", "ops", "functions")}, "expected": "Lift!LiftOK", "spec_ref": "Lift!LiftOK"})
    tags = {}
    probes_ok = 0
    for e in events:
        tags[e["tag"] + ":" + e["st"]] = tags.get(e["tag"] + ":" + e["st"], 0) + 1
        if e["tag"] == "probe" and e["st"] == "ok":
            probes_ok += 1
    if tags.get("subset:ok", 0) == 0 or probes_ok == 0:
        if not rep.new:
            raise ToolError("vacuous run: %s" % tags)
    s = next((e for e in events if e["tag"] == "subset" and e["st"] == "ok"), None)
    rc = rep.finish()
    write_evidence("C18", tier, seed, {"states": n + 1, "transitions": n, "states_note": "states of the trace specification LiftTrace (one per lifted module)",
        "traces_validated_against_impl": n, "samples": [{k: s[k] for k in ("version", "caps", "mm", "types", "constants", "ops", "functions")}] if s else [],
        "event_classes": tags, "opcodes_probed_and_lifted": probes_ok, "exhaustive": False},
        BASE_ASSUMPTIONS + ["the subset is what the property names: scalar / vector / matrix / pointer / array / struct / function types declared before use, 32-bit constants and composites, blocks of result-producing instructions, phis, non-switch terminators; branches go to blocks already seen (the lifter resolves jumps eagerly)",
            "spec/LiftSupported.json: the 507 result-producing opcodes (id / integer-literal operands) the pinned tree lifts, found by probing; an opcode dropping out of this set is a violation, opcodes outside it are not judged",
            "the structured module is observed through its public fields and derived Debug text flattened to leaves; float constants are not compared numerically"],
        time.time() - t0, len(rep.new))
    return rc
