"""C19 Storage tokens are stable handles to the appended values."""
import json, os, time
from .common import *

def run_check(tier, seed, replay=None):
    t0 = time.time()
    rep = Report("C19")
    build_harness()
    hist = os.path.join(BUILD, "c19.hist")
    trace = os.path.join(BUILD, "c19.ndjson")
    if replay:
        r = json.load(open(replay))
        open(hist, "w").write((json.dumps(r["history"]) + "\n") if "ops" in r["history"] else "")
        vh(["drive-storage", "--histories", hist, "--out", trace])
        mc = None
    else:
        mc = tlc_mc("MC_Storage.tla", "MC_Storage_%s.cfg" % tier, "c19_mc", edges_out=hist)
        hist2 = os.path.join(BUILD, "c19_kt.hist")
        mc2 = tlc_mc("MC_Storage.tla", "MC_Storage_%s_kt.cfg" % tier, "c19_mc_kt", edges_out=hist2)
        hist3 = os.path.join(BUILD, "c19_near.hist")
        mc3 = tlc_mc("MC_Storage.tla", "MC_Storage_%s_near.cfg" % tier, "c19_mc_near", edges_out=hist3)
        mc = {"states": mc["states"] + mc2["states"] + mc3["states"], "transitions": mc["transitions"] + mc2["transitions"] + mc3["transitions"],
              "depth": max(mc["depth"], mc2["depth"], mc3["depth"]), "edges": mc["edges"] + mc2["edges"] + mc3["edges"]}
        log("model: %s" % mc)
        info = vh(["drive-storage", "--histories", hist, "--histories", hist2, "--histories", hist3, "--random", "300" if tier == "quick" else "5000", "--seed", str(seed), "--out", trace])
    n, bad, dt = tlc_trace("StorageTrace.tla", "StorageTrace.cfg", trace, "c19_trace")
    log("trace: %d events, %d rejected, %.1fs" % (n, len(bad), dt))
    events = read_trace(trace) if bad else []
    for idx, code in bad:
        e = events[idx - 1]
        s = idx - 1
        while events[s]["ev"] != "snew":
            s -= 1
        ops = [[x["op"], x["v"]] for x in events[s + 1:idx]]
        rep.violation("storage:%s:%s:%s:code%d" % (events[s]["ty"], e["op"], e["v"].get("m"), code), {"component": "storage", "history": {"ops": ops, "ty": events[s]["ty"]},
                      "observed": {"tok": e["tok"], "lookups": e["lookups"], "st": e["st"]}, "expected": "Storage!Apply and Lookup through every token handed out", "spec_ref": "StorageTrace!Call"})
    bulk = None
    if not replay or "bulk" in json.load(open(replay)).get("history", {}):
        # C19 at scale: "the n-th appended value has index n-1" beyond 2^16 values (spec/StorageBulk.tla)
        nb = json.load(open(replay))["history"]["bulk"] if replay else (70000 if tier == "quick" else 400000)
        mcb = tlc_mc("MC_StorageBulk.tla", "MC_StorageBulk.cfg", "c19_mc_bulk")
        btrace = os.path.join(BUILD, "c19_bulk.ndjson")
        vh(["drive-storage", "--bulk", str(nb), "--out", btrace])
        bn, bbad, bdt = tlc_trace("StorageBulkTrace.tla", "StorageBulkTrace.cfg", btrace, "c19_bulk")
        log("bulk: %d values, %d events, %d rejected, %.1fs" % (nb, bn, len(bbad), bdt))
        bev = read_trace(btrace) if bbad else []
        for idx, code in bbad:
            e = bev[idx - 1]
            if code == 8:
                raise ToolError("bulk driver produced a run StorageBulkTrace does not admit: %s" % json.dumps({k: e[k] for k in ("op", "from", "to")}))
            rep.violation("storage:bulk:%s:code%d" % (e["op"], code), {"component": "storage", "history": {"bulk": nb}, "observed": {"op": e["op"], "from": e["from"], "to": e["to"], "toks": e["toks"][:6], "lookups": e["lookups"][:6], "st": e["st"]},
                          "expected": "StorageBulk!BulkApply: new numbers get the next indices, stored numbers their own; every token yields its number", "spec_ref": "StorageBulkTrace!RunEv"})
        bulk = {"values": nb, "events_validated": bn, "refinement_model": {"module": "spec/MC_StorageBulk.tla", "states": mcb["states"]}}
    rc = rep.finish()
    if replay:
        return rc
    sample = [json.loads(l) for l in open(trace).readlines()[:4]]
    write_evidence("C19", tier, seed, {"states": mc["states"], "transitions": mc["transitions"], "traces_validated_against_impl": info["histories"],
        "samples": sample, "events_validated": n, "model": {"module": "spec/MC_Storage.tla", "config": "MC_Storage_%s.cfg" % tier, "depth": mc["depth"], "edges_replayed": mc["edges"]},
        "bulk": bulk, "tlaps_unbounded_safety": (tlaps_check("StorageSafety.tla") if tier == "thorough" else {"tier": "thorough only"}), "exhaustive": False}, ["TLC 1.8.0", "element types: f64 with +0.0 / -0.0 (equal but distinguishable: a lookup must yield the stored one) and NaN, and a key/tag type whose equality is 'same key and different tag' (non-reflexive, yet stored values can equal the argument), and numbers equal iff at distance <= 1 (reflexive, symmetric, not transitive)"],
        time.time() - t0, len(rep.new))
    return rc
