"""C19 Storage tokens are stable handles to the appended values."""
import json, os, time
from .common import *

def run_check(tier, seed, replay=None):
    t0 = time.time()
    rep = Report("C19")
    build_harness()
    hist = os.path.join(BUILD, "c19.hist")
    trace = os.path.join(BUILD, "c19.ndjson")
    if replay:
        r = json.load(open(replay))
        open(hist, "w").write(json.dumps(r["history"]) + "\n")
        vh(["drive-storage", "--histories", hist, "--out", trace])
        mc = None
    else:
        mc = tlc_mc("MC_Storage.tla", "MC_Storage_%s.cfg" % tier, "c19_mc", edges_out=hist)
        hist2 = os.path.join(BUILD, "c19_kt.hist")
        mc2 = tlc_mc("MC_Storage.tla", "MC_Storage_%s_kt.cfg" % tier, "c19_mc_kt", edges_out=hist2)
        hist3 = os.path.join(BUILD, "c19_near.hist")
        mc3 = tlc_mc("MC_Storage.tla", "MC_Storage_%s_near.cfg" % tier, "c19_mc_near", edges_out=hist3)
        mc = {"states": mc["states"] + mc2["states"] + mc3["states"], "transitions": mc["transitions"] + mc2["transitions"] + mc3["transitions"],
              "depth": max(mc["depth"], mc2["depth"], mc3["depth"]), "edges": mc["edges"] + mc2["edges"] + mc3["edges"]}
        log("model: %s" % mc)
        info = vh(["drive-storage", "--histories", hist, "--histories", hist2, "--histories", hist3, "--random", "300" if tier == "quick" else "5000", "--seed", str(seed), "--out", trace])
    n, bad, dt = tlc_trace("StorageTrace.tla", "StorageTrace.cfg", trace, "c19_trace")
    log("trace: %d events, %d rejected, %.1fs" % (n, len(bad), dt))
    events = read_trace(trace) if bad else []
    for idx, code in bad:
        e = events[idx - 1]
        s = idx - 1
        while events[s]["ev"] != "snew":
            s -= 1
        ops = [[x["op"], x["v"]] for x in events[s + 1:idx]]
        rep.violation("storage:%s:%s:%s:code%d" % (events[s]["ty"], e["op"], e["v"].get("m"), code), {"component": "storage", "history": {"ops": ops, "ty": events[s]["ty"]},
                      "observed": {"tok": e["tok"], "lookups": e["lookups"], "st": e["st"]}, "expected": "Storage!Apply and Lookup through every token handed out", "spec_ref": "StorageTrace!Call"})
    rc = rep.finish()
    if replay:
        return rc
    sample = [json.loads(l) for l in open(trace).readlines()[:4]]
    write_evidence("C19", tier, seed, {"states": mc["states"], "transitions": mc["transitions"], "traces_validated_against_impl": info["histories"],
        "samples": sample, "events_validated": n, "model": {"module": "spec/MC_Storage.tla", "config": "MC_Storage_%s.cfg" % tier, "depth": mc["depth"], "edges_replayed": mc["edges"]},
        "exhaustive": False}, ["TLC 1.8.0", "element types: f64 with +0.0 / -0.0 (equal but distinguishable: a lookup must yield the stored one) and NaN, and a key/tag type whose equality is 'same key and different tag' (non-reflexive, yet stored values can equal the argument), and numbers equal iff at distance <= 1 (reflexive, symmetric, not transitive)"],
        time.time() - t0, len(rep.new))
    return rc
