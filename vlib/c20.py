"""C20 rspirv-dis prints the library disassembly or an error and never crashes."""
import json, os, time
from .common import *
from .pcommon import BASE_ASSUMPTIONS

REPO_TARGET = os.path.join(BUILD, "repo-target")


def build_cli():
    rc, out, dt = run(["cargo", "build", "--offline", "-p", "rspirv-dis"], cwd=REPO, env={"CARGO_TARGET_DIR": REPO_TARGET}, timeout=1800)
    if rc != 0:
        raise ToolError("cargo build of rspirv-dis failed:\n" + out[-3000:])
    return os.path.join(REPO_TARGET, "debug", "rspirv-dis")


def run_check(tier, seed, replay=None):
    t0 = time.time()
    rep = Report("C20")
    build_harness()
    binp = build_cli()
    mc = tlc_mc("DisCli.tla", "MC_DisCli.cfg", "c20_mc", timeout=300, workers=2)
    trace = os.path.join(BUILD, "c20.ndjson")
    info = vh(["drive-cli", "--grammar", GRAMMAR, "--bin", binp, "--dir", os.path.join(BUILD, "c20_corpus"), "--n", "250" if tier == "quick" else "12000",
               "--seed", str(seed), "--out", trace], timeout=3000)
    n, bad, dt = tlc_trace("DisCliTrace.tla", "DisCliTrace.cfg", trace, "c20_trace", timeout=3000)
    log("runs: %d, %d rejected, %.1fs" % (n, len(bad), dt))
    events = read_trace(trace) if bad else []
    for idx, code in bad:
        e = events[idx - 1]
        sig = "status%s:signal%s:panicked%s:lib-%s" % (e.get("status"), e.get("signal"), e.get("stderr_panicked"), e.get("lib", {}).get("st"))
        rep.violation("cli:%s:code%d:%s:%s" % (e.get("tag"), code, sig, (e.get("stderr_head") or "")[:60].replace("\n", " ")),
                      {"component": "rspirv-dis", "input": {"bytes": e.get("bytes"), "len": e.get("len")},
                       "observed": {k: e.get(k) for k in ("status", "signal", "stderr_panicked", "stderr_head")}, "expected": "DisCli!RunOK", "spec_ref": "DisCli!RunOK"})
    tags, outcomes = {}, {}
    sample = None
    with open(trace) as f:
        for l in f:
            e = json.loads(l)
            tags[e["tag"]] = tags.get(e["tag"], 0) + 1
            outcomes[e["lib"]["st"]] = outcomes.get(e["lib"]["st"], 0) + 1
            if sample is None and e["tag"] == "const-bool":
                sample = {k: e[k] for k in ("tag", "len", "status", "stdout")}
    if outcomes.get("ok", 0) == 0 or outcomes.get("err", 0) == 0:
        if not rep.new:
            raise ToolError("vacuous run: need both successful and failing loads, got %s" % outcomes)
    rc = rep.finish()
    write_evidence("C20", tier, seed, {"states": mc["states"], "transitions": mc["transitions"], "traces_validated_against_impl": n,
        "samples": [sample], "corpus": tags, "library_outcomes": outcomes, "exhaustive": False},
        BASE_ASSUMPTIONS + ["rspirv-dis is built from /repo's current tree (dev profile: overflow checks and debug assertions on) into /verif/build/repo-target",
                            "the expected text is the LIBRARY's own result on the same bytes, computed in-process by the harness built from the same tree"],
        time.time() - t0, len(rep.new))
    return rc
