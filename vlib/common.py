"""Shared machinery of the /verif check driver: building the harness from /repo's current
working tree, running TLC (model checking / trace validation), known-findings matching,
replay files, evidence files and the exit-code contract."""
import fcntl, hashlib, json, os, re, subprocess, sys, time

VERIF = os.path.dirname(os.path.dirname(os.path.abspath(__file__)))
REPO = os.environ.get("VERIF_REPO", "/repo")
SPEC = os.path.join(VERIF, "spec")
BUILD = os.path.join(VERIF, "build")
HARNESS = os.path.join(VERIF, "harness")
VH = os.path.join(BUILD, "harness-target", "release", "vh")
GRAMMAR = os.path.join(SPEC, "GrammarData.json")
REPLAYS = os.path.join(VERIF, "replays")
EVIDENCE = os.path.join(VERIF, "evidence")
KNOWN = os.path.join(VERIF, "known_findings.json")


class ToolError(Exception):
    pass


def log(msg):
    sys.stderr.write("[check] %s\n" % msg)
    sys.stderr.flush()


JTMP = os.path.join(BUILD, "jtmp", str(os.getpid()))   # per process: checks may run side by side


def run(cmd, env=None, cwd=None, timeout=None, stdout=None):
    e = dict(os.environ)
    e.update({"CARGO_NET_OFFLINE": "true"})
    if env:
        e.update(env)
    if cmd and cmd[0] == "timeout" and len(cmd) > 2 and cmd[2] in ("tlc", "apalache-mc"):
        # the JVM's scratch files (SANY unpacks the standard modules on every start) stay under build/, not /tmp
        os.makedirs(JTMP, exist_ok=True)
        e["JAVA_TOOL_OPTIONS"] = (e.get("JAVA_TOOL_OPTIONS", "") + " -Djava.io.tmpdir=" + JTMP).strip()
    t0 = time.time()
    try:
        p = subprocess.run(cmd, env=e, cwd=cwd, timeout=timeout, stdout=stdout or subprocess.PIPE,
                           stderr=subprocess.STDOUT, text=True)
    except subprocess.TimeoutExpired:
        raise ToolError("timeout after %ss: %s" % (timeout, " ".join(cmd)[:200]))
    return p.returncode, (p.stdout or ""), time.time() - t0


_built = False


def build_harness():
    """Regenerates the glue code from /repo's current sources and (re)builds vh against
    /repo's current working tree.  Serialised by a file lock."""
    global _built
    if _built:
        return
    os.makedirs(BUILD, exist_ok=True)
    with open(os.path.join(BUILD, ".lock"), "w") as lk:
        fcntl.flock(lk, fcntl.LOCK_EX)
        rc, out, _ = run([sys.executable, os.path.join(HARNESS, "gen.py")], env={"VERIF_REPO": REPO}, timeout=300)
        if rc != 0:
            raise ToolError("gen.py failed:\n" + out[-3000:])
        lock = os.path.join(HARNESS, "Cargo.lock")
        if not os.path.exists(lock):
            import shutil
            shutil.copy(os.path.join(REPO, "Cargo.lock"), lock)
        rc, out, dt = run(["cargo", "build", "--release", "--offline"], cwd=HARNESS, timeout=1800)
        if rc != 0:
            raise ToolError("cargo build of the harness failed (does /repo still compile?):\n" + out[-4000:])
        log("harness built in %.1fs" % dt)
    _built = True


def vh(args, timeout=1800):
    rc, out, dt = run([VH] + args, timeout=timeout)
    if rc != 0:
        raise ToolError("vh %s failed (rc=%s):\n%s" % (args[0], rc, out[-3000:]))
    last = [l for l in out.strip().split("\n") if l.strip()]
    try:
        return json.loads(last[-1]) if last else {}
    except Exception:
        return {"raw": out[-500:]}


def hash_str(s):
    return int(hashlib.sha256(s.encode()).hexdigest()[:12], 16)


def tlc_workers():
    return int(os.environ.get("VERIF_TLC_WORKERS", "8"))


def tlc_mc(module, cfg, name, timeout=1200, workers=None, env=None, edges_out=None, sample=None, seed=1):
    """Exhaustive model check.  Returns dict(states, distinct, depth, edges).  Any invariant /
    property violation of the MODEL is a specification error (tool error), never a VIOLATION of
    the code."""
    meta = os.path.join(BUILD, "tlc", name)
    outp = os.path.join(BUILD, name + ".mc.out")
    cmd = ["timeout", str(timeout), "tlc", "-workers", str(workers or tlc_workers()), "-metadir", meta, "-cleanup",
           "-noGenerateSpecTE", "-config", cfg, module]
    e = {"GRAMMAR": GRAMMAR}
    if env:
        e.update(env)
    with open(outp, "w") as f:
        rc, _, dt = run(cmd, env=e, cwd=SPEC, stdout=f, timeout=timeout + 60)
    states = distinct = depth = None
    n_edges = 0
    ok = False
    errs = []
    ef = open(edges_out, "w") if edges_out else None
    seen = set()
    kept = []
    with open(outp) as f:
        for line in f:
            if line.startswith('<<"EDGE", '):
                s = line.strip()[len('<<"EDGE", '):-2]
                try:
                    h = json.loads(s)
                except Exception:
                    raise ToolError("unparseable EDGE line: " + line[:200])
                if h not in seen:
                    seen.add(h)
                    n_edges += 1
                    # optional deterministic sampling of the emitted histories (quick tier)
                    if ef and (sample is None or (hash_str(h) + seed) % sample == 0):
                        kept.append(h)
                continue
            m = re.match(r"(\d+) states generated, (\d+) distinct states found", line)
            if m:
                states, distinct = int(m.group(1)), int(m.group(2))
            m = re.match(r"The depth of the complete state graph search is (\d+)", line)
            if m:
                depth = int(m.group(1))
            if "Model checking completed. No error has been found." in line:
                ok = True
            if line.startswith("Error:") or "is violated" in line:
                errs.append(line.strip())
    if ef:
        # TLC's workers print edges in scheduling order: sort, so that a run is reproducible from (tree, seed)
        kept.sort()
        ef.write("".join(h + "\n" for h in kept))
        ef.close()
    if rc == 124:
        raise ToolError("TLC timed out on %s (%ss); output in %s" % (module, timeout, outp))
    if not ok or errs or states is None:
        raise ToolError("model check of %s failed (this is an error of the SPECIFICATION, not of the code): %s; see %s"
                        % (module, "; ".join(errs[:3]), outp))
    return {"states": distinct, "transitions": states, "depth": depth, "edges": n_edges, "wall_s": round(dt, 1)}


CHUNK_BYTES = 350 * 1024 * 1024
HISTORY_STARTS = ("new", "bnew", "snew")


SELFTESTS = {}       # trace-spec module -> result of the binding self-test (written into the evidence)


def binding_selftest(module, cfg, trace, name, env, orig_bad=()):
    """Binding self-test (once per trace specification and process): the head of a trace the
    specification has just ACCEPTED is corrupted in one observed field of one event and validated
    again; the specification must reject exactly that event.  A specification that accepts the
    corrupted trace constrains nothing (a renamed field, an action that no longer fires): tool error."""
    from . import selftest
    if module in SELFTESTS or os.environ.get("VERIF_NO_SELFTEST") or module not in selftest.CORRUPT:
        return
    head = []
    with open(trace) as f:
        for line in f:
            if len(head) >= 400 and module not in selftest.WHOLE and (module not in selftest.STATEFUL or any(('"ev":"%s"' % h) in line or ('"ev": "%s"' % h) in line for h in HISTORY_STARTS)):
                break
            head.append(json.loads(line))
            if len(head) >= 6000:
                break
    hit = selftest.CORRUPT[module](head)
    if hit is None:
        SELFTESTS[module] = {"skipped": "no event of the corruptible kind among the first %d" % len(head)}
        return
    idx, what = hit
    if any(i == idx + 1 for i, _ in orig_bad):
        return      # that event is rejected anyway (mutated tree / known finding): nothing to learn, try the next trace
    cp = os.path.join(BUILD, name + ".selftest.ndjson")
    with open(cp, "w") as f:
        for e in head:
            f.write(json.dumps(e) + "\n")
    n, bad, dt = _tlc_trace_one(module, cfg, cp, name + "_selftest", 600, env)
    os.remove(cp)
    if not any(i == idx + 1 for i, _ in bad):
        raise ToolError("binding self-test: %s accepted a trace in which %s (event %d of %s): the trace specification is vacuous there" % (module, what, idx + 1, os.path.basename(trace)))
    SELFTESTS[module] = {"corruption": what, "event": idx + 1, "rejected_with_code": [c for i, c in bad if i == idx + 1][0], "other_rejections": len(bad) - 1}


def tlc_trace(module, cfg, trace, name, timeout=1800, env=None):
    """Validates a trace; very large traces are split at history boundaries into chunks that are
    validated by separate TLC runs (ndJsonDeserialize holds a whole file in memory)."""
    if os.path.getsize(trace) <= CHUNK_BYTES:
        r = _tlc_trace_one(module, cfg, trace, name, timeout, env)
        if len(r[1]) < 50 and not name.endswith("_selftest"):
            binding_selftest(module, cfg, trace, name, env, r[1])
        return r
    total, bad_all, dt_all = 0, [], 0.0
    part, size, k, stateful = [], 0, 0, None
    def flush():
        nonlocal part, size, k, total, bad_all, dt_all
        if not part:
            return
        cp = "%s.chunk%d" % (trace, k)
        with open(cp, "w") as f:
            f.writelines(part)
        n, bad, dt = _tlc_trace_one(module, cfg, cp, "%s_chunk" % name, timeout, env)
        os.remove(cp)
        bad_all += [(i + total, c) for i, c in bad]
        total += n
        dt_all += dt
        part, size = [], 0
        k += 1
    with open(trace) as f:
        for line in f:
            if stateful is None:
                stateful = any(('"ev":"%s"' % h) in line or ('"ev": "%s"' % h) in line for h in HISTORY_STARTS)
            boundary = (not stateful) or any(('"ev":"%s"' % h) in line for h in HISTORY_STARTS)
            if size > CHUNK_BYTES and boundary:
                flush()
            part.append(line)
            size += len(line)
    flush()
    return total, bad_all, round(dt_all, 1)


def _tlc_trace_one(module, cfg, trace, name, timeout=1800, env=None):
    """Trace validation: returns (n_events, [(bad index, code)], seconds).  The trace spec prints
    <<"TRACE-RESULT", n, <<bad...>>>> when it has consumed the whole trace."""
    meta = os.path.join(BUILD, "tlc", name)
    outp = os.path.join(BUILD, name + ".trace.out")
    e = {"GRAMMAR": GRAMMAR, "TRACE": trace,
         "JAVA_TOOL_OPTIONS": "-Xss1g -Dtlc2.tool.queue.IStateQueue=StateDeque"}
    if env:
        e.update(env)
    cmd = ["timeout", str(timeout), "tlc", "-workers", "1", "-metadir", meta, "-cleanup", "-noGenerateSpecTE",
           "-config", cfg, module]
    with open(outp, "w") as f:
        rc, _, dt = run(cmd, env=e, cwd=SPEC, stdout=f, timeout=timeout + 60)
    txt = open(outp).read()
    if rc == 124:
        raise ToolError("TLC timed out validating %s" % trace)
    m = re.search(r'<<\s*"TRACE-RESULT",\s*(\d+),', txt)
    if not m or "Model checking completed. No error has been found." not in txt:
        raise ToolError("trace validation of %s did not complete; see %s\n%s" % (trace, outp, txt[-1500:]))
    n = int(m.group(1))
    rest = txt[m.end():]
    stop = re.search(r"\n(Model checking|Error|Progress|Finished|Checking|\d+ states)", rest)
    body = rest[:stop.start()] if stop else rest
    bad = [(int(a), int(b)) for a, b in re.findall(r"<<(\d+),\s*(\d+)>>", body)]
    return n, bad, round(dt, 1)


# ---------------------------------------------------------------- findings / replay / evidence

def load_known():
    if not os.path.exists(KNOWN):
        return []
    return json.load(open(KNOWN))


class Report:
    """Collects violations of one property during one run and applies the contract:
    KNOWN-FINDING lines for listed open findings, VIOLATION lines otherwise."""

    def __init__(self, prop):
        self.prop = prop
        self.known = [k for k in load_known() if k.get("property") == prop and k.get("status") == "open"]
        self.new = {}       # key -> replay path
        self.known_hit = {}  # key -> what
        os.makedirs(REPLAYS, exist_ok=True)

    def violation(self, key, replay):
        """key: stable witness key (component:entry:symptom...).  replay: JSON-able object."""
        for k in self.known:
            if (k.get("key") and key == k["key"]) or (k.get("key_prefix") and key.startswith(k["key_prefix"])):
                self.known_hit[k.get("key") or k["key_prefix"]] = k.get("what", "")
                return
        if key in self.new:
            return
        h = hashlib.sha256(key.encode()).hexdigest()[:12]
        path = os.path.join(REPLAYS, "%s-%s.json" % (self.prop, h))
        replay = dict(replay)
        replay["property"] = self.prop
        replay["key"] = key
        json.dump(replay, open(path, "w"), indent=1)
        self.new[key] = path

    def finish(self):
        for k, what in self.known_hit.items():
            print("KNOWN-FINDING: property=%s %s (%s)" % (self.prop, k, what))
        for j, (k, path) in enumerate(self.new.items()):
            if j < 8:
                print("VIOLATION property=%s replay=%s" % (self.prop, path))
                log("violation key: %s" % k)
        if len(self.new) > 8:
            log("... and %d more distinct violations (replay files written)" % (len(self.new) - 8))
        sys.stdout.flush()
        return 1 if self.new else 0


def apalache_check(module):
    """Unbounded inductive argument with Apalache for spec/apalache/<module>: Init => IndInv, IndInv /\\ Next => IndInv',
    IndInv => Safety.  Extra evidence only: a failure of the TOOL is recorded in the evidence, never fatal; a REFUTED
    obligation is an error of the specification (tool error)."""
    import shutil
    if not shutil.which("apalache-mc"):
        return {"available": False}
    d = os.path.join(SPEC, "apalache")
    outdir = os.path.join(BUILD, "apalache")
    res = {}
    env = dict(os.environ)
    os.makedirs(JTMP, exist_ok=True)
    env["JAVA_TOOL_OPTIONS"] = (env.get("JAVA_TOOL_OPTIONS", "") + " -Djava.io.tmpdir=" + JTMP).strip()
    for name, args in (("Init=>IndInv", ["--init=Init", "--inv=IndInv", "--length=0"]),
                       ("IndInv/\\Next=>IndInv'", ["--init=IndInit", "--inv=IndInv", "--length=1"]),
                       ("IndInv=>Safety", ["--init=IndInit", "--inv=Safety", "--length=0"])):
        try:
            p = subprocess.run(["timeout", "600", "apalache-mc", "check", "--out-dir=" + outdir] + args + [module], cwd=d, capture_output=True, text=True, timeout=660, env=env)
            ok = "EXITCODE: OK" in p.stdout
            res[name] = "discharged" if ok else ("REFUTED" if "EXITCODE: ERROR (12)" in p.stdout else "tool-error")
        except Exception:
            res[name] = "tool-error"
    if any(v == "REFUTED" for v in res.values()):
        raise ToolError("Apalache refuted an obligation of spec/apalache/%s: %s" % (module, res))
    return {"available": True, "obligations": res, "module": "spec/apalache/" + module}


def tlaps_check(module):
    """Unbounded proof with the TLA+ proof system for spec/tlaps/<module>.  Extra evidence only: an unavailable or
    failing TOOL is recorded, never fatal; obligations that cannot be proved are an error of the specification."""
    import shutil, re
    if not shutil.which("tlapm"):
        return {"available": False}
    d = os.path.join(SPEC, "tlaps")
    cache = os.path.join(BUILD, "tlacache")
    try:
        p = subprocess.run(["timeout", "900", "tlapm", "--threads", "8", "--cache-dir", cache, module], cwd=d, capture_output=True, text=True, timeout=960)
    except Exception as ex:
        return {"available": True, "result": "tool-error", "detail": str(ex)[:200]}
    out = p.stdout + p.stderr
    m = re.search(r"All (\d+) obligations? proved", out)
    if m:
        return {"available": True, "result": "proved", "obligations": int(m.group(1)), "module": "spec/tlaps/" + module}
    f = re.search(r"(\d+)/(\d+) obligations? failed", out)
    if f:
        raise ToolError("TLAPS could not prove %s of %s obligations of spec/tlaps/%s" % (f.group(1), f.group(2), module))
    return {"available": True, "result": "tool-error", "detail": out[-300:]}


NOT_OBSERVED = []    # outcome classes the pinned tree shows but this run did not (reported in the evidence, never fatal)


def soft_required(missing, hard_ok):
    """Vacuity guard on OUTCOMES of the code under test: only the coarse classes (some success, some failure) are
    required; a specific error variant that no longer occurs is a legitimate change of unspecified behaviour and is
    merely noted.  `hard_ok`: False if the coarse requirement is not met."""
    if missing:
        NOT_OBSERVED.extend(m for m in missing if m not in NOT_OBSERVED)
        log("note: outcome classes seen on the pinned tree but not in this run: %s" % missing)
    if not hard_ok:
        raise ToolError("vacuous run: the code under test never both succeeded and failed (%s)" % missing)


def write_evidence(prop, tier, seed, coverage, assumptions, wall_s, violations, level="model_checking"):
    os.makedirs(EVIDENCE, exist_ok=True)
    if SELFTESTS:
        coverage = dict(coverage)
        coverage["binding_selftests"] = dict(SELFTESTS)
    if NOT_OBSERVED:
        coverage = dict(coverage)
        coverage["outcome_classes_not_observed"] = list(NOT_OBSERVED)
    ev = {"property_id": prop, "tier": tier, "seed": seed, "level": level, "coverage": coverage,
          "assumptions": assumptions, "wall_s": round(wall_s, 2), "violations": violations}
    json.dump(ev, open(os.path.join(EVIDENCE, prop + ".json"), "w"), indent=1)


def read_trace(path):
    with open(path) as f:
        return [json.loads(l) for l in f if l.strip()]


def history_of(events, idx):
    """events: list of trace events (0-based list); idx: 1-based index of a rejected event.
    Returns (start0, events of that history up to and including idx)."""
    i = idx - 1
    s = i
    while s > 0 and events[s].get("ev") != "new":
        s -= 1
    return s, events[s:i + 1]
