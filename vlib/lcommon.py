"""Shared by the loader-family checks (C05, C01): vh drive-loader suites validated by LoaderTrace.tla."""
import json, os, re, time
from .common import *
from .pcommon import BASE_ASSUMPTIONS

CODE_LOADER, CODE_ROUNDTRIP, CODE_PANIC, CODE_GENERATOR = 1, 2, 4, 8


def run_suite(name, suite, seed, extra=None):
    trace = os.path.join(BUILD, name + ".ndjson")
    info = vh(["drive-loader", "--grammar", GRAMMAR, "--suite", suite, "--seed", str(seed), "--out", trace] + (extra or []))
    return trace, info


def load_key(e, code, names):
    if e["ev"] == "rawload":
        w = e["words"]
        return "rawload:code%d:%s:%s/%s/%s" % (code, e.get("tag", ""), w["st"], w.get("out_st"), w.get("re_st"))
    ops = [i["op"] for i in e["insts"]]
    d, w = e["direct"], e["words"]
    sig = "%s/%s:%s/%s" % (d["st"], w["st"], d.get("e", ""), w.get("e", ""))
    at = d.get("at", 0)
    culprit = ""
    if isinstance(at, int) and 1 <= at <= len(ops):
        culprit = ":" + names.get(str(ops[at - 1]), str(ops[at - 1]))
    return "load:code%d:%s%s:%s" % (code, re.sub(r"\d+", "N", str(sig))[:80], culprit, e.get("tag", ""))


def validate(rep, trace, name, mask):
    n, bad, dt = tlc_trace("LoaderTrace.tla", "LoaderTrace.cfg", trace, name)
    counted = 0
    if bad:
        names = {k: v["name"] for k, v in json.load(open(GRAMMAR))["insts"].items()}
        events = read_trace(trace)
        gen_bad = [(i, c) for i, c in bad if c & CODE_GENERATOR]
        if gen_bad:
            raise ToolError("an input is not what it claims (the harness could not build an instruction through the public API, or the binary does not parse - by Parser.tla - to the instructions it was made from): event %d of %s; an error of the input generator, not a verdict" % (gen_bad[0][0], trace))
        for idx, code in bad:
            if code & mask:
                e = events[idx - 1]
                rep.violation(load_key(e, code & mask, names), {
                    "component": "loader",
                    "input": {"insts": e.get("insts"), "in_words": e.get("in_words") if e["ev"] == "rawload" else None, "in_version": e["in_version"], "in_bound": e["in_bound"], "layout": e["layout"]},
                    "observed": {"direct": {k: e["direct"][k] for k in ("st", "e", "at")} if "direct" in e else None, "words": {k: e["words"].get(k) for k in ("st", "e", "out_st", "re_st")}},
                    "expected": "an outcome of Loader!Load over SpecFacts!LoaderClass; for accepted inputs the round trip of LoaderTrace!RoundTripOK",
                    "spec_ref": "LoaderTrace!Code"})
                counted += 1
    return n, len(bad), counted, dt


def replay(rep, path, mask, name):
    r = json.load(open(path))
    hp = os.path.join(BUILD, name + ".replay.hist")
    open(hp, "w").write(json.dumps(r["input"]) + "\n")
    trace, _ = run_suite(name + "_replay", "replay", 0, ["--histories", hp])
    validate(rep, trace, name + "_replay", mask)
    return rep.finish()


def tags(trace):
    c = {}
    outcomes = {}
    with open(trace) as f:
        for l in f:
            e = json.loads(l)
            c[e["tag"]] = c.get(e["tag"], 0) + 1
            if "direct" not in e:
                k = "raw:" + e["words"]["st"]
                outcomes[k] = outcomes.get(k, 0) + 1
                continue
            k = e["direct"]["st"] + (":" + e["direct"]["e"] if e["direct"]["st"] == "err" else "")
            outcomes[k] = outcomes.get(k, 0) + 1
    return c, outcomes


def loader_check(prop, tier, seed, replay_path, mask, model_cfg, suites, required_outcomes, assumptions):
    t0 = time.time()
    rep = Report(prop)
    build_harness()
    if replay_path:
        return replay(rep, replay_path, mask, prop.lower())
    ef = os.path.join(BUILD, prop.lower() + "_loader.hist")
    mc = tlc_mc("MC_Loader.tla", model_cfg, prop.lower() + "_mc", edges_out=ef, timeout=2400)
    log("model: %s" % mc)
    total = 0
    tagc, outc, samples = {}, {}, []
    for sname, suite, extra, use_model in suites:
        args = list(extra) + (["--histories", ef] if use_model else [])
        trace, info = run_suite("%s_%s" % (prop.lower(), sname), suite, seed, args)
        n, nbad, counted, dt = validate(rep, trace, "%s_%s" % (prop.lower(), sname), mask)
        log("suite %s: %d events, %d rejected (%d count for %s), %.1fs" % (sname, n, nbad, counted, prop, dt))
        total += n
        t, o = tags(trace)
        for k, v in t.items():
            tagc[k] = tagc.get(k, 0) + v
        for k, v in o.items():
            outc[k] = outc.get(k, 0) + v
        with open(trace) as f:
            e = json.loads(f.readline())
            samples.append({"insts": e["insts"][:4], "direct": {k: e["direct"][k] for k in ("st", "e", "at")}, "tag": e["tag"]} if "insts" in e else {"tag": e["tag"], "in_words": e["in_words"][:12]})
    missing = [r for r in required_outcomes if outc.get(r, 0) == 0]
    if not rep.new:
        soft_required(missing, outc.get("ok", 0) > 0 and (any(k.startswith("err:") and v > 0 for k, v in outc.items()) or not any(r.startswith("err:") for r in required_outcomes)))
    rc = rep.finish()
    write_evidence(prop, tier, seed, {
        "states": mc["states"], "transitions": mc["transitions"], "traces_validated_against_impl": total, "samples": samples[:3],
        "model": {"module": "spec/MC_Loader.tla", "config": model_cfg, "depth": mc["depth"], "sequences_replayed": mc["edges"]},
        "input_classes": tagc, "loader_outcomes": outc, "exhaustive": False,
        # unbounded structural argument (bracket automaton, any input length); thorough tier, extra evidence
        **({"apalache_inductive_invariant": apalache_check("LoaderInv.tla")} if tier == "thorough" and prop == "C05" else {})},
        assumptions, time.time() - t0, len(rep.new))
    return rc
