"""Shared by the parser-family checks (C02 C03 C04 C10 C14): run a vh drive-parser suite,
validate the trace with ParserTrace.tla, turn rejected events into violations."""
import json, os, re
from .common import *

CODE_CONTENT, CODE_SHAPE, CODE_PANIC, CODE_GENERATOR = 1, 2, 4, 8


def run_suite(name, suite, seed, extra=None):
    trace = os.path.join(BUILD, name + ".ndjson")
    args = ["drive-parser", "--grammar", GRAMMAR, "--suite", suite, "--seed", str(seed), "--out", trace] + (extra or [])
    info = vh(args)
    return trace, info


def event_key(e, code):
    if e["ev"] == "asmbig":
        return "asmbig:n%d:%s/%s" % (e["n"], e["wst"], e["pst"])
    if e["ev"] == "asm":
        st = "%s/%s" % (e["wst"], e["pst"])
        err = e.get("err") or []
        tail = ""
        if err:
            tail = ":" + ":".join(str(x) for x in err[:2])[:80]
        return "asm:op%d:%s%s" % (e["inst"]["op"], st, re.sub(r"\d+", "N", tail))
    r = e["result"]
    sig = r[0] + (":" + str(r[1]) if len(r) > 1 else "")
    if r[0] == "Panic":
        sig = "Panic:" + re.sub(r"\d+", "N", r[1])[:60] + ":" + r[2]
    elif len(r) > 2 and r[1] == "OperandError":
        sig += ":" + str(r[2])
    return "parse:%s:code%d:%s" % (e.get("tag", ""), code, sig)


def replay_obj(e):
    if e["ev"] == "asmbig":
        return {"component": "assembler+parser", "input": {"big": {"n": e["n"], "rid": e["rid"], "member": e["member"]}}, "observed": {k: e[k] for k in ("wst", "words_rle", "pst", "parsed", "err")},
                "expected": "words = EncodeInst(OpTypeStruct %rid with n members) and the same instruction parsed back (ParserTrace!BigCode)", "spec_ref": "ParserTrace!BigCode"}
    if e["ev"] == "asm":
        return {"component": "assembler+parser", "input": {"inst": e["inst"], "ctx": e["ctx"]}, "observed": {k: e[k] for k in ("wst", "words", "pst", "parsed", "err")},
                "expected": "words = Assembler!EncodeInst(inst) and parsed = inst", "spec_ref": "ParserTrace!AsmCode"}
    return {"component": "parser", "input": {"words": e["words"], "tail": e["tail"], "script": e["script"], "api": e["api"]},
            "observed": {"calls": e["calls"], "result": e["result"]},
            "expected": "the callbacks and result of Parser!Run(words, script) (spec/Parser.tla)", "spec_ref": "ParserTrace!ParseCode"}


def validate(rep, trace, name, mask):
    """mask: which code bits count as a violation of the property being checked.  Code 8
    (generator produced a non-conforming instruction) is always a tool error."""
    n, bad, dt = tlc_trace("ParserTrace.tla", "ParserTrace.cfg", trace, name)
    counted = 0
    if bad:
        events = read_trace(trace)
        gen_bad = [(i, c) for i, c in bad if c & CODE_GENERATOR]
        if gen_bad:
            raise ToolError("harness generated %d instruction(s) the specification does not consider conforming, e.g. event %d of %s: %s"
                            % (len(gen_bad), gen_bad[0][0], trace, json.dumps(events[gen_bad[0][0] - 1]["inst"])[:400]))
        for idx, code in bad:
            if code & mask:
                e = events[idx - 1]
                rep.violation(event_key(e, code & mask), replay_obj(e))
                counted += 1
    return n, len(bad), counted, dt


def replay_parse(rep, replay, mask, name):
    r = json.load(open(replay))
    inp = r["input"]
    if "big" in inp:
        hp = os.path.join(BUILD, name + ".replay.hist")
        open(hp, "w").write(json.dumps(inp) + "\n")
        trace, _ = run_suite(name + "_replay", "big-replay", 0, ["--histories", hp])
    elif "words" in inp:
        hp = os.path.join(BUILD, name + ".replay.hist")
        open(hp, "w").write(json.dumps(inp) + "\n")
        trace, _ = run_suite(name + "_replay", "words", 0, ["--histories", hp])
    else:
        hp = os.path.join(BUILD, name + ".replay.hist")
        open(hp, "w").write(json.dumps(inp) + "\n")
        trace, _ = run_suite(name + "_replay", "asm-replay", 0, ["--histories", hp])
    validate(rep, trace, name + "_replay", mask)
    return rep.finish()


def tag_counts(trace, field="tag"):
    c = {}
    with open(trace) as f:
        for l in f:
            e = json.loads(l)
            k = e.get(field, "?")
            c[k] = c.get(k, 0) + 1
    return c


def result_classes(trace):
    c = {}
    with open(trace) as f:
        for l in f:
            e = json.loads(l)
            if e["ev"] != "parse":
                continue
            r = e["result"]
            k = r[0] + (":" + str(r[1]) if len(r) > 1 else "") + (":" + str(r[2]) if len(r) > 2 and r[1] in ("OperandError", "HeaderIncomplete") else "")
            c[k] = c.get(k, 0) + 1
    return c


def selftest(name, make_corruption):
    """generic binding self-test on a small real trace: the original is accepted, a corrupted copy rejected"""
    pass


def edges_to_file(mc_out_edges, path):
    return path


def parser_family_check(prop, tier, seed, replay, mask, suites, models=(), required_tags=(), required_results=(),
                        assumptions=(), extra_cov=None):
    """suites: list of (name, suite, extra args, uses_model_edges(bool or model name)).
    models: list of (name, module, cfg): bounded TLC models whose EDGE lines feed the suites."""
    import time
    t0 = time.time()
    rep = Report(prop)
    build_harness()
    if replay:
        return replay_parse(rep, replay, mask, prop.lower())
    mc_tot = {"states": 0, "transitions": 0}
    model_info = {}
    edge_files = {}
    for mname, module, cfg in models:
        ef = os.path.join(BUILD, "%s_%s.hist" % (prop.lower(), mname))
        mc = tlc_mc(module, cfg, "%s_%s" % (prop.lower(), mname), edges_out=ef)
        log("model %s: %s" % (mname, mc))
        mc_tot["states"] += mc["states"]
        mc_tot["transitions"] += mc["transitions"]
        model_info[mname] = dict(mc, module="spec/" + module, config=cfg)
        edge_files[mname] = ef
    total_events = 0
    total_bad = 0
    tags = {}
    results = {}
    samples = []
    for sname, suite, extra, model in suites:
        args = list(extra)
        if model:
            args += ["--histories", edge_files[model]]
        trace, info = run_suite("%s_%s" % (prop.lower(), sname), suite, seed, args)
        n, nbad, counted, dt = validate(rep, trace, "%s_%s" % (prop.lower(), sname), mask)
        log("suite %s: %d events, %d rejected (%d count for %s), %.1fs" % (sname, n, nbad, counted, prop, dt))
        total_events += n
        total_bad += counted
        for k, v in tag_counts(trace).items():
            tags[k] = tags.get(k, 0) + v
        for k, v in result_classes(trace).items():
            results[k] = results.get(k, 0) + v
        with open(trace) as f:
            first = f.readline()
            if first and len(samples) < 4:
                s = json.loads(first)
                samples.append(s)
    missing = [t for t in required_tags if tags.get(t, 0) == 0]
    if missing:
        if not rep.new:
            raise ToolError("vacuous run: input classes never generated: %s" % missing)
    if not rep.new and required_results:
        want_err = any(r.startswith("Err") for r in required_results)
        soft_required([r for r in required_results if results.get(r, 0) == 0],
                      results.get("Ok", 0) > 0 and (not want_err or any(k.startswith("Err") and v > 0 for k, v in results.items())))
    rc = rep.finish()
    cov = {"traces_validated_against_impl": total_events, "samples": samples,
           "events_rejected_for_this_property": total_bad, "input_classes": tags, "result_classes": results,
           "models": model_info, "exhaustive": False}
    if models:
        cov["states"] = mc_tot["states"]
        cov["transitions"] = mc_tot["transitions"]
    else:
        # no bounded model for this property yet: the states TLC explored are those of the trace
        # specification (one per validated event)
        cov["states"] = total_events + 1
        cov["transitions"] = total_events
        cov["states_note"] = "states of the trace specification (one per validated event)"
    if extra_cov:
        cov.update(extra_cov() if callable(extra_cov) else extra_cov)
    write_evidence(prop, tier, seed, cov, list(assumptions), time.time() - t0, len(rep.new))
    return rc


BASE_ASSUMPTIONS = ["TLC 1.8.0 and the CommunityModules",
                    "spec/GrammarData.json: pinned projection of SPIR-V grammar sdk-1.4.309.0 taken from the pinned tree after the cross-projection agreement check (the Khronos JSON is not available in the sealed sandbox)",
                    "harness projection of dr::Instruction / ParseState to JSON (field copies, `as u32` casts)"]
