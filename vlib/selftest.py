"""Corruptions for the binding self-test (common.binding_selftest): for every trace specification one
function that changes ONE observed field of ONE event of an accepted trace and returns (0-based index, what).
The specification must then reject that event; if it does not, it is not bound to the field."""

STATEFUL = {"DecoderTrace.tla", "BuilderTrace.tla", "StorageTrace.tla"}
WHOLE = {"PredTrace.tla"}     # its Covered invariant needs every opcode: the whole trace is re-validated


def _parser(ev):
    for i, e in enumerate(ev):
        if e.get("ev") == "parse" and e.get("result") == ["Ok"] and any(c["n"] == "inst" for c in e["calls"]) and e["calls"][-1]["n"] == "finalize":
            k = next(j for j, c in enumerate(e["calls"]) if c["n"] == "inst")
            e["calls"][k]["inst"]["op"] = 0 if e["calls"][k]["inst"]["op"] != 0 else 1
            e["calls"].pop()
            return i, "the first delivered instruction got another opcode and the finalize callback was dropped"
    for i, e in enumerate(ev):
        if e.get("ev") == "asm" and e.get("wst") == "ok" and e.get("words"):
            w = e["words"][-1]
            e["words"][-1] = [w[0], (w[1] + 1) % 65536]
            return i, "the last assembled word was changed"
    return None


def _loader(ev):
    for i, e in enumerate(ev):
        if e.get("ev") == "load" and e["words"].get("st") == "ok" and e["words"].get("out"):
            w = e["words"]["out"][-1]
            e["words"]["out"][-1] = [w[0], (w[1] + 1) % 65536]
            if e["direct"].get("st") == "ok" and e["direct"].get("m"):
                e["direct"]["m"][0]["capabilities"] = e["direct"]["m"][0]["capabilities"] + [{"op": 17, "rt": [], "rid": [], "ops": [{"k": "Capability", "w": [[0, 1]], "s": []}]}]
            return i, "the last word of the re-assembled output was changed (and a capability added to the loaded module)"
    for i, e in enumerate(ev):
        if e.get("ev") == "load" and e["direct"].get("st") == "err":
            # (a variant the pinned tree knows, so that it is judged; it is nobody's alternative name)
            e["direct"]["e"] = "WrongOpNameOperand"; e["words"]["e"] = "WrongOpNameOperand"
            return i, "the reported loader error was replaced by another variant"
    return None


def _builder(ev):
    for i, e in enumerate(ev):
        if e.get("ev") == "bcall" and e["res"][0] == "Ok" and len(e["res"]) == 2:
            e["res"][1] = [e["res"][1][0], e["res"][1][1] + 7]
            e["selB"] = [9]
            return i, "the returned id was raised by 7 and the block selection set to a block that does not exist"
    return None


def _tables(ev):
    for i, e in enumerate(ev):
        if e.get("ev") == "lookup" and e.get("found"):
            e["found"] = e["found"][1:]
            return i, "one found opcode was removed from a table sweep"
        if e.get("ev") == "sweep" and e.get("intervals"):
            e["intervals"] = e["intervals"][1:] if len(e["intervals"]) > 1 else [[e["intervals"][0][0], [e["intervals"][0][1][0], e["intervals"][0][1][1] + 1]]]
            return i, "the accepted set of a from_u32 sweep was changed"
        if e.get("ev") == "reflect":
            e["params"] = e["params"] + ["IdRef"]
            return i, "a parameter was added to a reflected enumerant"
    return None


def _disasm(ev):
    for i, e in enumerate(ev):
        if e.get("ev") == "disasm" and e.get("st") == "ok" and len(e["lines"]) >= e.get("nh", 4) + 2:
            e["lines"].pop(); e["tokens"].pop()
            return i, "the last line of a disassembly was dropped"
    return None


def _lift(ev):
    for i, e in enumerate(ev):
        if e.get("ev") == "lift" and e.get("tag") == "subset" and e.get("st") == "ok":
            e["version"] = [e["version"][0], e["version"][1] + 1]
            return i, "the lifted version word was changed"
    return None


def _storage(ev):
    for i, e in enumerate(ev):
        if e.get("ev") == "scall" and e.get("st") == "ok":
            e["tok"] += 1
            return i, "a returned token index was raised by one"
    return None


def _discli(ev):
    for i, e in enumerate(ev):
        if e.get("ev") == "run" and e.get("st") == "ran":
            e["stdout"] += "x"
            return i, "a character was appended to the tool's output"
    return None


def _module(ev):
    for i, e in enumerate(ev):
        if e.get("ev") == "module" and e.get("st") == "ok" and len(e["all"]) >= 2 and e["all"][0] != e["all"][-1]:
            e["all"] = e["all"][::-1]
            return i, "the all-instruction traversal was reversed"
    return None


def _pred(ev):
    for i, e in enumerate(ev):
        if e.get("ev") == "pred" and e.get("st") == "ok":
            e["flags"]["is_type"] = not e["flags"]["is_type"]
            return i, "the answer of the type predicate was flipped"
    return None


def _decoder(ev):
    for i, e in enumerate(ev):
        if e.get("ev") == "call" and e["res"][0] == "Ok":
            e["off"] += 4
            return i, "the offset observed after a successful request was raised by 4"
    return None


def _storagebulk(ev):
    for i, e in enumerate(ev):
        if e.get("ev") == "brun" and e.get("st") == "ok" and e.get("lookups"):
            e["lookups"] = e["lookups"][:-1] + [[e["lookups"][-1][0], e["lookups"][-1][1] + 1]]
            return i, "the numbers found through the last run of tokens were shifted by one"
    return None


CORRUPT = {"StorageBulkTrace.tla": _storagebulk, "ParserTrace.tla": _parser, "LoaderTrace.tla": _loader, "BuilderTrace.tla": _builder, "TablesTrace.tla": _tables,
           "DisasmTrace.tla": _disasm, "LiftTrace.tla": _lift, "StorageTrace.tla": _storage, "DisCliTrace.tla": _discli,
           "ModuleTrace.tla": _module, "PredTrace.tla": _pred, "DecoderTrace.tla": _decoder}
