"""Shared by the table checks (C08, C09, C17): vh drive-tables suites validated by TablesTrace.tla."""
import json, os, re, time
from .common import *
from .pcommon import BASE_ASSUMPTIONS

DECL = os.path.join(BUILD, "gen", "live_decl.json")
KHRONOS = "agreement with the Khronos grammar is decided against the pinned snapshot GrammarData.json + the textual declarations of the current tree + the hand-transcribed anchors of SpecFacts.tla (InstAnchors: ~110 core instructions, EnumAnchors / MaskAnchors: ~250 enumerants); where the pinned tree and the Khronos JSON already disagreed in every projection outside the anchors, this machinery cannot see it (the JSON is not available in the sealed sandbox)"


def run_tables(rep, prop, suite, seed, extra=None):
    trace = os.path.join(BUILD, "%s_%s.ndjson" % (prop.lower(), suite))
    info = vh(["drive-tables", "--decl", DECL, "--suite", suite, "--seed", str(seed), "--out", trace] + (extra or []), timeout=3000)
    n, bad, dt = tlc_trace("TablesTrace.tla", "TablesTrace.cfg", trace, "%s_%s" % (prop.lower(), suite), env={"DECL": DECL, "DISASMNAMES": os.path.join(SPEC, "DisasmNames.json")}, timeout=3000)
    events = read_trace(trace)
    for idx, code in bad:
        e = events[idx - 1]
        what = e.get("kind") or e.get("table") or e.get("variant") or ""
        detail = e.get("debug") or e.get("alias") or e.get("name") or e.get("key") or (str(e.get("n")) if "n" in e else "") or (e.get("entry", {}).get("name") if isinstance(e.get("entry"), dict) else "") or ""
        rep.violation("tables:%s:%s:%s:code%d" % (e["ev"], what, detail, code), {"component": "tables", "input": {"event": e["ev"], "kind": what, "detail": detail},
                      "observed": e if len(json.dumps(e)) < 4000 else {k: e[k] for k in list(e)[:6]},
                      "expected": "TablesTrace: agreement of the tree's behaviour with GrammarData.json, the textual declarations and the SpecFacts anchors", "spec_ref": "TablesTrace!Code"})
    log("%s/%s: %d events, %d rejected, %.1fs" % (prop, suite, n, len(bad), dt))
    return n, len(bad), events
